/-
The document invariant `DP.DocInv` survives REMOTE operations (C19 / C03 for documents shaped by concurrency).
Everything lives in namespace `Orda.DR`.

Contents
* 0. `toDOp` (the remote document operation a wire operation denotes), `ValuesOK`.
* 1. `execRemoteBase_is_applyD`: executing the wire operation remotely IS applying the denoted operation
  (no error, no panic for an applicable operation).
* 2. transport of `DP.DInv`: along `OpId.syncLamport` (`dinv_sync`), along `DocEq` (`dinv_docEq`);
  `viewOK_of_dinv` (the depth bound `DC.Bounded` from acyclicity).
* 3. a generic remote step `RS` in the closed form `DC.Eff` of the convergence proofs (new nodes, a new kind for
  the parent, one more entry buried / tombstoned — a child of the parent or the LOSING root of the new nodes)
  that preserves the clauses `root`, `sizes`, `stamps`, `ordnd`, `linked`, `scalar` of `DP.DInv` (`RS.next`).
* 4. the elementary operations as such steps: `dinv_applyOp` (put: new key / winner / loser; remove), `dinv_applyE`
  (insert; single-target delete: live / restamp / no-op; single-target update: winner / loser).
* 5. batches (`dinv_applyAllE`), `dinv_applyD`; the theorems asked for: `docInv_remote`, `LifeStep`, `Life`,
  `docInv_life`, `life_call_refines`.
* 6. `goodD_single_obj`, `goodD_single_arr` (a single applicable operation is `GoodD`); `DR.Ex`: non-vacuity — a `Life` run
  with three local calls and two deliveries from another client (an object put that is CONCURRENT to the local calls and
  loses, a later array update), `docInv_life` and `life_call_refines` instantiated on it.
-/
import Orda.Proofs.DocPlain
import Orda.Proofs.DocMixed
import Mathlib.Tactic.SplitIfs
import Mathlib.Tactic.Tauto
set_option linter.unusedSimpArgs false
set_option linter.unusedVariables false
namespace Orda.DR
open Orda Orda.DC Orda.DA Orda.DM
open Orda.DP (DInv DocInv St SizeOK ordIds Scalar NodeOK ShapeOK)

/-! ## 0. the denoted operation -/

/-- the remote document operation a wire operation denotes (timestamps from the operation's identifier) -/
def toDOp (o : Op) : Option DOp :=
  match o.body with
  | .docPut p k v => some (.o (.put p k v o.id.ts))
  | .docRemove p k => some (.o (.del p k o.id.ts))
  | .docInsert p _ (some a) vs => some (.a (.ins p a o.id.ts vs))
  | .docDelete p _ _ tgs => some (.a (.del p tgs o.id.ts))
  | .docUpdate p _ tgs vs => some (.a (.upd p o.id.ts tgs vs))
  | _ => none

/-- the values an operation carries: no null inside, no duplicate keys -/
def ValuesOK : DOp → Prop
  | .o (.put _ _ v _) => v.hasNull = false ∧ JKeysND v
  | .o (.del _ _ _) => True
  | .a (.ins _ _ _ vs) => JVal.hasNullList vs = false ∧ JKeysNDList vs
  | .a (.del _ _ _) => True
  | .a (.upd _ _ _ vs) => JVal.hasNullList vs = false ∧ JKeysNDList vs

/-! ## 1. executing the wire operation = applying the denoted operation -/

theorem goodD_obj {d : Doc} {x : ObjOp} (h : GoodD d [.o x]) : d.WF ∧ OpOK d x := by
  obtain ⟨h1, _, _, _⟩ := h
  exact ⟨h1.1, h1.2.1 x (by simp [objs])⟩

theorem goodD_arr {d : Doc} {x : AOp} (h : GoodD d [.a x]) : GoodE d (flat x) ∧ BatchOK x := by
  obtain ⟨_, h2, h3, _⟩ := h
  have e : arrs [DOp.a x] = [x] := rfl
  rw [e] at h2 h3
  simp only [List.flatMap_cons, List.flatMap_nil, List.append_nil] at h2
  exact ⟨h2, h3 x (by simp)⟩

theorem execRemote_ins {d : Doc} {p a ts : Ts} {vs : List JVal} (h : EOK d (.ins p a ts vs)) :
    ∃ d', d.insertRemoteInArray p a ts vs = .ok d' := by
  obtain ⟨harr, ⟨ns, cs, t', hc⟩, _, _, _⟩ := h
  obtain ⟨pn, sl, sz, hp⟩ := isArr_iff.mp harr
  unfold Doc.insertRemoteInArray
  simp only [hp, hc]
  cases insertAfterId (fun (s : Ts × Ts) => s.1) a (cs.map fun c => (c, c)) sl with
  | none => exact ⟨_, rfl⟩
  | some sl' => exact ⟨_, rfl⟩

theorem execRemote_delArr (d : Doc) (p : Ts) (tgs : List Ts) (ts : Ts) :
    (∃ d', d.deleteRemoteInArray p tgs ts = .ok d') ∨ ∃ c, d.deleteRemoteInArray p tgs ts = .err c := by
  unfold Doc.deleteRemoteInArray
  cases d.findArr p with
  | none => exact Or.inr ⟨_, rfl⟩
  | some x =>
    obtain ⟨pn, sl, sz⟩ := x
    simp only
    generalize Doc.deleteRemoteInArray.go sl tgs ts d 0 = r
    obtain ⟨d1, k⟩ := r
    simp only
    cases d1.findArr p with
    | none => exact Or.inl ⟨_, rfl⟩
    | some y => exact Or.inl ⟨_, rfl⟩

theorem execRemote_upd {d : Doc} {p ts : Ts} {tgs : List Ts} {vs : List JVal}
    (h : GoodE d (flatUpd p tgs vs ts)) (hl : tgs.length ≤ vs.length) :
    (∃ d', d.updateRemoteInArray p ts tgs vs = .ok d') ∨ ∃ c, d.updateRemoteInArray p ts tgs vs = .err c := by
  unfold Doc.updateRemoteInArray
  cases d.findArr p with
  | none => exact Or.inr ⟨_, rfl⟩
  | some x =>
    simp only
    have := upd_go_flat p tgs vs ts d [] (by simpa using h) hl
    exact Or.inl ⟨_, this⟩

/-- executing the wire operation remotely IS applying the denoted operation -/
theorem execRemoteBase_is_applyD (r : Replica) (d : Doc) (hs : r.state = .doc d) (o : Op) (x : DOp) (hx : toDOp o = some x)
    (hok : GoodD d [x]) : (r.execRemoteBase o).1.state = .doc (applyD d x) ∧ (r.execRemoteBase o).2 = none := by
  obtain ⟨oid, body⟩ := o
  unfold toDOp at hx
  unfold Replica.execRemoteBase
  simp only [hs]
  cases body with
  | docPut p k v =>
    simp only [Option.some.injEq] at hx
    subst hx
    obtain ⟨hwf, hop⟩ := goodD_obj hok
    obtain ⟨d', r', h1, h2⟩ := op_returns_ok hwf _ hop
    simp only [execRemote, h1, applyD, h2, and_self]
  | docRemove p k =>
    simp only [Option.some.injEq] at hx
    subst hx
    obtain ⟨hwf, hop⟩ := goodD_obj hok
    obtain ⟨d', r', h1, h2⟩ := op_returns_ok hwf _ hop
    simp only [execRemote, h1, applyD, h2, and_self]
  | docInsert p pos t vs =>
    cases t with
    | none => simp at hx
    | some a =>
      simp only [Option.some.injEq] at hx
      subst hx
      obtain ⟨hg, _⟩ := goodD_arr hok
      have he : EOK d (.ins p a oid.ts vs) := hg.2.1 _ (by simp [flat])
      obtain ⟨d', h1⟩ := execRemote_ins he
      simp only [execRemote, h1, applyD, applyA, and_self]
  | docDelete p pos num tgs =>
    simp only [Option.some.injEq] at hx
    subst hx
    rcases execRemote_delArr d p tgs oid.ts with ⟨d', h1⟩ | ⟨c, h1⟩
    · simp only [execRemote, h1, applyD, applyA, and_self]
    · simp only [execRemote, h1, applyD, applyA, hs, and_self]
  | docUpdate p pos tgs vs =>
    simp only [Option.some.injEq] at hx
    subst hx
    obtain ⟨hg, hb⟩ := goodD_arr hok
    rcases execRemote_upd (by simpa [flat] using hg) hb with ⟨d', h1⟩ | ⟨c, h1⟩
    · simp only [execRemote, h1, applyD, applyA, and_self]
    · simp only [execRemote, h1, applyD, applyA, hs, and_self]
  | snapshot s => simp at hx
  | error c => simp at hx
  | transaction t n => simp at hx
  | increase dl => simp at hx
  | put k v => simp at hx
  | remove k => simp at hx
  | insert pos t vs => simp at hx
  | delete pos num tg => simp at hx
  | update pos tg vs => simp at hx

/-! ## 2. transport of the invariant -/

theorem st_sync {L : OpId} {t : Ts} (n : Nat) (h : St L 0 t) : St (L.syncLamport n) 0 t := by
  obtain ⟨h1, h2⟩ := h
  have h3 : t.lamport ≤ L.lamport := by rcases h2 with h2 | h2 <;> omega
  unfold OpId.syncLamport
  split
  · exact ⟨h1, Or.inl (by simp only; omega)⟩
  · exact ⟨h1, Or.inl (by simp only; omega)⟩

/-- the timestamp of a delivered operation of the replica's era is covered by the synchronised clock -/
theorem st_sync_new (L id : OpId) (he : id.era = L.era) : St (L.syncLamport id.lamport) 0 id.ts := by
  unfold OpId.syncLamport
  split
  · exact ⟨he, Or.inl (by simp only [OpId.ts]; omega)⟩
  · exact ⟨he, Or.inl (by simp only [OpId.ts]; omega)⟩

/-- `St … 0` only looks at era and clock -/
theorem st_key {L : OpId} {t t' : Ts} (h : St L 0 t) (he : t'.era = t.era) (hl : t'.lamport = t.lamport) :
    St L 0 t' := by
  obtain ⟨h1, h2⟩ := h
  exact ⟨he.trans h1, Or.inl (by rcases h2 with h2 | h2 <;> omega)⟩

theorem st_addDelim {L : OpId} {t : Ts} (h : St L 0 t) (i : Nat) : St L 0 (addDelim t i) := st_key h rfl rfl

theorem dinv_sync {L : OpId} {d : Doc} (n : Nat) (I : DInv L 0 d) : DInv (L.syncLamport n) 0 d :=
  ⟨I.wf, I.acyc, I.root, I.sizes, fun c m hf => by
      obtain ⟨s1, s2, s3⟩ := I.stamps c m hf
      exact ⟨st_sync n s1, fun t ht => st_sync n (s2 t ht), fun o ho => st_sync n (s3 o ho)⟩,
    I.ordnd, I.linked, I.scalar⟩

theorem wf_docEq {a b : Doc} (h : DocEq a b) (hb : (ids b.table).Nodup) (hw : a.WF) : b.WF := by
  refine ⟨hb, ?_, ?_⟩
  · intro p n hf c hc
    rw [← h p] at hf
    obtain ⟨nc, h1, h2⟩ := hw.child p n hf c hc
    exact ⟨nc, by rw [← h c]; exact h1, h2⟩
  · intro p n hf
    rw [← h p] at hf
    exact hw.inj p n hf

theorem dinv_docEq {L : OpId} {a b : Doc} (h : DocEq a b) (hb : (ids b.table).Nodup) (I : DInv L 0 a) :
    DInv L 0 b := by
  have hf : ∀ {c n}, b.find c = some n → a.find c = some n := fun {c n} hc => by rw [h c]; exact hc
  refine ⟨wf_docEq h hb I.wf, ?_, ?_, ?_, ?_, ?_, ?_, ?_⟩
  · obtain ⟨rk, hr⟩ := I.acyc
    exact ⟨rk, fun p n hp c hc => hr p n (hf hp) c hc⟩
  · obtain ⟨m, s, hr⟩ := I.root
    exact ⟨m, s, by rw [← h]; exact hr⟩
  · intro c n hc
    exact DP.sizeOK_congr (fun y _ => (docEq_isTomb h y).symm) (I.sizes c n (hf hc))
  · intro c n hc; exact I.stamps c n (hf hc)
  · intro c n hc; exact I.ordnd c n (hf hc)
  · intro c n hc hl
    rcases I.linked c n (hf hc) hl with e | ⟨p, pn, h1, h2, h3⟩
    · exact Or.inl e
    · exact Or.inr ⟨p, pn, h1, by rw [← h p]; exact h2, h3⟩
  · intro c n v hc; exact I.scalar c n v (hf hc)

theorem keysND_docEq {a b : Doc} (h : DocEq a b) (hk : KeysND a) : KeysND b :=
  fun p n m s hf hkk => hk p n m s (by rw [h p]; exact hf) hkk

/-- acyclicity gives the depth bound of the convergence proofs -/
theorem bounded_of {d : Doc} (hw : d.WF) (ha : ∃ rk, Ranked d rk) (hne : ∃ c n, d.find c = some n) : Bounded d := by
  obtain ⟨rk, hr⟩ := ha
  classical
  refine ⟨fun c => if (d.find c).isSome then DP.crk d rk c else 0, ?_, ?_⟩
  · intro p n hp c hc
    obtain ⟨nc, hnc, _⟩ := hw.child p n hp c hc
    simp only [hp, hnc, Option.isSome_some, if_true]
    exact DP.crk_ranked hw hr p n hp c hc
  · intro c
    obtain ⟨c0, n0, h0⟩ := hne
    have hpos : 0 < d.table.length := List.length_pos_of_mem (find_some_mem h0)
    cases hf : d.find c with
    | none => simpa [hf] using hpos
    | some n =>
      simp only [hf, Option.isSome_some, if_true]
      unfold DP.crk
      have := DP.countP_lt (fun m => decide (rk m.c < rk c)) (fun _ => true) d.table (by simp)
        ⟨n, find_some_mem hf, by simp [find_some_c hf], rfl⟩
      simpa using this

theorem viewOK_of_dinv {L : OpId} {d : Doc} (I : DInv L 0 d) (hk : KeysND d) : ViewOK d := by
  obtain ⟨m, s, hr⟩ := I.root
  exact ⟨hk, bounded_of I.wf I.acyc ⟨_, _, hr⟩, ⟨_, m, s, hr, rfl⟩⟩

theorem acyc_of_bounded {d : Doc} (h : Bounded d) : ∃ rk, Ranked d rk := by
  obtain ⟨rk, hr, _⟩ := h
  exact ⟨rk, hr⟩

/-! ## 3. a generic remote step, in the closed form `Eff` of the convergence proofs

`d'.find = e.run d.find`: the new nodes `e.ns` enter the table, the parent `e.p` gets the kind `K'`, and one more
entry `e.x` is left alone (`id`), buried (`fun1 t`: a child of the parent that leaves its key / slot, or the root of
the new nodes when the operation LOSES against the occupant) or tombstoned (`setD t`: a child of the parent).
Freshness of the new identifiers is a hypothesis (causal delivery), not a consequence of the clock. -/

theorem shape_cases {L : OpId} {K K' : DKind} (h : ShapeOK L 0 K K') :
    (∃ m s m' s', K = .obj m s ∧ K' = .obj m' s') ∨
    (∃ sl s sl' s', K = .arr sl s ∧ K' = .arr sl' s' ∧ (sl'.map (·.1)).Nodup ∧ ∀ o ∈ sl'.map (·.1), St L 0 o) := by
  cases K with
  | elem v => cases K' <;> exact h.elim
  | obj m s =>
    cases K' with
    | obj m' s' => exact Or.inl ⟨_, _, _, _, rfl, rfl⟩
    | elem v => exact h.elim
    | arr sl s => exact h.elim
  | arr sl s =>
    cases K' with
    | arr sl' s' => exact Or.inr ⟨_, _, _, _, rfl, rfl, h.1, h.2⟩
    | elem v => exact h.elim
    | obj m s => exact h.elim

theorem U_cases {ns : List DNode} {F : Ts → Option DNode} {c : Ts} {n0 : DNode} (h : U ns F c = some n0) :
    (n0 ∈ ns ∧ n0.c = c) ∨ (c ∉ ids ns ∧ F c = some n0) := by
  unfold U at h
  cases hn : nfind ns c with
  | none => rw [hn] at h; exact Or.inr ⟨nfind_none_iff.mp hn, by simpa using h⟩
  | some m =>
    rw [hn] at h
    have : m = n0 := by simpa using h
    subst this
    exact Or.inl (nfind_some hn)

theorem U_new {ns : List DNode} (F : Ts → Option DNode) (hnd : (ids ns).Nodup) {n : DNode} (hn : n ∈ ns) :
    U ns F n.c = some n := by
  unfold U; rw [nfind_of_mem hnd hn]; rfl

/-- the node-local clauses of `DInv`: stamps, distinct order identifiers, scalar elements -/
def NodeLoc (L : OpId) (n : DNode) : Prop :=
  St L 0 n.c ∧ (∀ t, n.d = some t → St L 0 t) ∧ (∀ o ∈ ordIds n.kind, St L 0 o) ∧ (ordIds n.kind).Nodup ∧
    ∀ v, n.kind = .elem v → Scalar v

theorem nodeLoc_old {L : OpId} {d : Doc} (I : DInv L 0 d) {c : Ts} {n : DNode} (hf : d.find c = some n) :
    NodeLoc L n := by
  obtain ⟨s1, s2, s3⟩ := I.stamps c n hf
  exact ⟨s1, s2, s3, I.ordnd c n hf, fun v hv => I.scalar c n v hf hv⟩

theorem nodeLoc_setD {L : OpId} {n : DNode} {t : Ts} (h : NodeLoc L n) (ht : St L 0 t) :
    NodeLoc L { n with d := some t } := by
  obtain ⟨s1, s2, s3, s4, s5⟩ := h
  refine ⟨s1, ?_, s3, s4, s5⟩
  intro t' ht'
  simp only [Option.some.injEq] at ht'
  exact ht' ▸ ht

theorem setD_ne_id (t : Ts) : setD t ≠ id := by
  intro e'
  have := congrFun e' (some ⟨Ts.oldest, none, none, .obj [] 0⟩)
  simp [setD] at this

theorem fun1_ne_id (t : Ts) : fun1 t ≠ id := by
  intro e'
  have := congrFun e' (some ⟨Ts.oldest, none, none, .obj [] 0⟩)
  simp [fun1] at this

structure RS (L : OpId) (d : Doc) (e : Eff) (pn : DNode) (K' : DKind) (d' : Doc) : Prop where
  inv : DInv L 0 d
  hp : d.find e.p = some pn
  find' : d'.find = e.run d.find
  hs : e.s (some pn) = some { pn with kind := K' }
  block : ∃ ts ts', Block ts e.ns ts'
  fresh : Fresh d e.ns
  newst : ∀ c ∈ ids e.ns, St L 0 c
  nodeok : ∀ n ∈ e.ns, NodeOK n
  lnk : ∀ n ∈ e.ns, (n.parent = some e.p ∧ (n.c ∈ kids K' ∨ (n.c = e.x ∧ ∃ t, e.g = fun1 t))) ∨
      ∃ q ∈ e.ns, n.parent = some q.c ∧ n.c ∈ kids q.kind
  g : e.g = id ∨ ∃ t, St L 0 t ∧
      ((e.g = fun1 t ∧ e.x ∉ kids K' ∧
          (e.x ∈ kids pn.kind ∨ (e.x ∈ ids e.ns ∧ ∀ n ∈ e.ns, e.x ∉ kids n.kind))) ∨
        (e.g = setD t ∧ e.x ∈ kids pn.kind))
  keep : ∀ c ∈ kids pn.kind, c ∈ kids K' ∨ (c = e.x ∧ ∃ t, e.g = fun1 t)
  shape : ShapeOK L 0 pn.kind K'

namespace RS
variable {L : OpId} {d d' : Doc} {e : Eff} {pn : DNode} {K' : DKind}

theorem p_not_new (h : RS L d e pn K' d') : e.p ∉ ids e.ns := fun hm => by
  have := h.fresh e.p hm
  rw [h.hp] at this; cases this

theorem idsnd (h : RS L d e pn K' d') : (ids e.ns).Nodup := by
  obtain ⟨ts, ts', hb⟩ := h.block
  exact block_ids_nodup hb

theorem kid_old (h : RS L d e pn K' d') {y : Ts} (hy : y ∈ kids pn.kind) :
    (∃ ny, d.find y = some ny ∧ ny.parent = some e.p) ∧ y ∉ ids e.ns ∧ y ≠ e.p := by
  obtain ⟨ny, h1, h2⟩ := h.inv.wf.child e.p pn h.hp y hy
  refine ⟨⟨ny, h1, h2⟩, ?_, ?_⟩
  · intro hm; rw [h.fresh y hm] at h1; cases h1
  · obtain ⟨rk, hr⟩ := h.inv.acyc
    intro e'
    have := hr e.p pn h.hp y hy
    rw [e'] at this
    exact Nat.lt_irrefl _ this

theorem gform (h : RS L d e pn K' d') : e.g = id ∨ ∃ t, St L 0 t ∧ (e.g = fun1 t ∨ e.g = setD t) := by
  rcases h.g with h1 | ⟨t, ht, ⟨h1, _⟩ | ⟨h1, _⟩⟩
  · exact Or.inl h1
  · exact Or.inr ⟨t, ht, Or.inl h1⟩
  · exact Or.inr ⟨t, ht, Or.inr h1⟩

/-- the buried / tombstoned entry is an old child of the parent, or an unreferenced new node -/
theorem x_away (h : RS L d e pn K' d') (hg : e.g ≠ id) :
    (e.x ∈ kids pn.kind ∧ e.x ∉ ids e.ns) ∨ (e.x ∈ ids e.ns ∧ ∀ n ∈ e.ns, e.x ∉ kids n.kind) := by
  rcases h.g with h1 | ⟨t, _, ⟨_, _, h2 | h2⟩ | ⟨_, h2⟩⟩
  · exact absurd h1 hg
  · exact Or.inl ⟨h2, (h.kid_old h2).2.1⟩
  · exact Or.inr h2
  · exact Or.inl ⟨h2, (h.kid_old h2).2.1⟩

theorem x_ne_p (h : RS L d e pn K' d') (hg : e.g ≠ id) : e.x ≠ e.p := by
  rcases h.x_away hg with ⟨h1, _⟩ | ⟨h1, _⟩
  · exact (h.kid_old h1).2.2
  · exact fun e' => h.p_not_new (e' ▸ h1)

theorem find_p (h : RS L d e pn K' d') : d'.find e.p = some { pn with kind := K' } := by
  have hU : U e.ns d.find e.p = some pn := by rw [U_old h.p_not_new]; exact h.hp
  rw [h.find']
  unfold Eff.run
  by_cases hg : e.g = id
  · rw [hg, upd_id, upd_same, hU]; exact h.hs
  · rw [upd_other _ _ (h.x_ne_p hg).symm, upd_same, hU]; exact h.hs

theorem find_other (h : RS L d e pn K' d') {c : Ts} (hp : c ≠ e.p) (hx : c ≠ e.x ∨ e.g = id) :
    d'.find c = U e.ns d.find c := by
  rw [h.find']
  unfold Eff.run
  rcases hx with hx | hx
  · rw [upd_other _ _ hx, upd_other _ _ hp]
  · rw [hx, upd_id, upd_other _ _ hp]

theorem find_x (h : RS L d e pn K' d') (hg : e.g ≠ id) : d'.find e.x = e.g (U e.ns d.find e.x) := by
  rw [h.find']
  unfold Eff.run
  rw [upd_same, upd_other _ _ (h.x_ne_p hg)]

/-- an entry other than the parent: unchanged, or (at `e.x`) stamped dead, or (an element at `e.x`) gone -/
theorem find_mod (h : RS L d e pn K' d') {c : Ts} {n0 : DNode} (hp : c ≠ e.p) (hU : U e.ns d.find c = some n0) :
    ((c ≠ e.x ∨ e.g = id) ∧ d'.find c = some n0) ∨
    (c = e.x ∧ e.g ≠ id ∧ ∃ t, St L 0 t ∧ (d'.find c = some { n0 with d := some t } ∨
        (d'.find c = none ∧ ∃ v, n0.kind = .elem v))) := by
  by_cases hc : c ≠ e.x ∨ e.g = id
  · exact Or.inl ⟨hc, by rw [h.find_other hp hc]; exact hU⟩
  · have hc1 : c = e.x := by
      by_contra hne; exact hc (Or.inl hne)
    have hg : e.g ≠ id := fun hg => hc (Or.inr hg)
    subst hc1
    right
    refine ⟨rfl, hg, ?_⟩
    rcases h.gform with h1 | ⟨t, ht, h1 | h1⟩
    · exact absurd h1 hg
    · refine ⟨t, ht, ?_⟩
      rw [h.find_x hg, hU, h1]
      cases hk : n0.kind with
      | elem v => right; exact ⟨by simp only [fun1, hk], v, rfl⟩
      | obj m s => left; simp only [fun1, hk]
      | arr sl s => left; simp only [fun1, hk]
    · refine ⟨t, ht, Or.inl ?_⟩
      rw [h.find_x hg, hU, h1]
      rfl

theorem inversion (h : RS L d e pn K' d') {c : Ts} {n : DNode} (hf : d'.find c = some n) :
    (c = e.p ∧ n = { pn with kind := K' }) ∨
    (c ≠ e.p ∧ ∃ n0, U e.ns d.find c = some n0 ∧
      (((c ≠ e.x ∨ e.g = id) ∧ n = n0) ∨ (c = e.x ∧ e.g ≠ id ∧ ∃ t, St L 0 t ∧ n = { n0 with d := some t }))) := by
  by_cases hp : c = e.p
  · left
    refine ⟨hp, ?_⟩
    rw [hp, h.find_p] at hf
    exact (Option.some.inj hf).symm
  · right
    refine ⟨hp, ?_⟩
    cases hU : U e.ns d.find c with
    | none =>
      exfalso
      by_cases hc : c ≠ e.x ∨ e.g = id
      · rw [h.find_other hp hc, hU] at hf; cases hf
      · have hc1 : c = e.x := by
          by_contra hne; exact hc (Or.inl hne)
        have hg : e.g ≠ id := fun hg => hc (Or.inr hg)
        subst hc1
        rw [h.find_x hg, hU] at hf
        rcases h.gform with h1 | ⟨t, _, h1 | h1⟩
        · exact hg h1
        · rw [h1] at hf; cases hf
        · rw [h1] at hf; cases hf
    | some n0 =>
      refine ⟨n0, rfl, ?_⟩
      rcases h.find_mod hp hU with ⟨h1, h2⟩ | ⟨h1, h2, t, ht, h3 | ⟨h3, _⟩⟩
      · rw [h2] at hf
        exact Or.inl ⟨h1, (Option.some.inj hf).symm⟩
      · rw [h3] at hf
        exact Or.inr ⟨h1, h2, t, ht, (Option.some.inj hf).symm⟩
      · rw [h3] at hf; cases hf

theorem isTomb_old (h : RS L d e pn K' d') {c : Ts} {nc : DNode} (hc : d.find c = some nc)
    (hx : c ≠ e.x ∨ e.g = id) : d'.isTomb c = d.isTomb c := by
  by_cases hp : c = e.p
  · subst hp
    unfold Doc.isTomb
    rw [h.find_p, h.hp]
  · have hcn : c ∉ ids e.ns := fun hm => by rw [h.fresh c hm] at hc; cases hc
    unfold Doc.isTomb
    rw [h.find_other hp hx, U_old hcn]

theorem isTomb_new (h : RS L d e pn K' d') {n : DNode} (hn : n ∈ e.ns) (hx : n.c ≠ e.x ∨ e.g = id) :
    d'.isTomb n.c = false := by
  obtain ⟨ts, ts', hb⟩ := h.block
  have hm : n.c ∈ ids e.ns := List.mem_map.mpr ⟨n, hn, rfl⟩
  have hp : n.c ≠ e.p := fun e' => h.p_not_new (e' ▸ hm)
  unfold Doc.isTomb
  rw [h.find_other hp hx, U_new _ h.idsnd hn]
  simp [hb.live n hn]

theorem isTomb_setD (h : RS L d e pn K' d') {t : Ts} (hg : e.g = setD t) (hx : e.x ∈ kids pn.kind) :
    d'.isTomb e.x = true := by
  obtain ⟨⟨nx, hnx, _⟩, hxn, _⟩ := h.kid_old hx
  have hg' : e.g ≠ id := hg ▸ setD_ne_id t
  unfold Doc.isTomb
  rw [h.find_x hg', U_old hxn, hnx, hg]
  rfl

theorem new_kid (h : RS L d e pn K' d') {n0 : DNode} (hn : n0 ∈ e.ns) {y : Ts} (hy : y ∈ kids n0.kind) :
    ∃ nc ∈ e.ns, nc.c = y ∧ nc.parent = some n0.c ∧ d'.find y = some nc := by
  obtain ⟨ts, ts', hb⟩ := h.block
  obtain ⟨nc, hnc, h1, h2, _⟩ := hb.links n0 hn y hy
  have hym : y ∈ ids e.ns := h1 ▸ List.mem_map.mpr ⟨nc, hnc, rfl⟩
  have hyp : y ≠ e.p := fun e' => h.p_not_new (e' ▸ hym)
  have hyx : y ≠ e.x ∨ e.g = id := by
    by_cases hg : e.g = id
    · exact Or.inr hg
    · left
      rcases h.x_away hg with ⟨_, h3⟩ | ⟨_, h3⟩
      · intro e'; exact h3 (e' ▸ hym)
      · intro e'; exact h3 n0 hn (e' ▸ hy)
  refine ⟨nc, hnc, h1, h2, ?_⟩
  rw [h.find_other hyp hyx, ← h1, U_new _ h.idsnd hnc]

theorem old_kid_isTomb (h : RS L d e pn K' d') {q : Ts} {nq : DNode} (hq : d.find q = some nq) (hne : q ≠ e.p)
    {y : Ts} (hy : y ∈ kids nq.kind) : d'.isTomb y = d.isTomb y := by
  obtain ⟨ny, hny, _⟩ := h.inv.wf.child q nq hq y hy
  apply h.isTomb_old hny
  by_cases hg : e.g = id
  · exact Or.inr hg
  · left
    rcases h.x_away hg with ⟨h3, _⟩ | ⟨h3, _⟩
    · intro e'; exact hne (wf_unique_parent h.inv.wf hq h.hp hy (e' ▸ h3))
    · intro e'; rw [h.fresh y (e' ▸ h3)] at hny; cases hny

theorem nodeLoc_new (h : RS L d e pn K' d') {n : DNode} (hn : n ∈ e.ns) : NodeLoc L n := by
  obtain ⟨ts, ts', hb⟩ := h.block
  have hok := h.nodeok n hn
  have hinj := hb.inj n hn
  refine ⟨h.newst _ (List.mem_map.mpr ⟨n, hn, rfl⟩), ?_, ?_, ?_, ?_⟩
  · intro t ht
    rw [hb.live n hn] at ht; cases ht
  · unfold NodeOK at hok
    cases hk : n.kind with
    | elem v => simp [ordIds]
    | obj m s => simp [ordIds]
    | arr sl s =>
      rw [hk] at hok
      simp only at hok
      intro o ho
      simp only [ordIds] at ho
      rw [hok.2] at ho
      obtain ⟨nc, hnc, rfl, _⟩ := hb.links n hn o (by rw [hk]; exact ho)
      exact h.newst _ (List.mem_map.mpr ⟨nc, hnc, rfl⟩)
  · unfold NodeOK at hok
    cases hk : n.kind with
    | elem v => simp [ordIds]
    | obj m s => simp [ordIds]
    | arr sl s =>
      rw [hk] at hok hinj
      simp only at hok
      simp only [ordIds]
      rw [hok.2]; exact hinj
  · intro v hk
    unfold NodeOK at hok
    rw [hk] at hok
    exact hok

theorem next_root (h : RS L d e pn K' d') : ∃ m s, d'.find Ts.oldest = some ⟨Ts.oldest, none, none, .obj m s⟩ := by
  obtain ⟨m, s, hr⟩ := h.inv.root
  by_cases hp : Ts.oldest = e.p
  · have e1 : pn = ⟨Ts.oldest, none, none, .obj m s⟩ := by
      have := h.hp
      rw [← hp, hr] at this
      exact (Option.some.inj this).symm
    rcases shape_cases h.shape with ⟨m0, s0, m', s', hk, hK⟩ | ⟨sl, s0, sl', s', hk, _⟩
    · have := h.find_p
      rw [← hp, e1, hK] at this
      exact ⟨m', s', this⟩
    · rw [e1] at hk; cases hk
  · have hn : Ts.oldest ∉ ids e.ns := fun hm => by rw [h.fresh _ hm] at hr; cases hr
    have hx : Ts.oldest ≠ e.x ∨ e.g = id := by
      by_cases hg : e.g = id
      · exact Or.inr hg
      · left
        rcases h.x_away hg with ⟨h3, _⟩ | ⟨h3, _⟩
        · intro e'
          obtain ⟨nx, h4, h5⟩ := h.inv.wf.child e.p pn h.hp e.x h3
          rw [← e', hr] at h4
          have := Option.some.inj h4
          rw [← this] at h5
          cases h5
        · intro e'; exact hn (e' ▸ h3)
    exact ⟨m, s, by rw [h.find_other hp hx, U_old hn]; exact hr⟩

theorem next_local (h : RS L d e pn K' d') {c : Ts} {n : DNode} (hf : d'.find c = some n) : NodeLoc L n := by
  rcases h.inversion hf with ⟨rfl, rfl⟩ | ⟨hp, n0, hU, hn⟩
  · obtain ⟨s1, s2, _, _, _⟩ := nodeLoc_old h.inv h.hp
    rcases shape_cases h.shape with ⟨m0, s0, m', s', hk, hK⟩ | ⟨sl, s0, sl', s', hk, hK, h1, h2⟩
    · subst hK
      exact ⟨s1, s2, by simp [ordIds], by simp [ordIds], by intro v hv; cases hv⟩
    · subst hK
      exact ⟨s1, s2, h2, h1, by intro v hv; cases hv⟩
  · have h0 : NodeLoc L n0 := by
      rcases U_cases hU with ⟨h1, _⟩ | ⟨_, h1⟩
      · exact h.nodeLoc_new h1
      · exact nodeLoc_old h.inv h1
    rcases hn with ⟨_, rfl⟩ | ⟨_, _, t, ht, rfl⟩
    · exact h0
    · exact nodeLoc_setD h0 ht

theorem next_sizes (h : RS L d e pn K' d') (hsize : SizeOK d' K') {c : Ts} {n : DNode} (hf : d'.find c = some n) :
    SizeOK d' n.kind := by
  rcases h.inversion hf with ⟨rfl, rfl⟩ | ⟨hp, n0, hU, hn⟩
  · exact hsize
  · have hk : n.kind = n0.kind := by
      rcases hn with ⟨_, rfl⟩ | ⟨_, _, t, ht, rfl⟩ <;> rfl
    rw [hk]
    rcases U_cases hU with ⟨h1, _⟩ | ⟨_, h1⟩
    · have hok := h.nodeok n0 h1
      have hlive : ∀ x ∈ kids n0.kind, d'.isTomb x = false := by
        intro x hx
        obtain ⟨ts, ts', hb⟩ := h.block
        obtain ⟨nc, hnc, rfl, _, h5⟩ := h.new_kid h1 hx
        simp [Doc.isTomb, h5, hb.live nc hnc]
      unfold NodeOK at hok
      cases hk0 : n0.kind with
      | elem v => trivial
      | obj m s =>
        rw [hk0] at hok hlive
        simp only at hok
        unfold SizeOK
        rw [hok]
        congr 1
        symm
        rw [List.filter_eq_self.mpr]
        intro x hx
        simp [hlive x.2 (List.mem_map.mpr ⟨x, hx, rfl⟩)]
      | arr sl s =>
        rw [hk0] at hok hlive
        simp only at hok
        unfold SizeOK
        rw [hok.1]
        congr 1
        symm
        rw [List.filter_eq_self.mpr]
        intro x hx
        simp [slotLive, hlive x.2 (List.mem_map.mpr ⟨x, hx, rfl⟩)]
    · apply DP.sizeOK_congr _ (h.inv.sizes c n0 h1)
      intro y hy
      exact h.old_kid_isTomb h1 hp hy

/-- a node other than the parent that references a child still references it -/
theorem parent_kept (h : RS L d e pn K' d') {q : Ts} {nq : DNode} (hU : U e.ns d.find q = some nq) (hne : q ≠ e.p)
    {y : Ts} (hy : y ∈ kids nq.kind) : ∃ nq', d'.find q = some nq' ∧ y ∈ kids nq'.kind := by
  rcases h.find_mod hne hU with ⟨_, h2⟩ | ⟨_, _, t, _, h3 | ⟨_, v, h3⟩⟩
  · exact ⟨nq, h2, hy⟩
  · exact ⟨_, h3, hy⟩
  · rw [h3] at hy; simp [kids] at hy

theorem next_linked (h : RS L d e pn K' d') {c : Ts} {n : DNode} (hf : d'.find c = some n) (hlive : n.d = none) :
    c = Ts.oldest ∨ ∃ p pn', n.parent = some p ∧ d'.find p = some pn' ∧ c ∈ kids pn'.kind := by
  have oldU : ∀ {q : Ts} {nq : DNode}, d.find q = some nq → U e.ns d.find q = some nq := by
    intro q nq hq
    rw [U_old (fun hm => by rw [h.fresh q hm] at hq; cases hq)]; exact hq
  rcases h.inversion hf with ⟨rfl, rfl⟩ | ⟨hp, n0, hU, hn⟩
  · rcases h.inv.linked _ pn h.hp hlive with e' | ⟨q, nq, h1, h2, h3⟩
    · exact Or.inl e'
    · have hq : q ≠ e.p := by
        obtain ⟨rk, hr⟩ := h.inv.acyc
        intro e'
        have := hr q nq h2 e.p h3
        rw [e'] at this
        exact Nat.lt_irrefl _ this
      obtain ⟨nq', h4, h5⟩ := h.parent_kept (oldU h2) hq h3
      exact Or.inr ⟨q, nq', h1, h4, h5⟩
  · rcases hn with ⟨hcx, rfl⟩ | ⟨_, _, t, _, rfl⟩
    · rcases U_cases hU with ⟨h1, h2⟩ | ⟨_, h1⟩
      · rcases h.lnk n h1 with ⟨h3, h4 | ⟨h4, t, h5⟩⟩ | ⟨q, hq, h3, h4⟩
        · exact Or.inr ⟨e.p, _, h3, h.find_p, h2 ▸ h4⟩
        · exfalso
          rcases hcx with hcx | hcx
          · exact hcx (h2 ▸ h4)
          · exact fun1_ne_id t (h5.symm.trans hcx)
        · have hqp : q.c ≠ e.p := fun e' => h.p_not_new (e' ▸ List.mem_map.mpr ⟨q, hq, rfl⟩)
          obtain ⟨nq', h5, h6⟩ := h.parent_kept (U_new _ h.idsnd hq) hqp h4
          exact Or.inr ⟨q.c, nq', h3, h5, h2 ▸ h6⟩
      · rcases h.inv.linked c n h1 hlive with e' | ⟨q, nq, h2, h3, h4⟩
        · exact Or.inl e'
        · by_cases hq : q = e.p
          · subst hq
            rw [h.hp] at h3
            have := Option.some.inj h3
            subst this
            rcases h.keep c h4 with h5 | ⟨h5, t, h6⟩
            · exact Or.inr ⟨e.p, _, h2, h.find_p, h5⟩
            · exfalso
              rcases hcx with hcx | hcx
              · exact hcx h5
              · exact fun1_ne_id t (h6.symm.trans hcx)
          · obtain ⟨nq', h5, h6⟩ := h.parent_kept (oldU h3) hq h4
            exact Or.inr ⟨q, nq', h2, h5, h6⟩
    · simp at hlive

/-- the invariant after the step (well-formedness and acyclicity come from the convergence proofs) -/
theorem next (h : RS L d e pn K' d') (hwf : d'.WF) (hac : ∃ rk, Ranked d' rk) (hsize : SizeOK d' K') :
    DInv L 0 d' :=
  ⟨hwf, hac, h.next_root, fun c n hf => h.next_sizes hsize hf,
    fun c n hf => ⟨(h.next_local hf).1, (h.next_local hf).2.1, (h.next_local hf).2.2.1⟩,
    fun c n hf => (h.next_local hf).2.2.2.1, fun c n hf hl => h.next_linked hf hl,
    fun c n v hf hk => (h.next_local hf).2.2.2.2 v hk⟩

end RS

/-! ## 4. the elementary operations as steps -/

theorem filter_len_congr {α : Type} {p q : α → Bool} {l : List α} (h : ∀ x ∈ l, p x = q x) :
    (l.filter p).length = (l.filter q).length := by rw [List.filter_congr h]

theorem block_newst {L : OpId} {ts ts' : Ts} {ns : List DNode} (hb : Block ts ns ts') (hst : St L 0 ts) :
    ∀ c ∈ ids ns, St L 0 c := by
  intro c hc
  rw [hb.ids] at hc
  obtain ⟨i, _, rfl⟩ := DC.mem_delimSeq.mp hc
  exact st_addDelim hst i

/-- a remote put keeps the invariant: the key is new, the value wins against the occupant, or it loses (then the
    new root is buried under the occupant's identifier and stays unlinked) -/
theorem dinv_put {L : OpId} {d : Doc} (I : DInv L 0 d) {p : Ts} {k : String} {v : JVal} {ts : Ts}
    (hok : OpOK d (.put p k v ts)) (hst : St L 0 ts) (hwf' : (applyOp d (.put p k v ts)).WF)
    (hac' : ∃ rk, Ranked (applyOp d (.put p k v ts)) rk) : DInv L 0 (applyOp d (.put p k v ts)) := by
  obtain ⟨pn, m, size, ts', hpre⟩ := putPre_of_ok I.wf hok
  have hfind := find_applyOp_eff I.wf _ hok
  unfold effOf at hfind
  simp only [hpre.findObj] at hfind
  generalize applyOp d (.put p k v ts) = d' at hfind hwf' hac' ⊢
  generalize nodesOf (.put p k v ts) = ns at hpre hfind
  have hblock := hpre.block
  obtain ⟨hnodeok, hlnk0⟩ := DP.createNode_spec2 p ts v _ hpre.hc
  simp only at hnodeok hlnk0
  have hnewst := block_newst hblock hst
  have hkids : kids pn.kind = m.map (·.2) := by rw [hpre.hk]; rfl
  have hvnd : (m.map (·.2)).Nodup := hpre.vals_nodup
  obtain ⟨n0, rest, hns0, hn0c, hn0p⟩ := hpre.root
  have hn0mem : n0 ∈ ns := by rw [hns0]; simp
  cases hf : alFind k m with
  | none =>
    simp only [hf] at hfind
    have hrs : RS L d ⟨ns, p, skG (.obj (alSet k ts m) (size + 1)), p, id⟩ pn
        (.obj (alSet k ts m) (size + 1)) d' := by
      refine ⟨I, hpre.hp, hfind, ?_, ⟨_, _, hblock⟩, hpre.fresh, hnewst, hnodeok, ?_, Or.inl rfl, ?_, ?_⟩
      · simp only [skG, Option.map_some, hpre.hk]
      · intro n hn
        rcases hlnk0 n hn with ⟨h1, h2⟩ | h
        · refine Or.inl ⟨h2, Or.inl ?_⟩
          simp only [List.mem_singleton] at h1
          rw [h1]; simp only [kids]; rw [alSet_vals_none _ hf]; simp
        · exact Or.inr h
      · intro c hc
        left
        rw [hkids] at hc
        simp only [kids]; rw [alSet_vals_none _ hf]
        exact List.mem_append_left _ hc
      · rw [hpre.hk]; trivial
    apply hrs.next hwf' hac'
    have hsz := I.sizes p pn hpre.hp
    rw [hpre.hk] at hsz
    simp only [SizeOK] at hsz ⊢
    rw [alSet_of_none k _ m hf, List.filter_append, List.length_append]
    have h1 : (m.filter fun e => !d'.isTomb e.2).length = (m.filter fun e => !d.isTomb e.2).length := by
      apply filter_len_congr
      intro x hx
      obtain ⟨⟨nx, hnx, _⟩, _, _⟩ := hrs.kid_old (by rw [hkids]; exact List.mem_map.mpr ⟨x, hx, rfl⟩)
      rw [hrs.isTomb_old hnx (Or.inr rfl)]
    have h2 := hrs.isTomb_new hn0mem (Or.inr rfl)
    rw [hn0c] at h2
    rw [h1, hsz]
    simp [h2]
  | some old =>
    simp only [hf] at hfind
    obtain ⟨A, B, e1, _, e3⟩ := DP.alFind_split hf
    have hold : old ∈ kids pn.kind := by rw [hkids]; exact alFind_mem_vals hf
    have htsold : ts ≠ old := fun e' => hpre.ts_notin (e' ▸ alFind_mem_vals hf)
    by_cases hlt : (d.timeOf old).cmp ts = .lt
    · simp only [hlt, if_true] at hfind
      have hsplit := alSet_vals_some hvnd hf hpre.ts_notin
      have hrs : RS L d ⟨ns, p, skG (.obj (alSet k ts m) (if d.isTomb old then size + 1 else size)), old, fun1 ts⟩ pn
          (.obj (alSet k ts m) (if d.isTomb old then size + 1 else size)) d' := by
        refine ⟨I, hpre.hp, hfind, ?_, ⟨_, _, hblock⟩, hpre.fresh, hnewst, hnodeok, ?_, ?_, ?_, ?_⟩
        · simp only [skG, Option.map_some, hpre.hk]
        · intro n hn
          rcases hlnk0 n hn with ⟨h1, h2⟩ | h
          · refine Or.inl ⟨h2, Or.inl ?_⟩
            simp only [List.mem_singleton] at h1
            rw [h1]; simp only [kids]; rw [e3]; simp
          · exact Or.inr h
        · exact Or.inr ⟨ts, hst, Or.inl ⟨rfl, hsplit.2.1, Or.inl hold⟩⟩
        · intro c hc
          by_cases hco : c = old
          · exact Or.inr ⟨hco, ts, rfl⟩
          · left
            rw [hkids, e1] at hc
            simp only [kids]; rw [e3]
            simp only [List.map_append, List.map_cons, List.mem_append, List.mem_cons] at hc ⊢
            rcases hc with h | h | h
            · exact Or.inl h
            · exact absurd h hco
            · exact Or.inr (Or.inr h)
        · rw [hpre.hk]; trivial
      apply hrs.next hwf' hac'
      have hsz := I.sizes p pn hpre.hp
      rw [hpre.hk] at hsz
      simp only [SizeOK] at hsz ⊢
      rw [e3]
      rw [e1] at hsz hvnd
      have hcong : ∀ (X : List (String × Ts)), (∀ x ∈ X, x.2 ∈ m.map (·.2) ∧ x.2 ≠ old) →
          (X.filter fun e => !d'.isTomb e.2) = X.filter fun e => !d.isTomb e.2 := by
        intro X hX
        apply List.filter_congr
        intro x hx
        obtain ⟨hx1, hx2⟩ := hX x hx
        obtain ⟨⟨nx, hnx, _⟩, _, _⟩ := hrs.kid_old (by rw [hkids]; exact hx1)
        rw [hrs.isTomb_old hnx (Or.inl hx2)]
      simp only [List.map_append, List.map_cons, List.nodup_append, List.nodup_cons, List.mem_cons] at hvnd
      have hA : ∀ x ∈ A, x.2 ∈ m.map (·.2) ∧ x.2 ≠ old := by
        intro x hx
        refine ⟨by rw [e1]; simp only [List.map_append, List.mem_append]; exact Or.inl (List.mem_map.mpr ⟨x, hx, rfl⟩), ?_⟩
        intro e
        exact hvnd.2.2 x.2 (List.mem_map.mpr ⟨x, hx, rfl⟩) old (Or.inl rfl) e
      have hB : ∀ x ∈ B, x.2 ∈ m.map (·.2) ∧ x.2 ≠ old := by
        intro x hx
        refine ⟨by rw [e1]; simp only [List.map_append, List.map_cons, List.mem_append, List.mem_cons]; exact Or.inr (Or.inr (List.mem_map.mpr ⟨x, hx, rfl⟩)), ?_⟩
        intro e
        exact hvnd.2.1.1 (e ▸ List.mem_map.mpr ⟨x, hx, rfl⟩)
      have h2 := hrs.isTomb_new hn0mem (Or.inl (by rw [hn0c]; exact htsold))
      rw [hn0c] at h2
      rw [List.filter_append, List.filter_cons, hcong A hA, hcong B hB]
      rw [List.filter_append, List.filter_cons] at hsz
      simp only [h2, Bool.not_false, if_true, List.length_append, List.length_cons]
      by_cases ht : d.isTomb old = true
      · simp only [ht, Bool.not_true, Bool.false_eq_true, if_false, List.length_append, if_true] at hsz ⊢
        rw [hsz]; push_cast; omega
      · simp only [ht, Bool.not_false, if_true, List.length_append, List.length_cons, Bool.false_eq_true,
          if_false] at hsz ⊢
        exact hsz
    · simp only [hlt, if_false] at hfind
      obtain ⟨no, hno, _⟩ := hpre.old_find hf
      have hsto : St L 0 old := by
        have := (I.stamps old no hno).1
        rwa [find_some_c hno] at this
      have hrs : RS L d ⟨ns, p, id, ts, fun1 old⟩ pn pn.kind d' := by
        refine ⟨I, hpre.hp, hfind, rfl, ⟨_, _, hblock⟩, hpre.fresh, hnewst, hnodeok, ?_, ?_,
          fun c hc => Or.inl hc, ?_⟩
        · intro n hn
          rcases hlnk0 n hn with ⟨h1, h2⟩ | h
          · simp only [List.mem_singleton] at h1
            exact Or.inl ⟨h2, Or.inr ⟨h1, old, rfl⟩⟩
          · exact Or.inr h
        · refine Or.inr ⟨old, hsto, Or.inl ⟨rfl, ?_, Or.inr ⟨hpre.ts_new, ?_⟩⟩⟩
          · rw [hkids]; exact hpre.ts_notin
          · intro n hn hmem
            exact hpre.root_unlinked n.c n (find_addAll_new (block_ids_nodup hblock) hn) hmem
        · rw [hpre.hk]; trivial
      apply hrs.next hwf' hac'
      apply DP.sizeOK_congr _ (I.sizes p pn hpre.hp)
      intro c hc
      obtain ⟨⟨nc, hnc, _⟩, _, _⟩ := hrs.kid_old hc
      refine hrs.isTomb_old hnc (Or.inl ?_)
      intro e'
      have e'' : c = ts := e'
      apply hpre.ts_notin
      rw [← hkids, ← e'']
      exact hc

/-- a remote remove keeps the invariant: the occupant is stamped dead, or (a later stamp is there) nothing happens -/
theorem dinv_del {L : OpId} {d : Doc} (I : DInv L 0 d) {p : Ts} {k : String} {ts : Ts}
    (hok : OpOK d (.del p k ts)) (hst : St L 0 ts) (hwf' : (applyOp d (.del p k ts)).WF)
    (hac' : ∃ rk, Ranked (applyOp d (.del p k ts)) rk) : DInv L 0 (applyOp d (.del p k ts)) := by
  obtain ⟨pn, m, size, c, hpre⟩ := delPre_of_ok I.wf hok
  have hfind := find_applyOp_eff I.wf _ hok
  unfold effOf at hfind
  simp only [findObj_some_iff.mpr ⟨hpre.hp, hpre.hk⟩, hpre.hf] at hfind
  generalize applyOp d (.del p k ts) = d' at hfind hwf' hac' ⊢
  have hkids : kids pn.kind = m.map (·.2) := by rw [hpre.hk]; rfl
  have hck : c ∈ kids pn.kind := by rw [hkids]; exact alFind_mem_vals hpre.hf
  have hvnd : (m.map (·.2)).Nodup := by have := I.wf.inj p pn hpre.hp; rwa [hkids] at this
  by_cases hlt : (d.timeOf c).cmp ts = .lt
  · simp only [hlt, if_true] at hfind
    have hrs : RS L d ⟨[], p, skG (.obj m (if d.isTomb c then size else size - 1)), c, setD ts⟩ pn
        (.obj m (if d.isTomb c then size else size - 1)) d' := by
      refine ⟨I, hpre.hp, hfind, ?_, ⟨ts, ts, block_nil ts⟩, ?_, ?_, ?_, ?_, ?_, ?_, ?_⟩
      · simp only [skG, Option.map_some, hpre.hk]
      · intro x hx; simp [ids] at hx
      · intro x hx; simp [ids] at hx
      · intro n hn; cases hn
      · intro n hn; cases hn
      · exact Or.inr ⟨ts, hst, Or.inr ⟨rfl, hck⟩⟩
      · intro x hx; left; rw [hkids] at hx; exact hx
      · rw [hpre.hk]; trivial
    apply hrs.next hwf' hac'
    have hsz := I.sizes p pn hpre.hp
    rw [hpre.hk] at hsz
    obtain ⟨A, B, e1, _, _⟩ := DP.alFind_split hpre.hf
    simp only [SizeOK] at hsz ⊢
    rw [e1] at hsz hvnd ⊢
    have hcong : ∀ (X : List (String × Ts)), (∀ x ∈ X, x.2 ∈ m.map (·.2) ∧ x.2 ≠ c) →
        (X.filter fun e => !d'.isTomb e.2) = X.filter fun e => !d.isTomb e.2 := by
      intro X hX
      apply List.filter_congr
      intro x hx
      obtain ⟨hx1, hx2⟩ := hX x hx
      obtain ⟨⟨nx, hnx, _⟩, _, _⟩ := hrs.kid_old (by rw [hkids]; exact hx1)
      rw [hrs.isTomb_old hnx (Or.inl hx2)]
    simp only [List.map_append, List.map_cons, List.nodup_append, List.nodup_cons, List.mem_cons] at hvnd
    have hA : ∀ x ∈ A, x.2 ∈ m.map (·.2) ∧ x.2 ≠ c := by
      intro x hx
      refine ⟨by rw [e1]; simp only [List.map_append, List.mem_append]; exact Or.inl (List.mem_map.mpr ⟨x, hx, rfl⟩), ?_⟩
      intro e
      exact hvnd.2.2 x.2 (List.mem_map.mpr ⟨x, hx, rfl⟩) c (Or.inl rfl) e
    have hB : ∀ x ∈ B, x.2 ∈ m.map (·.2) ∧ x.2 ≠ c := by
      intro x hx
      refine ⟨by rw [e1]; simp only [List.map_append, List.map_cons, List.mem_append, List.mem_cons]; exact Or.inr (Or.inr (List.mem_map.mpr ⟨x, hx, rfl⟩)), ?_⟩
      intro e
      exact hvnd.2.1.1 (e ▸ List.mem_map.mpr ⟨x, hx, rfl⟩)
    have h2 : d'.isTomb c = true := hrs.isTomb_setD rfl hck
    rw [List.filter_append, List.filter_cons, hcong A hA, hcong B hB]
    rw [List.filter_append, List.filter_cons] at hsz
    by_cases ht : d.isTomb c = true
    · simp only [h2, ht, Bool.not_true, Bool.false_eq_true, if_false, if_true, List.length_append] at hsz ⊢
      exact hsz
    · simp only [h2, ht, Bool.not_true, Bool.not_false, Bool.false_eq_true, if_false, if_true, List.length_append,
        List.length_cons] at hsz ⊢
      rw [hsz]; push_cast; omega
  · simp only [hlt, if_false, Eff.run, upd_id, U_nil] at hfind
    exact dinv_docEq (fun c => by rw [hfind]) hwf'.nodup I

/-- **object operations**: an applicable remote put / remove stamped within the clock keeps invariant and distinct keys -/
theorem dinv_applyOp {L : OpId} {d : Doc} (I : DInv L 0 d) (hkeys : KeysND d) (o : ObjOp) (hok : OpOK d o)
    (hst : St L 0 o.ts) (hv : OpKeysND o) : DInv L 0 (applyOp d o) ∧ KeysND (applyOp d o) := by
  have hview := viewOK_op I.wf (viewOK_of_dinv I hkeys) o hok hv
  have hwf' := wf_op I.wf o hok
  have hac' := acyc_of_bounded hview.bounded
  refine ⟨?_, hview.keys⟩
  cases o with
  | put p k v ts => exact dinv_put I hok hst hwf' hac'
  | del p k ts => exact dinv_del I hok hst hwf' hac'

/-- a remote insert (whole batch of values) after a known anchor keeps the invariant -/
theorem dinv_ins {L : OpId} {d : Doc} (I : DInv L 0 d) {p an ts : Ts} {vs : List JVal}
    (hok : EOK d (.ins p an ts vs)) (hst : St L 0 ts) (hwf' : (applyE d (.ins p an ts vs)).WF)
    (hac' : ∃ rk, Ranked (applyE d (.ins p an ts vs)) rk) : DInv L 0 (applyE d (.ins p an ts vs)) := by
  have hfind := find_applyE I.wf _ hok
  obtain ⟨harr, ⟨ns, cs, t', hc⟩, hf, hnew, hanc⟩ := hok
  obtain ⟨pn, sl, sz, hp⟩ := isArr_iff.mp harr
  obtain ⟨hp1, hk⟩ := findArr_some_iff.mp hp
  have hn : nodesE (.ins p an ts vs) = ns := by simp [nodesE, hc]
  have hcs : newSlots (.ins p an ts vs) = cs := by simp [newSlots, hc]
  rw [hn] at hf
  rw [hcs] at hnew
  have hsl : slotIds d p = sl.map (·.1) := by unfold slotIds; rw [slotsOf_of_findArr hp]
  rw [hsl] at hnew hanc
  simp only [effE, hn, hcs] at hfind
  generalize applyE d (.ins p an ts vs) = d' at hfind hwf' hac' ⊢
  obtain ⟨hblock, hcsnd, hroots⟩ := createMany_block hc
  obtain ⟨hnodeok, hlnk0⟩ := DP.createArrItems_spec2 p ts vs ns cs t' hc
  have hnewst := block_newst hblock hst
  have hperm := loopSl_perm (cs := cs) hanc
  have hkids : kids pn.kind = sl.map (·.2) := by rw [hk]; rfl
  have hK : insK an cs sl sz = (loopSl an cs sl, sz + cs.length) := insK_of_anchor sz hanc
  have hrs : RS L d ⟨ns, p, mapArr (insK an cs), p, id⟩ pn (.arr (loopSl an cs sl) (sz + cs.length)) d' := by
    refine ⟨I, hp1, hfind, ?_, ⟨_, _, hblock⟩, hf, hnewst, hnodeok, ?_, Or.inl rfl, ?_, ?_⟩
    · simp only [mapArr, Option.map_some, hk, hK]
    · intro n hn
      rcases hlnk0 n hn with ⟨h1, h2⟩ | h
      · refine Or.inl ⟨h2, Or.inl ?_⟩
        simp only [kids]
        exact List.mem_map.mpr ⟨(n.c, n.c),
          hperm.mem_iff.mpr (List.mem_append_left _ (List.mem_map.mpr ⟨n.c, h1, rfl⟩)), rfl⟩
      · exact Or.inr h
    · intro c hc'
      left
      rw [hkids] at hc'
      obtain ⟨x, hx, rfl⟩ := List.mem_map.mp hc'
      simp only [kids]
      exact List.mem_map.mpr ⟨x, hperm.mem_iff.mpr (List.mem_append_right _ hx), rfl⟩
    · rw [hk]
      have hp1' : ((loopSl an cs sl).map (·.1)).Perm (cs ++ sl.map (·.1)) := by
        have := hperm.map (·.1)
        simpa [List.map_append, List.map_map, Function.comp_def] using this
      constructor
      · rw [hp1'.nodup_iff, List.nodup_append]
        refine ⟨hcsnd, ?_, ?_⟩
        · have := I.ordnd p pn hp1; rw [hk] at this; exact this
        · intro a ha b hb e'; subst e'; exact hnew a ha hb
      · intro o ho
        rcases List.mem_append.mp (hp1'.mem_iff.mp ho) with h | h
        · obtain ⟨nc, hnc, h1, _⟩ := hroots o h
          exact hnewst o (h1 ▸ List.mem_map.mpr ⟨nc, hnc, rfl⟩)
        · have := (I.stamps p pn hp1).2.2; rw [hk] at this; exact this o h
  apply hrs.next hwf' hac'
  have hsz := I.sizes p pn hp1
  rw [hk] at hsz
  simp only [SizeOK] at hsz ⊢
  rw [(hperm.filter _).length_eq, List.filter_append, List.length_append]
  have h1 : (sl.filter (slotLive d')).length = (sl.filter (slotLive d)).length := by
    apply filter_len_congr
    intro x hx
    obtain ⟨⟨nx, hnx, _⟩, _, _⟩ := hrs.kid_old (by rw [hkids]; exact List.mem_map.mpr ⟨x, hx, rfl⟩)
    unfold slotLive
    rw [hrs.isTomb_old hnx (Or.inr rfl)]
  have h2 : ((cs.map fun c => (c, c)).filter (slotLive d')).length = cs.length := by
    rw [List.filter_eq_self.mpr, List.length_map]
    intro x hx
    obtain ⟨c, hc', rfl⟩ := List.mem_map.mp hx
    obtain ⟨nc, hnc, h1, _⟩ := hroots c hc'
    have := hrs.isTomb_new hnc (Or.inr rfl)
    rw [h1] at this
    simp [slotLive, this]
  rw [h1, h2, hsz]; push_cast; omega

/-- a remote single-target delete keeps the invariant: a live child is stamped dead, a dead one is restamped by a
    later delete, or nothing happens -/
theorem dinv_del1 {L : OpId} {d : Doc} (I : DInv L 0 d) {p tg t : Ts}
    (hok : EOK d (.del1 p tg t)) (hst : St L 0 t) (hwf' : (applyE d (.del1 p tg t)).WF)
    (hac' : ∃ rk, Ranked (applyE d (.del1 p tg t)) rk) : DInv L 0 (applyE d (.del1 p tg t)) := by
  have hfind := find_applyE I.wf _ hok
  obtain ⟨harr, htg⟩ := hok
  obtain ⟨pn, sl, sz, hp⟩ := isArr_iff.mp harr
  obtain ⟨hp1, hk⟩ := findArr_some_iff.mp hp
  obtain ⟨s, hs1, hs2, hs3⟩ := target_slot htg
  rw [slotsOf_of_findArr hp] at hs1 hs2
  simp only [effE, slotsOf_of_findArr hp, hs1] at hfind
  generalize applyE d (.del1 p tg t) = d' at hfind hwf' hac' ⊢
  have hkids : kids pn.kind = sl.map (·.2) := by rw [hk]; rfl
  have hsk : s.2 ∈ kids pn.kind := by rw [hkids]; exact List.mem_map.mpr ⟨s, hs2, rfl⟩
  have hshape : ∀ s', ShapeOK L 0 pn.kind (.arr sl s') := by
    intro s'
    rw [hk]
    exact ⟨by have := I.ordnd p pn hp1; rw [hk] at this; exact this,
      by have := (I.stamps p pn hp1).2.2; rw [hk] at this; exact this⟩
  have hnil : Fresh d [] ∧ (∀ c ∈ ids ([] : List DNode), St L 0 c) ∧ (∀ n ∈ ([] : List DNode), NodeOK n) := by
    refine ⟨?_, ?_, ?_⟩
    · intro x hx; simp [ids] at hx
    · intro x hx; simp [ids] at hx
    · intro n hn; cases hn
  by_cases h1 : d.isTomb s.2 = true
  · simp only [h1, Bool.not_true, Bool.false_eq_true, if_false] at hfind
    by_cases h2 : ((d.timeOf s.2).cmp t == .lt) = true
    · simp only [h2, if_true] at hfind
      have hrs : RS L d ⟨[], p, id, s.2, setD t⟩ pn pn.kind d' := by
        refine ⟨I, hp1, hfind, rfl, ⟨t, t, block_nil t⟩, hnil.1, hnil.2.1, hnil.2.2, ?_,
          Or.inr ⟨t, hst, Or.inr ⟨rfl, hsk⟩⟩, fun c hc => Or.inl hc, ?_⟩
        · intro n hn; cases hn
        · have := hshape sz
          rw [← hk] at this
          exact this
      apply hrs.next hwf' hac'
      apply DP.sizeOK_congr _ (I.sizes p pn hp1)
      intro c hc
      by_cases hcs : c = s.2
      · rw [hcs, h1]
        exact hrs.isTomb_setD rfl hsk
      · obtain ⟨⟨nc, hnc, _⟩, _, _⟩ := hrs.kid_old hc
        exact hrs.isTomb_old hnc (Or.inl hcs)
    · simp only [h2, Bool.false_eq_true, if_false, Eff.run, upd_id, U_nil] at hfind
      exact dinv_docEq (fun c => by rw [hfind]) hwf'.nodup I
  · have h1' : d.isTomb s.2 = false := by simpa using h1
    simp only [h1', Bool.not_false, if_true] at hfind
    have hrs : RS L d ⟨[], p, mapArr (szK 1), s.2, setD t⟩ pn (.arr sl (sz - 1)) d' := by
      refine ⟨I, hp1, hfind, ?_, ⟨t, t, block_nil t⟩, hnil.1, hnil.2.1, hnil.2.2, ?_,
        Or.inr ⟨t, hst, Or.inr ⟨rfl, hsk⟩⟩, ?_, hshape _⟩
      · simp only [mapArr, Option.map_some, hk, szK]
      · intro n hn; cases hn
      · intro c hc; left; rw [hkids] at hc; exact hc
    apply hrs.next hwf' hac'
    obtain ⟨A, B, e1⟩ := List.append_of_mem hs2
    have hsz := I.sizes p pn hp1
    rw [hk] at hsz
    simp only [SizeOK] at hsz ⊢
    have hvnd : (sl.map (·.2)).Nodup := by have := I.wf.inj p pn hp1; rwa [hkids] at this
    have hcong : ∀ (X : List (Ts × Ts)), (∀ x ∈ X, x.2 ∈ sl.map (·.2) ∧ x.2 ≠ s.2) →
        X.filter (slotLive d') = X.filter (slotLive d) := by
      intro X hX
      apply List.filter_congr
      intro x hx
      obtain ⟨hx1, hx2⟩ := hX x hx
      obtain ⟨⟨nx, hnx, _⟩, _, _⟩ := hrs.kid_old (by rw [hkids]; exact hx1)
      unfold slotLive
      rw [hrs.isTomb_old hnx (Or.inl hx2)]
    rw [e1] at hsz hvnd ⊢
    simp only [List.map_append, List.map_cons, List.nodup_append, List.nodup_cons, List.mem_cons] at hvnd
    have hA : ∀ x ∈ A, x.2 ∈ sl.map (·.2) ∧ x.2 ≠ s.2 := by
      intro x hx
      refine ⟨by rw [e1]; simp only [List.map_append, List.mem_append]; exact Or.inl (List.mem_map.mpr ⟨x, hx, rfl⟩), ?_⟩
      intro e
      exact hvnd.2.2 x.2 (List.mem_map.mpr ⟨x, hx, rfl⟩) s.2 (Or.inl rfl) e
    have hB : ∀ x ∈ B, x.2 ∈ sl.map (·.2) ∧ x.2 ≠ s.2 := by
      intro x hx
      refine ⟨by rw [e1]; simp only [List.map_append, List.map_cons, List.mem_append, List.mem_cons]; exact Or.inr (Or.inr (List.mem_map.mpr ⟨x, hx, rfl⟩)), ?_⟩
      intro e
      exact hvnd.2.1.1 (e ▸ List.mem_map.mpr ⟨x, hx, rfl⟩)
    have h2 : d'.isTomb s.2 = true := hrs.isTomb_setD rfl hsk
    rw [List.filter_append, List.filter_cons, hcong A hA, hcong B hB]
    rw [List.filter_append, List.filter_cons] at hsz
    simp only [slotLive, h2, h1', Bool.not_true, Bool.not_false, Bool.false_eq_true, if_false, if_true,
      List.length_append, List.length_cons] at hsz ⊢
    rw [hsz]; push_cast; omega

/-- a remote single-target update keeps the invariant: the new value replaces a live older child (which is buried),
    or it loses (dead slot, or a later child is there) and its root is buried under the child's identifier -/
theorem dinv_upd1 {L : OpId} {d : Doc} (I : DInv L 0 d) {p tg t : Ts} {v : JVal}
    (hok : EOK d (.upd1 p tg t v)) (hst : St L 0 t) (hwf' : (applyE d (.upd1 p tg t v)).WF)
    (hac' : ∃ rk, Ranked (applyE d (.upd1 p tg t v)) rk) : DInv L 0 (applyE d (.upd1 p tg t v)) := by
  have hfind := find_applyE I.wf _ hok
  obtain ⟨harr, ⟨ns, c, t', hc⟩, hf, htg⟩ := hok
  have hroot := createNode_root hc
  subst hroot
  obtain ⟨pn, sl, sz, hp⟩ := isArr_iff.mp harr
  obtain ⟨hp1, hk⟩ := findArr_some_iff.mp hp
  have hn : nodesE (.upd1 p tg c v) = ns := by simp [nodesE, hc]
  rw [hn] at hf
  obtain ⟨s, hs1, hs2, hs3⟩ := target_slot htg
  rw [slotsOf_of_findArr hp] at hs1 hs2
  simp only [effE, slotsOf_of_findArr hp, hs1, hn] at hfind
  generalize applyE d (.upd1 p tg c v) = d' at hfind hwf' hac' ⊢
  obtain ⟨hblock, _, n0, rest, hns0, hn0c, hn0p⟩ := createNode_spec p c v _ hc
  simp only at hblock hns0
  obtain ⟨hnodeok, hlnk0⟩ := DP.createNode_spec2 p c v _ hc
  simp only at hnodeok hlnk0
  have hn0mem : n0 ∈ ns := by rw [hns0]; simp
  have hcmem : c ∈ ids ns := hn0c ▸ List.mem_map.mpr ⟨n0, hn0mem, rfl⟩
  have hnewst := block_newst hblock hst
  have hkids : kids pn.kind = sl.map (·.2) := by rw [hk]; rfl
  have hsk : s.2 ∈ kids pn.kind := by rw [hkids]; exact List.mem_map.mpr ⟨s, hs2, rfl⟩
  have hvnd : (sl.map (·.2)).Nodup := by have := I.wf.inj p pn hp1; rwa [hkids] at this
  have hond : (sl.map (·.1)).Nodup := by have := I.ordnd p pn hp1; rw [hk] at this; exact this
  have host : ∀ o ∈ sl.map (·.1), St L 0 o := by have := (I.stamps p pn hp1).2.2; rw [hk] at this; exact this
  obtain ⟨nd2, hnd2, _⟩ := I.wf.child p pn hp1 s.2 hsk
  have hcnk : c ∉ kids pn.kind := by
    intro hm
    obtain ⟨nx, hnx, _⟩ := I.wf.child p pn hp1 c hm
    rw [hf c hcmem] at hnx; cases hnx
  have hcs2 : c ≠ s.2 := fun e' => hcnk (e' ▸ hsk)
  by_cases hw : (!d.isTomb s.2 && (d.timeOf s.2).cmp c == .lt) = true
  · simp only [hw, if_true] at hfind
    obtain ⟨A, B, e1, e2⟩ := DP.setSlotChild_split (c := c) hs2 hond
    rw [hs3] at e2
    have hvnd' := hvnd
    rw [e1] at hvnd'
    simp only [List.map_append, List.map_cons, List.nodup_append, List.nodup_cons, List.mem_cons] at hvnd'
    have hA : ∀ x ∈ A, x.2 ∈ sl.map (·.2) ∧ x.2 ≠ s.2 := by
      intro x hx
      refine ⟨by rw [e1]; simp only [List.map_append, List.mem_append]; exact Or.inl (List.mem_map.mpr ⟨x, hx, rfl⟩), ?_⟩
      intro e
      exact hvnd'.2.2 x.2 (List.mem_map.mpr ⟨x, hx, rfl⟩) s.2 (Or.inl rfl) e
    have hB : ∀ x ∈ B, x.2 ∈ sl.map (·.2) ∧ x.2 ≠ s.2 := by
      intro x hx
      refine ⟨by rw [e1]; simp only [List.map_append, List.map_cons, List.mem_append, List.mem_cons]; exact Or.inr (Or.inr (List.mem_map.mpr ⟨x, hx, rfl⟩)), ?_⟩
      intro e
      exact hvnd'.2.1.1 (e ▸ List.mem_map.mpr ⟨x, hx, rfl⟩)
    have hrs : RS L d ⟨ns, p, mapArr (setK tg c), s.2, fun1 c⟩ pn (.arr (setSlotChild tg c sl) sz) d' := by
      refine ⟨I, hp1, hfind, ?_, ⟨_, _, hblock⟩, hf, hnewst, hnodeok, ?_, ?_, ?_, ?_⟩
      · simp only [mapArr, Option.map_some, hk, setK]
      · intro n hn
        rcases hlnk0 n hn with ⟨h1, h2⟩ | h
        · refine Or.inl ⟨h2, Or.inl ?_⟩
          simp only [List.mem_singleton] at h1
          rw [h1]; simp only [kids]; rw [e2]; simp
        · exact Or.inr h
      · refine Or.inr ⟨c, hst, Or.inl ⟨rfl, ?_, Or.inl hsk⟩⟩
        simp only [kids]; rw [e2]
        simp only [List.map_append, List.map_cons, List.mem_append, List.mem_cons, not_or]
        refine ⟨?_, fun e' => hcs2 e'.symm, ?_⟩
        · intro hm
          obtain ⟨x, hx, hx2⟩ := List.mem_map.mp hm
          exact (hA x hx).2 hx2
        · intro hm
          obtain ⟨x, hx, hx2⟩ := List.mem_map.mp hm
          exact (hB x hx).2 hx2
      · intro c' hc'
        by_cases hco : c' = s.2
        · exact Or.inr ⟨hco, c, rfl⟩
        · left
          rw [hkids, e1] at hc'
          simp only [kids]; rw [e2]
          simp only [List.map_append, List.map_cons, List.mem_append, List.mem_cons] at hc' ⊢
          rcases hc' with h | h | h
          · exact Or.inl h
          · exact absurd h hco
          · exact Or.inr (Or.inr h)
      · rw [hk]
        exact ⟨by rw [setSlotChild_ids]; exact hond, by rw [setSlotChild_ids]; exact host⟩
    apply hrs.next hwf' hac'
    have hsz := I.sizes p pn hp1
    rw [hk] at hsz
    simp only [SizeOK] at hsz ⊢
    have hcong : ∀ (X : List (Ts × Ts)), (∀ x ∈ X, x.2 ∈ sl.map (·.2) ∧ x.2 ≠ s.2) →
        X.filter (slotLive d') = X.filter (slotLive d) := by
      intro X hX
      apply List.filter_congr
      intro x hx
      obtain ⟨hx1, hx2⟩ := hX x hx
      obtain ⟨⟨nx, hnx, _⟩, _, _⟩ := hrs.kid_old (by rw [hkids]; exact hx1)
      unfold slotLive
      rw [hrs.isTomb_old hnx (Or.inl hx2)]
    have hlive : d.isTomb s.2 = false := by
      simp only [Bool.and_eq_true, Bool.not_eq_true'] at hw
      exact hw.1
    have h2 := hrs.isTomb_new hn0mem (Or.inl (by rw [hn0c]; exact hcs2))
    rw [hn0c] at h2
    rw [e2, List.filter_append, List.filter_cons, hcong A hA, hcong B hB]
    rw [e1, List.filter_append, List.filter_cons] at hsz
    simp only [slotLive, h2, hlive, Bool.not_false, if_true, List.length_append, List.length_cons] at hsz ⊢
    exact hsz
  · simp only [hw, Bool.false_eq_true, if_false] at hfind
    have hsto : St L 0 s.2 := by
      have := (I.stamps s.2 nd2 hnd2).1
      rwa [find_some_c hnd2] at this
    have hrs : RS L d ⟨ns, p, id, c, fun1 s.2⟩ pn pn.kind d' := by
      refine ⟨I, hp1, hfind, rfl, ⟨_, _, hblock⟩, hf, hnewst, hnodeok, ?_, ?_, fun c hc => Or.inl hc, ?_⟩
      · intro n hn
        rcases hlnk0 n hn with ⟨h1, h2⟩ | h
        · simp only [List.mem_singleton] at h1
          exact Or.inl ⟨h2, Or.inr ⟨h1, s.2, rfl⟩⟩
        · exact Or.inr h
      · refine Or.inr ⟨s.2, hsto, Or.inl ⟨rfl, hcnk, Or.inr ⟨hcmem, ?_⟩⟩⟩
        intro n hn hmem
        exact DA.root_unlinked I.wf hc hf n.c n (find_addAll_new (block_ids_nodup hblock) hn) hmem
      · rw [hk]; exact ⟨hond, host⟩
    apply hrs.next hwf' hac'
    apply DP.sizeOK_congr _ (I.sizes p pn hp1)
    intro c' hc'
    obtain ⟨⟨nc, hnc, _⟩, _, _⟩ := hrs.kid_old hc'
    refine hrs.isTomb_old hnc (Or.inl ?_)
    intro e'
    have e'' : c' = c := e'
    exact hcnk (e'' ▸ hc')

/-- **elementary array operations**: an applicable one stamped within the clock keeps invariant and distinct keys -/
theorem dinv_applyE {L : OpId} {d : Doc} (I : DInv L 0 d) (hkeys : KeysND d) (a : EOp) (hok : EOK d a)
    (hst : St L 0 a.ts) (hv : EKeysND a) : DInv L 0 (applyE d a) ∧ KeysND (applyE d a) := by
  have hview := viewOK_applyE I.wf (viewOK_of_dinv I hkeys) a hok hv
  have hwf' := wf_applyE I.wf a hok
  have hac' := acyc_of_bounded hview.bounded
  refine ⟨?_, hview.keys⟩
  cases a with
  | ins p an ts vs => exact dinv_ins I hok hst hwf' hac'
  | del1 p tg t => exact dinv_del1 I hok hst hwf' hac'
  | upd1 p tg t v => exact dinv_upd1 I hok hst hwf' hac'

/-! ## 5. batches, mixed operations, the theorems -/

theorem dinv_applyAllE {L : OpId} : ∀ (l : List EOp) {d : Doc}, DInv L 0 d → KeysND d → GoodE d l →
    (∀ e ∈ l, St L 0 e.ts ∧ EKeysND e) → DInv L 0 (applyAllE d l) ∧ KeysND (applyAllE d l)
  | [], d, I, hk, _, _ => ⟨I, hk⟩
  | a :: l, d, I, hk, hg, hst => by
    have hok : EOK d a := hg.2.1 a (by simp)
    obtain ⟨I', hk'⟩ := dinv_applyE I hk a hok (hst a (by simp)).1 (hst a (by simp)).2
    exact dinv_applyAllE l I' hk' (goodE_step hg) (fun e he => hst e (List.mem_cons_of_mem _ he))

theorem flatDel_ok {L : OpId} (p : Ts) : ∀ (tgs : List Ts) (t : Ts), St L 0 t →
    ∀ e ∈ flatDel p tgs t, St L 0 e.ts ∧ EKeysND e
  | [], _, _, e, he => by simp [flatDel] at he
  | tg :: tgs, t, hst, e, he => by
    simp only [flatDel, List.mem_cons] at he
    rcases he with rfl | he
    · exact ⟨hst, trivial⟩
    · exact flatDel_ok p tgs t.nextDelim (st_key hst rfl rfl) e he

theorem flatUpd_ok {L : OpId} (p : Ts) : ∀ (tgs : List Ts) (vs : List JVal) (t : Ts), St L 0 t → JKeysNDList vs →
    ∀ e ∈ flatUpd p tgs vs t, St L 0 e.ts ∧ EKeysND e
  | [], _, _, _, _, e, he => by simp [flatUpd] at he
  | _ :: _, [], _, _, _, e, he => by simp [flatUpd] at he
  | tg :: tgs, v :: vs, t, hst, hk, e, he => by
    simp only [JKeysNDList] at hk
    simp only [flatUpd, List.mem_cons] at he
    rcases he with rfl | he
    · exact ⟨hst, hk.1⟩
    · refine flatUpd_ok p tgs vs _ ?_ hk.2 e he
      cases hc : createNode p t v with
      | ok r =>
        obtain ⟨ns, c, t'⟩ := r
        simp only
        have := (createNode_spec p t v _ hc).1.next
        simp only at this
        rw [this]
        exact st_addDelim hst _
      | err c => exact hst
      | panic w => exact hst

/-- the timestamp of a remote document operation -/
def dts : DOp → Ts
  | .o x => x.ts
  | .a x => x.ts

theorem toDOp_ts {o : Op} {x : DOp} (h : toDOp o = some x) : dts x = o.id.ts := by
  obtain ⟨oid, body⟩ := o
  unfold toDOp at h
  cases body with
  | docPut p k v => simp only [Option.some.injEq] at h; subst h; rfl
  | docRemove p k => simp only [Option.some.injEq] at h; subst h; rfl
  | docInsert p pos t vs =>
    cases t with
    | none => simp at h
    | some a => simp only [Option.some.injEq] at h; subst h; rfl
  | docDelete p pos num tgs => simp only [Option.some.injEq] at h; subst h; rfl
  | docUpdate p pos tgs vs => simp only [Option.some.injEq] at h; subst h; rfl
  | snapshot s => simp at h
  | error c => simp at h
  | transaction t n => simp at h
  | increase dl => simp at h
  | put k v => simp at h
  | remove k => simp at h
  | insert pos t vs => simp at h
  | delete pos num tg => simp at h
  | update pos tg vs => simp at h

/-- **a remote document operation** (object or array, any number of targets) that is applicable, stamped within
    the clock and carries values without duplicate keys keeps the invariant and the distinct keys -/
theorem dinv_applyD {L : OpId} {d : Doc} (I : DInv L 0 d) (hkeys : KeysND d) (x : DOp) (hok : GoodD d [x])
    (hst : St L 0 (dts x)) (hv : ValuesOK x) : DInv L 0 (applyD d x) ∧ KeysND (applyD d x) := by
  cases x with
  | o x =>
    obtain ⟨_, hop⟩ := goodD_obj hok
    have hk : OpKeysND x := by
      cases x with
      | put p k v ts => exact hv.2
      | del p k ts => trivial
    exact dinv_applyOp I hkeys x hop hst hk
  | a x =>
    obtain ⟨hg, hb⟩ := goodD_arr hok
    have hflat : ∀ e ∈ flat x, St L 0 e.ts ∧ EKeysND e := by
      cases x with
      | ins p a ts vs =>
        intro e he
        simp only [flat, List.mem_singleton] at he
        subst he
        exact ⟨hst, hv.2⟩
      | del p tgs ts => exact flatDel_ok p tgs ts hst
      | upd p ts tgs vs => exact flatUpd_ok p tgs vs ts hst hv.2
    have heq : DocEq (applyA d x) (applyAllE d (flat x)) := applyA_flat (rest := []) (by simpa using hg) hb
    obtain ⟨I', hk'⟩ := dinv_applyAllE (flat x) I hkeys hg hflat
    exact ⟨dinv_docEq (docEq_symm heq) (nodup_applyA I.wf.nodup x) I', keysND_docEq (docEq_symm heq) hk'⟩

theorem execRemoteBase_opId (r : Replica) (o : Op) :
    (r.execRemoteBase o).1.opId = r.opId.syncLamport o.id.lamport := by
  unfold Replica.execRemoteBase
  split <;> rfl

/-- THE theorem: a remote operation that is applicable (GoodD: parent present, targets/anchor present, fresh identifiers —
    what causal delivery from well-formed replicas guarantees), of the replica's era, carrying values without null and
    without duplicate keys, keeps the document invariant -/
theorem docInv_remote (r : Replica) (d : Doc) (hs : r.state = .doc d) (h : DP.DocInv r) (o : Op) (x : DOp)
    (hx : toDOp o = some x) (hok : GoodD d [x]) (hera : o.id.era = r.opId.era) (hv : ValuesOK x) :
    DP.DocInv (r.execRemoteBase o).1 := by
  obtain ⟨d0, hs0, I, hkeys⟩ := h
  rw [hs] at hs0
  simp only [DState.doc.injEq] at hs0
  subst hs0
  obtain ⟨h1, _⟩ := execRemoteBase_is_applyD r d hs o x hx hok
  have hstx : St (r.opId.syncLamport o.id.lamport) 0 (dts x) := by
    rw [toDOp_ts hx]; exact st_sync_new r.opId o.id hera
  obtain ⟨I', hk'⟩ := dinv_applyD (dinv_sync o.id.lamport I) hkeys x hok hstx hv
  refine ⟨applyD d x, h1, ?_, hk'⟩
  rw [execRemoteBase_opId]
  exact I'

/-- one step of a replica's life: a public call, or the delivery of an applicable remote operation -/
inductive LifeStep : Replica → Replica → Prop
  | call (r : Replica) (c : Call) (hk : DP.CallKeysND c) : LifeStep r (r.call c).1
  | deliver (r : Replica) (d : Doc) (hs : r.state = .doc d) (o : Op) (x : DOp) (hx : toDOp o = some x) (hok : GoodD d [x])
      (hera : o.id.era = r.opId.era) (hv : ValuesOK x) : LifeStep r (r.execRemoteBase o).1

inductive Life (cuid : String) (create : Bool) : Replica → Prop
  | new : Life cuid create (Replica.new .document cuid create)
  | step {r r'} : Life cuid create r → LifeStep r r' → Life cuid create r'

theorem docInv_life (cuid : String) (create : Bool) (r : Replica) (h : Life cuid create r) : DP.DocInv r := by
  induction h with
  | new => exact DP.docInv_new cuid create
  | step hl hs ih =>
    cases hs with
    | call c hk => exact DP.docInv_call _ c hk ih
    | deliver d hs o x hx hok hera hv => exact docInv_remote _ d hs ih o x hx hok hera hv

/-- … hence, in EVERY state reachable by calls and deliveries, a call through a located handle acts as on the plain tree -/
theorem life_call_refines (cuid : String) (create : Bool) (r : Replica) (h : Life cuid create r) (d : Doc) (hs : r.state = .doc d)
    (π : List PlainDoc.Seg) (hd : Ts) (hloc : d.locate π Ts.oldest = some hd) (c : Call) (hc : PlainDoc.handleOf c = some hd)
    (hk : DP.CallKeysND c) :
    ∃ d', (r.call c).1.state = .doc d' ∧ d'.view.canon = (PlainDoc.step d.view.canon π c).1 ∧
      PlainDoc.outCanon (r.call c).2 = (PlainDoc.step d.view.canon π c).2 :=
  DP.doc_call_refines r d hs (docInv_life cuid create r h) π hd hloc c hc hk

theorem goodE_nil {d : Doc} (hwf : d.WF) : GoodE d [] :=
  ⟨hwf, by simp, List.Pairwise.nil, fun p ⟨e, he, _⟩ => by cases he⟩

/-- a single applicable object operation is ready -/
theorem goodD_single_obj {d : Doc} (hwf : d.WF) {x : ObjOp} (h : OpOK d x) : GoodD d [.o x] := by
  refine ⟨⟨hwf, ?_, ?_⟩, goodE_nil hwf, ?_, ?_⟩
  · intro o ho
    have : o = x := by simpa [objs] using ho
    exact this ▸ h
  · simp [objs]
  · intro op ho; simp [arrs] at ho
  · intro x' _ e he; simp [arrs] at he

/-- a single applicable array operation that is not an insert is ready -/
theorem goodD_single_arr {d : Doc} (hwf : d.WF) {x : AOp} (h : GoodE d (flat x)) (hb : BatchOK x) : GoodD d [.a x] := by
  refine ⟨⟨hwf, ?_, ?_⟩, ?_, ?_, ?_⟩
  · intro o ho; simp [objs] at ho
  · simp [objs]
  · have e : arrs [DOp.a x] = [x] := rfl
    rw [e]; simpa using h
  · intro op ho
    have : op = x := by simpa [arrs] using ho
    exact this ▸ hb
  · intro x' hx'; simp [objs] at hx'

theorem goodE_single_noins {d : Doc} (hwf : d.WF) {e : EOp} (h : EOK d e) (hi : ∀ p, insOnE p e = none) : GoodE d [e] := by
  refine ⟨hwf, ?_, by simp, ?_⟩
  · intro e' he'
    have : e' = e := by simpa using he'
    exact this ▸ h
  · intro p ⟨e', he', hi'⟩
    have : e' = e := by simpa using he'
    rw [this, hi p] at hi'
    cases hi'

theorem wf_of_life {cuid : String} {create : Bool} {r : Replica} {d : Doc} (h : Life cuid create r)
    (hs : r.state = .doc d) : d.WF := by
  obtain ⟨d0, hs0, I, _⟩ := docInv_life cuid create r h
  rw [hs] at hs0
  simp only [DState.doc.injEq] at hs0
  subst hs0
  exact I.wf

/-! ## 6. non-vacuity: two local calls, a CONCURRENT remote put that loses, a remote array update, a third local call;
    the invariant and the refinement theorem in the state reached -/

namespace Ex
def docOf (r : Replica) : Doc := match r.state with | .doc d => d | _ => Doc.empty

def r0 : Replica := Replica.new .document "c" true
def c1 : Call := .dput Ts.oldest "a" (.arr [.num 1, .obj [("x", .num 5)]])
def c2 : Call := .dput Ts.oldest "k" (.num 7)
def r1 : Replica := (r0.call c1).1
def r2 : Replica := (r1.call c2).1
def arrId : Ts := ⟨0, 2, "c", 0⟩
def s1 : Ts := ⟨0, 2, "c", 1⟩
/-- from client "b", CONCURRENT to the two local calls (clock 1 < 3): a put on the key "k", which loses -/
def o1 : Op := ⟨⟨0, 1, "b", 1⟩, .docPut Ts.oldest "k" (.obj [("q", .arr [.num 3])])⟩
def x1 : DOp := .o (.put Ts.oldest "k" (.obj [("q", .arr [.num 3])]) ⟨0, 1, "b", 0⟩)
def r3 : Replica := (r2.execRemoteBase o1).1
/-- from client "b", later: an update of the first slot of the array -/
def o2 : Op := ⟨⟨0, 9, "b", 2⟩, .docUpdate arrId 0 [s1] [.str "w"]⟩
def x2 : DOp := .a (.upd arrId ⟨0, 9, "b", 0⟩ [s1] [.str "w"])
def r4 : Replica := (r3.execRemoteBase o2).1
def c3 : Call := .dinsert arrId 1 [.obj [("y", .num 2)]]
def r5 : Replica := (r4.call c3).1

theorem life2 : Life "c" true r2 :=
  .step (.step .new (.call _ c1 (by simp [c1, DP.CallKeysND, JKeysND, JKeysNDList, JKeysNDKvs])))
    (.call _ c2 (by simp [c2, DP.CallKeysND, JKeysND]))

theorem s2 : r2.state = .doc (docOf r2) := rfl

theorem concurrent : o1.id.lamport < r2.opId.lamport := by decide

theorem good1 : GoodD (docOf r2) [x1] :=
  goodD_single_obj (wf_of_life life2 s2) ⟨⟨_, _, _, rfl, rfl⟩, ⟨_, _, _, rfl⟩, DC.Ex.fresh_of_all (by decide)⟩

theorem life3 : Life "c" true r3 :=
  .step life2 (.deliver r2 (docOf r2) s2 o1 x1 rfl good1 rfl
    ⟨by simp [JVal.hasNull, JVal.hasNullKvs, JVal.hasNullList], by simp [JKeysND, JKeysNDList, JKeysNDKvs]⟩)

theorem s3 : r3.state = .doc (docOf r3) := rfl

theorem good2 : GoodD (docOf r3) [x2] :=
  goodD_single_arr (wf_of_life life3 s3)
    (goodE_single_noins (wf_of_life life3 s3) (eok_of_B (by decide)) (fun p => rfl)) (by decide)

theorem life4 : Life "c" true r4 :=
  .step life3 (.deliver r3 (docOf r3) s3 o2 x2 rfl good2 rfl
    ⟨by simp [JVal.hasNull, JVal.hasNullList], by simp [JKeysND, JKeysNDList]⟩)

theorem life5 : Life "c" true r5 :=
  .step life4 (.call _ c3 (by simp [c3, DP.CallKeysND, JKeysND, JKeysNDList, JKeysNDKvs]))

example : DP.DocInv r5 := docInv_life _ _ _ life5

/-- what the replica shows in the end: the concurrent put lost against the local one, the update replaced the
    first element, the local insert went in between -/
example : ((docOf r5).view ==
    .obj [("a", .arr [.str "w", .obj [("y", .num 2)], .obj [("x", .num 5)]]), ("k", .num 7)]) = true := by decide

/-- the handle of the inner object `{"x": 5}`, located below the array after the deliveries -/
def hd : Ts := ⟨0, 2, "c", 2⟩

theorem s4 : r4.state = .doc (docOf r4) := rfl

theorem hd_located : (docOf r4).locate [.key "a", .idx 1] Ts.oldest = some hd := by decide

/-- `life_call_refines` instantiated in a state shaped by deliveries -/
example : ∃ d', (r4.call (.dput hd "z" (.bool true))).1.state = .doc d' ∧
    d'.view.canon = (PlainDoc.step (docOf r4).view.canon [.key "a", .idx 1] (.dput hd "z" (.bool true))).1 ∧
    PlainDoc.outCanon (r4.call (.dput hd "z" (.bool true))).2 =
      (PlainDoc.step (docOf r4).view.canon [.key "a", .idx 1] (.dput hd "z" (.bool true))).2 :=
  life_call_refines "c" true r4 life4 (docOf r4) s4 [.key "a", .idx 1] hd hd_located (.dput hd "z" (.bool true)) rfl
    (by simp [DP.CallKeysND, JKeysND])

end Ex

end Orda.DR
