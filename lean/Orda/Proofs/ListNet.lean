/-
Lists converge over the server log — NO causal hypothesis (C01/C02/C05 for the List datatype, end to end).
Everything lives in namespace `Orda.LNet`.  Template: `Proofs/DocNet.lean`.

THE SYSTEM (§2).  `Node` = the real replica model `Replica` + `pushed` (how many operations of `r.buffer` are in the log) +
`pulled` (how many log entries it has consumed).  `Net` = the nodes + ONE server log of (author, wire operation).
`Net.init cuid n`: `n` fresh subscribers `Replica.new .list (cuid i) false`.  `Step`:
  * `call i c` — ANY public call `c : Call`, with NO restriction at all (reads, refused calls, calls of other datatypes,
    inserts of zero values included): `r := (r.call c).1`;
  * `push i` — the next unpushed operation of node `i`'s buffer goes to the end of the log (buffer order);
  * `pull i` — the next log entry for node `i`: skipped when `i` wrote it, otherwise `r := (r.execRemoteBase o).1`.
`Reach cuid n net`: reachable from `Net.init cuid n`; the constructor `Reach.init` carries `CuidsDistinct cuid n` (client
identifiers of the `n` nodes pairwise distinct), so the theorems read `∀ net, Reach cuid n net → …` with no further hypothesis.
`SameOps net i j` (ghost-free, on the state): the list `buffer_i ++ (log entries of the others among the first pulled_i)` is a
permutation of the corresponding list of `j`.  `Quiescent`: every `pushed = buffer.length`, every `pulled = log.length`.
`Net.act` / `Net.run`: the executable form (`step_of_act`, `reach_run`).

RESULTS (§5), all without any causality / applicability hypothesis:
  * `lnet_nodes_applied` — every node's state IS (plain equality) `Rga.empty.applyAllL applied` for an `LCausal` sequence
    `applied` of remote operations; `lnet_nodes_applied_ops`: that sequence is a permutation of what the operations the node
    has (`appliedOps`) denote; `lnet_deliveries_causal`: every enabled delivery extends the receiver's causal sequence and IS
    `Rga.applyL`; `lnet_size_is_live_count`: Size = number of live elements, identities duplicate-free, at every node;
  * `lnet_same_operations_same_state` — THE theorem (plain equality of the `DState`s: order, values, value timestamps,
    tombstones, Size); `sameOps_of_caught_up`, `sameOps_of_quiescent`;
  * `lnet_quiescent_converged`.
Nothing of the task is missing.  The ONLY restriction of the system is the one the constructor `Reach.init` carries:
distinct client identifiers.  NO call is excluded.  The candidate `linsert pos []` (insert of zero values) is accepted by
the model, consumes an operation id and queues `insert 0 (some anchor) []`; `LCausal` does NOT admit that operation
(`InsCausal.nonempty`; `Ex`: `¬ LCausal [.ins Ts.oldest _ []]`), but it changes no list state anywhere
(`applyL_ins_nil`, `exec_toL`): so the denotation `toL` (= `Props.C01.toLOp` except that an insert of zero values denotes
nothing) drops it, the sequences `applied i` do not contain it, and the theorems hold with such calls in the runs.

HOW.  §0: `toL`; `exec_toL` (`execRemoteBase` of an operation a list replica issued IS `applyAllL (toL o).toList`);
the three local executions are the remote application of the operation they queue, in every state reached by a causal
sequence when the timestamp is newer than everything applied (`insertLocal_eq_applyL` from
`insertLocal_eq_insertRemote_partial`; `deleteLocal_eq_applyL` / `updateLocal_eq_applyL`: NEW — `mapLiveFrom_del`,
`updGo_eq`: the local walk is `map` of the per-node effect `RF.delEff` / `RF.updEff` of its own target list);
`lcausal_snoc_ins` / `lcausal_snoc_mod` (extension of a causal sequence by one operation), `lcausal_prefix`,
`lcausal_last_ins` / `lcausal_last_targets`, `ids_mem`, `nodes_t_key` (every identity / value timestamp of the state stems
from an operation of the sequence); `call_cases` (ANY call either leaves state and buffer alone — possibly advancing the
clock — or executes and queues one list operation), `local_step`.
§3: the invariant `Inv` with ghost state `ap i` (the log-tagged operations node `i` has applied, in order): the state is
`applyAllL Rga.empty (den (ap i))`, `LCausal (den (ap i))`, the own entries of `ap i` are the buffer, the others are the
consumed log entries of the others, the log entries of `i` are its pushed buffer prefix, clocks dominate, (lamport, client)
keys pairwise different, and CAUSALITY (`NodeInv.causal`): whatever precedes an own operation `o` in `ap i` sits in the log
before `o`.  `Inv.deliver`: hence the insert that created the anchor / the targets of `o` is in the sequence of any node
that is about to consume `o`, and `lcausal_snoc_*` applies.  §4: the steps keep `Inv`.
§6: `Ex` — three nodes, nine calls, a run to quiescence, the theorems instantiated, the common state by `rfl`.
-/
import Orda.Proofs.RgaFull
import Orda.Model.Api
import Batteries.Data.List.Perm
import Mathlib.Logic.Function.Basic
set_option linter.unusedSimpArgs false
set_option linter.unusedVariables false
namespace Orda.LNet
open Orda Orda.RF

/-! ## 0. list operations: wire form, local execution = remote application -/

/-- the list operation a wire operation denotes; an insert of ZERO values denotes nothing (it changes no list state,
    `exec_toL`), as do malformed inserts and operations of other datatypes -/
def toL (o : Op) : Option LOp :=
  match o.body with
  | .insert _ (some a) (v :: vs) => some (.ins a o.id.ts (v :: vs))
  | .delete _ _ tg => some (.del tg o.id.ts)
  | .update _ tg vs => some (.upd tg vs o.id.ts)
  | _ => none

/-- the bodies a list replica issues -/
def ListBody (b : OpBody) : Prop :=
  (∃ p a vs, b = .insert p (some a) vs) ∨ (∃ p n tg, b = .delete p n tg) ∨ (∃ p tg vs, b = .update p tg vs)

theorem toL_ts {o : Op} {x : LOp} (h : toL o = some x) : x.ts = o.id.ts := by
  unfold toL at h
  split at h <;> simp only [Option.some.injEq, reduceCtorEq] at h <;> subst h <;> rfl

theorem insertAfterId_go_nil {β : Type} (oOf : β → Ts) (a : Ts) : ∀ (l l' : List β),
    insertAfterId.go oOf a [] l = some l' → l' = l
  | [], _, h => by simp [insertAfterId.go] at h
  | x :: xs, l', h => by
    unfold insertAfterId.go at h
    split at h
    · simp only [skipInsMany, Option.some.injEq] at h
      exact h.symm
    · cases h' : insertAfterId.go oOf a [] xs with
      | none => rw [h'] at h; cases h
      | some l'' =>
        rw [h'] at h
        simp only [Option.map_some, Option.some.injEq] at h
        rw [← h, insertAfterId_go_nil oOf a xs l'' h']

theorem insertAfterId_nil {β : Type} (oOf : β → Ts) (a : Ts) (l l' : List β)
    (h : insertAfterId oOf a [] l = some l') : l' = l := by
  unfold insertAfterId at h
  split at h
  · simp only [skipInsMany, Option.some.injEq] at h
    exact h.symm
  · exact insertAfterId_go_nil oOf a l l' h

theorem insertAtLive_nil {β : Type} (isLive : β → Bool) : ∀ (p : Nat) (l l' : List β),
    insertAtLive isLive [] p l = some l' → l' = l
  | 0, l, l', h => by
    simp only [insertAtLive, List.nil_append, Option.some.injEq] at h
    exact h.symm
  | p + 1, [], l', h => by simp [insertAtLive] at h
  | p + 1, x :: xs, l', h => by
    unfold insertAtLive at h
    split at h
    · split at h
      · simp only [List.nil_append, Option.some.injEq] at h
        exact h.symm
      · cases h' : insertAtLive isLive [] p xs with
        | none => rw [h'] at h; cases h
        | some l'' =>
          rw [h'] at h
          simp only [Option.map_some, Option.some.injEq] at h
          rw [← h, insertAtLive_nil isLive p xs l'' h']
    · cases h' : insertAtLive isLive [] (p + 1) xs with
      | none => rw [h'] at h; cases h
      | some l'' =>
        rw [h'] at h
        simp only [Option.map_some, Option.some.injEq] at h
        rw [← h, insertAtLive_nil isLive (p + 1) xs l'' h']

theorem rga_eta (l : Rga) : (⟨l.nodes, l.size + ((([] : List JVal).length : Nat) : Int)⟩ : Rga) = l := by
  cases l; simp

/-- a remote insert of zero values changes nothing -/
theorem applyL_ins_nil (l : Rga) (a ts : Ts) : l.applyL (.ins a ts []) = l := by
  show (match l.insertRemote a ts [] with | .ok s' => s' | _ => l) = l
  unfold Rga.insertRemote
  cases h : insertAfterId RNode.o a (mkNodes ts []) l.nodes with
  | none => rfl
  | some l' =>
    have : l' = l.nodes := insertAfterId_nil RNode.o a l.nodes l' h
    subst this
    exact rga_eta l

/-- `execRemoteBase` of an operation a list replica issued IS the remote application of what it denotes -/
theorem exec_toL (r : Replica) (l : Rga) (o : Op) (hs : r.state = .list l) (hb : ListBody o.body) :
    (r.execRemoteBase o).1.state = .list (l.applyAllL (toL o).toList) := by
  rcases o with ⟨id, body⟩
  unfold Replica.execRemoteBase
  rcases hb with ⟨p, a, vs, rfl⟩ | ⟨p, n, tg, rfl⟩ | ⟨p, tg, vs, rfl⟩
  · cases vs with
    | nil =>
      have e : (match l.insertRemote a id.ts [] with | .ok s' => s' | _ => l) = l := applyL_ins_nil l a id.ts
      simp only [hs, execRemote, toL, Option.toList, Rga.applyAllL, List.foldl_nil]
      cases h : l.insertRemote a id.ts [] with
      | ok l' => rw [h] at e; simp only at e; subst e; rfl
      | err c => rfl
      | panic w => rfl
    | cons v vs =>
      simp only [hs, execRemote, toL, Option.toList, Rga.applyAllL, List.foldl_cons, List.foldl_nil, Rga.applyL]
      cases l.insertRemote a id.ts (v :: vs) <;> rfl
  · simp [hs, execRemote, toL, Rga.applyAllL, Rga.applyL]
  · simp only [hs, execRemote, toL, Option.toList, Rga.applyAllL, List.foldl_cons, List.foldl_nil, Rga.applyL]
    cases l.updateRemote tg vs id.ts <;> rfl

/-! ### a local delete is the remote application of its own operation -/

theorem liveCount_cons (x : RNode) (xs : List RNode) :
    liveCount (x :: xs) = liveCount xs + (if x.isLive then 1 else 0) := by
  unfold liveCount
  rw [List.countP_cons]
  split <;> simp

theorem sublist_o_not_mem {x : RNode} {xs tc : List RNode} (hs : tc.Sublist xs)
    (hx : x.o ∉ xs.map (·.o)) : x.o ∉ tc.map (·.o) :=
  fun h => hx ((hs.map _).subset h)

theorem mapLiveFrom_del : ∀ (l : List RNode) (p k : Nat) (t : Ts) (l' tc : List RNode),
    (l.map (·.o)).Nodup →
    mapLiveFrom (fun x t => { x with v := none, t := t }) p (delimSeq t k) l = some (l', tc) →
    l' = l.map (fun z => (delEff (tc.map (·.o)) t z.o).app z) ∧ tc.Sublist l ∧
      liveCount l' = liveCount l - (k : Int)
  | [], p, 0, t, l', tc, _, h => by
    simp only [delimSeq, mapLiveFrom, Option.some.injEq, Prod.mk.injEq] at h
    obtain ⟨rfl, rfl⟩ := h
    simp
  | [], p, k + 1, t, l', tc, _, h => by simp [delimSeq, mapLiveFrom] at h
  | x :: xs, p, 0, t, l', tc, _, h => by
    simp only [delimSeq, mapLiveFrom, Option.some.injEq, Prod.mk.injEq] at h
    obtain ⟨rfl, rfl⟩ := h
    simp [delEff, Eff.app]
  | x :: xs, p, k + 1, t, l', tc, hnd, h => by
    obtain ⟨hx, hnd'⟩ := List.nodup_cons.mp hnd
    have skip : ∀ (q : Nat) (l'' tc' : List RNode),
        mapLiveFrom (fun x t => { x with v := none, t := t }) q (delimSeq t (k + 1)) xs = some (l'', tc') →
        x :: l'' = (x :: xs).map (fun z => (delEff (tc'.map (·.o)) t z.o).app z) ∧ tc'.Sublist (x :: xs) ∧
          liveCount (x :: l'') = liveCount (x :: xs) - ((k + 1 : Nat) : Int) := by
      intro q l'' tc' hr
      obtain ⟨h1, h2, h3⟩ := mapLiveFrom_del xs q (k + 1) t l'' tc' hnd' hr
      refine ⟨?_, h2.cons x, ?_⟩
      · rw [List.map_cons, ← h1, delEff_not_mem _ _ _ (sublist_o_not_mem h2 hx)]
        rfl
      · rw [liveCount_cons, liveCount_cons, h3]; omega
    simp only [delimSeq, mapLiveFrom] at h
    by_cases hl : x.isLive = true
    · simp only [hl, if_true] at h
      by_cases hp : p = 0
      · simp only [hp, if_true] at h
        cases hr : mapLiveFrom (fun x t => { x with v := none, t := t }) 0 (delimSeq t.nextDelim k) xs with
        | none => rw [hr] at h; cases h
        | some res =>
          obtain ⟨l'', tc'⟩ := res
          rw [hr] at h
          simp only [Option.map_some, Option.some.injEq, Prod.mk.injEq] at h
          obtain ⟨rfl, rfl⟩ := h
          obtain ⟨h1, h2, h3⟩ := mapLiveFrom_del xs 0 k t.nextDelim l'' tc' hnd' hr
          refine ⟨?_, h2.cons_cons x, ?_⟩
          · rw [List.map_cons, List.map_cons]
            congr 1
            · simp only [delEff, if_true, Eff.app, delF, hl]
            · rw [h1]
              apply List.map_congr_left
              intro z hz
              have : x.o ≠ z.o := fun e => hx (List.mem_map.mpr ⟨z, hz, e.symm⟩)
              simp only [delEff, if_neg this]
          · rw [liveCount_cons, liveCount_cons, h3]
            have hd : RNode.isLive { x with v := none, t := t } = false := rfl
            rw [hd, hl]
            simp only [if_true, Bool.false_eq_true, if_false]
            push_cast
            omega
      · simp only [hp, if_false] at h
        cases hr : mapLiveFrom (fun x t => { x with v := none, t := t }) (p - 1) (t :: delimSeq t.nextDelim k) xs with
        | none => rw [hr] at h; cases h
        | some res =>
          obtain ⟨l'', tc'⟩ := res
          rw [hr] at h
          simp only [Option.map_some, Option.some.injEq, Prod.mk.injEq] at h
          obtain ⟨e1, e2⟩ := h
          rw [← e1, ← e2]
          exact skip (p - 1) l'' tc' hr
    · have hl' : x.isLive = false := by simpa using hl
      simp only [hl'] at h
      cases hr : mapLiveFrom (fun x t => { x with v := none, t := t }) p (t :: delimSeq t.nextDelim k) xs with
      | none => rw [hr] at h; cases h
      | some res =>
        obtain ⟨l'', tc'⟩ := res
        rw [hr] at h
        simp only [Bool.false_eq_true, if_false, Option.map_some, Option.some.injEq, Prod.mk.injEq] at h
        obtain ⟨e1, e2⟩ := h
        rw [← e1, ← e2]
        exact skip p l'' tc' hr

/-! ### a local update is the remote application of its own operation -/

theorem cmp_nextDelim (a t : Ts) : a.cmp t.nextDelim = a.cmp t := cmp_congr_key a a t.nextDelim t rfl rfl

theorem updGo_eq : ∀ (l : List RNode) (p : Nat) (vs : List JVal) (t : Ts) (l' tc : List RNode),
    (l.map (·.o)).Nodup → (∀ n ∈ l, n.t.cmp t = .lt) →
    Rga.updateLocal.go p ((delimSeq t vs.length).zip vs) l = some (l', tc) →
    l' = l.map (fun z => (updEff (tc.map (·.o)) vs t z.o).app z) ∧ tc.Sublist l ∧ tc.length = vs.length
  | [], p, [], t, l', tc, _, _, h => by
    simp only [List.length_nil, delimSeq, List.zip_nil_left, Rga.updateLocal.go, Option.some.injEq,
      Prod.mk.injEq] at h
    obtain ⟨rfl, rfl⟩ := h
    simp
  | [], p, v :: vs, t, l', tc, _, _, h => by
    simp [delimSeq, Rga.updateLocal.go] at h
  | x :: xs, p, [], t, l', tc, _, _, h => by
    simp only [List.length_nil, delimSeq, List.zip_nil_left, Rga.updateLocal.go, Option.some.injEq,
      Prod.mk.injEq] at h
    obtain ⟨rfl, rfl⟩ := h
    simp [updEff, Eff.app]
  | x :: xs, p, v :: vs, t, l', tc, hnd, hlt, h => by
    obtain ⟨hx, hnd'⟩ := List.nodup_cons.mp hnd
    have hlt' : ∀ n ∈ xs, n.t.cmp t = .lt := fun n hn => hlt n (List.mem_cons_of_mem _ hn)
    have skip : ∀ (q : Nat) (l'' tc' : List RNode),
        Rga.updateLocal.go q ((delimSeq t (v :: vs).length).zip (v :: vs)) xs = some (l'', tc') →
        x :: l'' = (x :: xs).map (fun z => (updEff (tc'.map (·.o)) (v :: vs) t z.o).app z) ∧
          tc'.Sublist (x :: xs) ∧ tc'.length = (v :: vs).length := by
      intro q l'' tc' hr
      obtain ⟨h1, h2, h3⟩ := updGo_eq xs q (v :: vs) t l'' tc' hnd' hlt' hr
      refine ⟨?_, h2.cons x, h3⟩
      rw [List.map_cons, ← h1, updEff_not_mem _ _ _ _ (sublist_o_not_mem h2 hx)]
      rfl
    simp only [List.length_cons, delimSeq, List.zip_cons_cons] at h skip
    simp only [Rga.updateLocal.go] at h
    by_cases hl : x.isLive = true
    · simp only [hl, if_true] at h
      by_cases hp : p = 0
      · simp only [hp, if_true] at h
        cases hr : Rga.updateLocal.go 0 ((delimSeq t.nextDelim vs.length).zip vs) xs with
        | none => rw [hr] at h; cases h
        | some res =>
          obtain ⟨l'', tc'⟩ := res
          rw [hr] at h
          simp only [Option.map_some, Option.some.injEq, Prod.mk.injEq] at h
          obtain ⟨rfl, rfl⟩ := h
          obtain ⟨h1, h2, h3⟩ := updGo_eq xs 0 vs t.nextDelim l'' tc' hnd'
            (fun n hn => by rw [cmp_nextDelim]; exact hlt' n hn) hr
          refine ⟨?_, h2.cons_cons x, by simp [h3]⟩
          rw [List.map_cons, List.map_cons]
          congr 1
          · have hv : x.v.isNone = false := by
              have : x.v.isSome = true := hl
              cases hxv : x.v <;> simp [hxv] at this ⊢
            simp only [updEff, if_true, Eff.app, updF, hv, hlt x List.mem_cons_self]
            simp
          · rw [h1]
            apply List.map_congr_left
            intro z hz
            have : x.o ≠ z.o := fun e => hx (List.mem_map.mpr ⟨z, hz, e.symm⟩)
            simp only [updEff, if_neg this]
      · simp only [hp, if_false] at h
        cases hr : Rga.updateLocal.go (p - 1) ((t, v) :: (delimSeq t.nextDelim vs.length).zip vs) xs with
        | none => rw [hr] at h; cases h
        | some res =>
          obtain ⟨l'', tc'⟩ := res
          rw [hr] at h
          simp only [Option.map_some, Option.some.injEq, Prod.mk.injEq] at h
          obtain ⟨e1, e2⟩ := h
          rw [← e1, ← e2]
          exact skip (p - 1) l'' tc' hr
    · have hl' : x.isLive = false := by simpa using hl
      simp only [hl'] at h
      cases hr : Rga.updateLocal.go p ((t, v) :: (delimSeq t.nextDelim vs.length).zip vs) xs with
      | none => rw [hr] at h; cases h
      | some res =>
        obtain ⟨l'', tc'⟩ := res
        rw [hr] at h
        simp only [Bool.false_eq_true, if_false, Option.map_some, Option.some.injEq, Prod.mk.injEq] at h
        obtain ⟨e1, e2⟩ := h
        rw [← e1, ← e2]
        exact skip p l'' tc' hr

/-! ### the three local executions -/

theorem rga_ext {a b : Rga} (h1 : a.nodes = b.nodes) (h2 : a.size = b.size) : a = b := by
  cases a; cases b; simp only at h1 h2; rw [h1, h2]

theorem deleteLocal_eq_applyL (s : Rga) (pos num : Nat) (ts : Ts) (s' : Rga) (tg : List Ts) (old : List JVal)
    (hnd : s.ids.Nodup) (hsz : s.size = liveCount s.nodes)
    (h : s.deleteLocal pos num ts = .ok (s', tg, old)) :
    s' = s.applyL (.del tg ts) ∧ ∀ x ∈ tg, x ∈ s.ids := by
  unfold Rga.deleteLocal at h
  cases hr : mapLiveFrom (fun x t => { x with v := none, t := t }) pos (delimSeq ts num) s.nodes with
  | none => rw [hr] at h; cases h
  | some res =>
    obtain ⟨l', tc⟩ := res
    rw [hr] at h
    simp only [Outcome.ok.injEq, Prod.mk.injEq] at h
    obtain ⟨rfl, rfl, _⟩ := h
    obtain ⟨h1, h2, h3⟩ := mapLiveFrom_del s.nodes pos num ts l' tc hnd hr
    have hn : (s.applyL (.del (tc.map (·.o)) ts)).nodes = l' := by
      rw [applyL_del_nodes s _ ts hnd, h1]; rfl
    refine ⟨rga_ext hn.symm ?_, ?_⟩
    · show s.size - (num : Int) = (s.deleteRemote (tc.map (·.o)) ts).size
      rw [deleteRemote_size, deleteRemote_go_size _ ts s.nodes s.size hnd hsz, ← deleteRemote_nodes]
      have : (s.deleteRemote (tc.map (·.o)) ts).nodes = l' := hn
      rw [this, h3, hsz]
    · intro x hx
      exact (h2.map _).subset hx

theorem updateLocal_eq_applyL (s : Rga) (pos : Nat) (ts : Ts) (vs : List JVal) (s' : Rga) (tg : List Ts)
    (old : List JVal) (hnd : s.ids.Nodup) (hlt : ∀ n ∈ s.nodes, n.t.cmp ts = .lt)
    (h : s.updateLocal pos ts vs = .ok (s', tg, old)) :
    s' = s.applyL (.upd tg vs ts) ∧ ∀ x ∈ tg, x ∈ s.ids := by
  unfold Rga.updateLocal at h
  simp only at h
  cases hr : Rga.updateLocal.go pos ((delimSeq ts vs.length).zip vs) s.nodes with
  | none => rw [hr] at h; cases h
  | some res =>
    obtain ⟨l', tc⟩ := res
    rw [hr] at h
    simp only [Outcome.ok.injEq, Prod.mk.injEq] at h
    obtain ⟨rfl, rfl, _⟩ := h
    obtain ⟨h1, h2, h3⟩ := updGo_eq s.nodes pos vs ts l' tc hnd hlt hr
    refine ⟨rga_ext ?_ (applyL_upd_size s _ vs ts).symm, ?_⟩
    · rw [applyL_upd_nodes s _ vs ts hnd]
      show l' = _
      rw [h1]
      apply List.map_congr_left
      intro z _
      unfold opNode
      rw [eff_upd, if_pos (by rw [List.length_map, h3]; exact Nat.le_refl _)]
    · intro x hx
      exact (h2.map _).subset hx

theorem insertLocal_eq_applyL (s : Rga) (pos : Nat) (ts : Ts) (vs : List JVal) (s' : Rga) (a : Ts)
    (hnd : s.ids.Nodup) (hnohead : Ts.oldest ∉ s.ids) (hnew : ∀ n ∈ s.nodes, n.o.cmp ts = .lt)
    (h : s.insertLocal pos ts vs = .ok (s', a)) :
    s' = s.applyL (.ins a ts vs) ∧ (a = Ts.oldest ∨ a ∈ s.ids) := by
  have hr := insertLocal_eq_insertRemote_partial s pos ts vs a s' hnd hnohead hnew h
  constructor
  · show s' = match s.insertRemote a ts vs with | .ok s' => s' | _ => s
    rw [hr]
  · unfold Rga.insertLocal at h
    cases ha : s.anchorAt pos with
    | none => rw [ha] at h; simp at h
    | some a' =>
      cases hi : insertAtLive RNode.isLive (mkNodes ts vs) pos s.nodes with
      | none => rw [ha, hi] at h; simp at h
      | some l =>
        rw [ha, hi] at h
        simp only [Outcome.ok.injEq, Prod.mk.injEq] at h
        obtain ⟨_, rfl⟩ := h
        unfold Rga.anchorAt at ha
        split at ha
        · left; simpa using ha.symm
        · right
          simp only [Option.map_eq_some_iff] at ha
          obtain ⟨x, hx, rfl⟩ := ha
          exact List.mem_map.mpr ⟨x, nthLive_mem RNode.isLive s.nodes _ x hx, rfl⟩

/-! ### causal sequences: prefixes, extension by one operation, what the state contains -/

theorem mem_insOps_iff {ops : List LOp} {io : InsOp} :
    io ∈ insOps ops ↔ LOp.ins io.anchor io.ts io.vals ∈ ops := by
  constructor
  · intro h
    obtain ⟨p, hp, hpi⟩ := List.mem_filterMap.mp h
    cases p with
    | ins a ts vals =>
      simp only [toIns, Option.some.injEq] at hpi
      subst hpi
      exact hp
    | del tgs ts => simp [toIns] at hpi
    | upd tgs vs ts => simp [toIns] at hpi
  · intro h
    exact mem_insOps h

theorem lcausal_prefix : ∀ (l2 : List LOp) {l1 : List LOp}, LCausal (l1 ++ l2) → LCausal l1 := by
  intro l2
  induction l2 using List.reverseRecOn with
  | nil => intro l1 h; simpa using h
  | append_singleton l2 p ih =>
    intro l1 h
    rw [← List.append_assoc] at h
    exact ih h.init

theorem insCausal_snoc {ops : List InsOp} {o : InsOp} (h : InsCausal ops) (hd : o.ts.delim = 0)
    (hne : o.vals ≠ []) (hnh : o.ts.key ≠ Ts.oldest.key) (hfresh : ∀ p ∈ ops, p.ts.key ≠ o.ts.key)
    (hanch : o.anchor = Ts.oldest ∨ ∃ p ∈ ops, o.anchor ∈ p.ids ∧ p.ts.cmp o.ts = .lt) :
    InsCausal (ops ++ [o]) where
  delim0 := by
    intro p hp
    rcases List.mem_append.mp hp with h' | h'
    · exact h.delim0 p h'
    · simp only [List.mem_singleton] at h'; subst h'; exact hd
  nonempty := by
    intro p hp
    rcases List.mem_append.mp hp with h' | h'
    · exact h.nonempty p h'
    · simp only [List.mem_singleton] at h'; subst h'; exact hne
  notHead := by
    intro p hp
    rcases List.mem_append.mp hp with h' | h'
    · exact h.notHead p h'
    · simp only [List.mem_singleton] at h'; subst h'; exact hnh
  distinct := by
    refine List.pairwise_append.mpr ⟨h.distinct, List.pairwise_singleton _ _, ?_⟩
    intro p hp q hq
    simp only [List.mem_singleton] at hq
    subst hq
    exact hfresh p hp
  anchored := by
    intro i hi
    by_cases hlt : i < ops.length
    · rw [List.getElem_append_left hlt]
      rcases h.anchored i hlt with h1 | ⟨j, hj, h2, h3⟩
      · exact Or.inl h1
      · right
        refine ⟨j, hj, ?_, ?_⟩
        · rw [List.getElem_append_left (by omega)]; exact h2
        · rw [List.getElem_append_left (by omega)]; exact h3
    · have hi' : i = ops.length := by
        simp only [List.length_append, List.length_cons, List.length_nil] at hi; omega
      subst hi'
      have e : (ops ++ [o])[ops.length]'hi = o := by simp
      rw [e]
      rcases hanch with h1 | ⟨p, hp, h2, h3⟩
      · exact Or.inl h1
      · right
        obtain ⟨j, hj, rfl⟩ := List.mem_iff_getElem.mp hp
        refine ⟨j, hj, ?_, ?_⟩
        · rw [List.getElem_append_left hj]; exact h2
        · rw [List.getElem_append_left hj]; exact h3

/-- extension of a causal sequence by one operation -/
theorem lcausal_snoc {ops : List LOp} {p : LOp} (h : LCausal ops) (hins : InsCausal (insOps (ops ++ [p])))
    (hmod : p.isMod = true → ∀ q ∈ ops, q.isMod = true → q.ts.cmp p.ts ≠ .eq)
    (htg : ∀ x ∈ p.targets, ∃ q ∈ ops, x ∈ q.insIds) : LCausal (ops ++ [p]) where
  ins := hins
  distinct := by
    refine List.pairwise_append.mpr ⟨h.distinct, List.pairwise_singleton _ _, ?_⟩
    intro q hq q' hq' h1 h2
    simp only [List.mem_singleton] at hq'
    subst hq'
    exact hmod h2 q hq h1
  targeted := by
    intro i hi x hx
    by_cases hlt : i < ops.length
    · rw [List.getElem_append_left hlt] at hx
      obtain ⟨j, hj, hm⟩ := h.targeted i hlt x hx
      refine ⟨j, hj, ?_⟩
      rw [List.getElem_append_left (by omega)]; exact hm
    · have hi' : i = ops.length := by
        simp only [List.length_append, List.length_cons, List.length_nil] at hi; omega
      subst hi'
      have e : (ops ++ [p])[ops.length]'hi = p := by simp
      rw [e] at hx
      obtain ⟨q, hq, hm⟩ := htg x hx
      obtain ⟨j, hj, rfl⟩ := List.mem_iff_getElem.mp hq
      refine ⟨j, hj, ?_⟩
      rw [List.getElem_append_left hj]; exact hm

theorem lcausal_snoc_mod {ops : List LOp} {p : LOp} (h : LCausal ops) (hm : p.isMod = true)
    (hmod : ∀ q ∈ ops, q.isMod = true → q.ts.cmp p.ts ≠ .eq)
    (htg : ∀ x ∈ p.targets, ∃ q ∈ ops, x ∈ q.insIds) : LCausal (ops ++ [p]) := by
  apply lcausal_snoc h _ (fun _ => hmod) htg
  rw [insOps_append]
  cases p with
  | ins a ts vals => simp [LOp.isMod] at hm
  | del tgs ts => simpa [toIns] using h.ins
  | upd tgs vs ts => simpa [toIns] using h.ins

theorem lcausal_snoc_ins {ops : List LOp} {a ts : Ts} {vals : List JVal} (h : LCausal ops) (hd : ts.delim = 0)
    (hne : vals ≠ []) (hnh : ts.key ≠ Ts.oldest.key) (hfresh : ∀ q ∈ ops, q.ts.key ≠ ts.key)
    (hanch : a = Ts.oldest ∨ ∃ q ∈ ops, a ∈ q.insIds ∧ q.ts.cmp ts = .lt) :
    LCausal (ops ++ [.ins a ts vals]) := by
  apply lcausal_snoc h _ (fun hm => by simp [LOp.isMod] at hm) (fun x hx => by simp [LOp.targets] at hx)
  rw [insOps_append]
  show InsCausal (insOps ops ++ [⟨a, ts, vals⟩])
  apply insCausal_snoc h.ins hd hne hnh
  · intro io hio
    exact hfresh _ (mem_insOps_iff.mp hio)
  · rcases hanch with h1 | ⟨q, hq, h2, h3⟩
    · exact Or.inl h1
    · right
      cases q with
      | ins a' ts' vals' => exact ⟨⟨a', ts', vals'⟩, mem_insOps hq, h2, h3⟩
      | del tgs ts' => simp [LOp.insIds] at h2
      | upd tgs vs ts' => simp [LOp.insIds] at h2

/-- what the last operation of a causal sequence refers to was created before it -/
theorem lcausal_last_ins {ops : List LOp} {a ts : Ts} {vals : List JVal} (h : LCausal (ops ++ [.ins a ts vals])) :
    a = Ts.oldest ∨ ∃ q ∈ ops, a ∈ q.insIds ∧ q.ts.cmp ts = .lt := by
  have hi := h.ins
  rw [insOps_append] at hi
  rcases (InsCausal.last (o := ⟨a, ts, vals⟩) (by simpa [toIns] using hi)).2 with h1 | ⟨io, hio, h2, h3⟩
  · exact Or.inl h1
  · exact Or.inr ⟨_, mem_insOps_iff.mp hio, h2, h3⟩

theorem lcausal_last_targets {ops : List LOp} {p : LOp} (h : LCausal (ops ++ [p])) :
    ∀ x ∈ p.targets, ∃ q ∈ ops, x ∈ q.insIds := by
  intro x hx
  have hi : ops.length < (ops ++ [p]).length := by simp
  have e : (ops ++ [p])[ops.length]'hi = p := by simp
  obtain ⟨j, hj, hm⟩ := h.targeted ops.length hi x (by rw [e]; exact hx)
  rw [List.getElem_append_left hj] at hm
  exact ⟨_, List.getElem_mem hj, hm⟩

/-- every identity of the state was created by an insert of the sequence -/
theorem ids_mem {ops : List LOp} (hc : LCausal ops) {x : Ts} (hx : x ∈ (Rga.empty.applyAllL ops).ids) :
    ∃ q ∈ ops, x ∈ q.insIds := by
  rw [applyAllL_ids] at hx
  obtain ⟨_, _, _, _, hmem, _⟩ := rinv_all _ hc.ins
  obtain ⟨io, hio, hxi⟩ := (hmem x).mp hx
  exact ⟨_, mem_insOps_iff.mp hio, hxi⟩

theorem no_head {ops : List LOp} (hc : LCausal ops) : Ts.oldest ∉ (Rga.empty.applyAllL ops).ids := by
  rw [applyAllL_ids]
  exact rga_no_head _ hc.ins

theorem delF_t (t : Ts) (z : RNode) : (delF t z).t = z.t ∨ (delF t z).t = t := by
  unfold delF
  split
  · exact Or.inr rfl
  · split
    · exact Or.inr rfl
    · exact Or.inl rfl

theorem updF_t (v : JVal) (t : Ts) (z : RNode) : (updF v t z).t = z.t ∨ (updF v t z).t = t := by
  unfold updF
  split
  · exact Or.inl rfl
  · split
    · exact Or.inr rfl
    · exact Or.inl rfl

theorem opNode_t (p : LOp) (z : RNode) : (opNode p z).t = z.t ∨ (opNode p z).t.key = p.ts.key := by
  unfold opNode
  cases he : p.eff z.o with
  | none => exact Or.inl rfl
  | del t =>
    have hk := (eff_stamp p z.o t (by rw [he]; rfl)).2
    rcases delF_t t z with h | h
    · exact Or.inl h
    · right
      show (delF t z).t.key = _
      rw [h, hk]
  | upd v t =>
    have hk := (eff_stamp p z.o t (by rw [he]; rfl)).2
    rcases updF_t v t z with h | h
    · exact Or.inl h
    · right
      show (updF v t z).t.key = _
      rw [h, hk]

/-- every value timestamp of the state carries the (era, lamport, client) of an operation of the sequence -/
theorem nodes_t_key : ∀ ops : List LOp, LCausal ops →
    ∀ n ∈ (Rga.empty.applyAllL ops).nodes, ∃ p ∈ ops, n.t.key = p.ts.key := by
  intro ops
  induction ops using List.reverseRecOn with
  | nil => intro _ n hn; simp [Rga.applyAllL, Rga.empty] at hn
  | append_singleton ops p ih =>
    intro hc n hn
    have hc0 := hc.init
    have ih := ih hc0
    have hnd := ids_nodup hc0
    rw [applyAllL_append] at hn
    have old : ∀ m ∈ (Rga.empty.applyAllL ops).nodes, ∃ q ∈ ops ++ [p], m.t.key = q.ts.key := by
      intro m hm
      obtain ⟨q, hq, hk⟩ := ih m hm
      exact ⟨q, by simp [hq], hk⟩
    have modc : ∀ m ∈ (Rga.empty.applyAllL ops).nodes, ∃ q ∈ ops ++ [p], (opNode p m).t.key = q.ts.key := by
      intro m hm
      rcases opNode_t p m with h | h
      · rw [h]; exact old m hm
      · exact ⟨p, by simp, h⟩
    cases p with
    | del tgs ts =>
      rw [applyL_del_nodes _ _ _ hnd] at hn
      obtain ⟨m, hm, rfl⟩ := List.mem_map.mp hn
      exact modc m hm
    | upd tgs vs ts =>
      rw [applyL_upd_nodes _ _ _ _ hnd] at hn
      obtain ⟨m, hm, rfl⟩ := List.mem_map.mp hn
      exact modc m hm
    | ins a ts vals =>
      rw [applyL_ins, applyIns_nodes] at hn
      have hmem : n ∈ mkNodes ts vals ∨ n ∈ (Rga.empty.applyAllL ops).nodes := by
        cases hi : insertAfterId RNode.o a (mkNodes ts vals) (Rga.empty.applyAllL ops).nodes with
        | none => rw [hi] at hn; exact Or.inr hn
        | some l' =>
          rw [hi] at hn
          exact List.mem_append.mp ((insertAfterId_perm RNode.o a _ _ l' hi).subset hn)
      rcases hmem with hnew | hold
      · obtain ⟨v, hv⟩ := mem_mkNodes hnew
        refine ⟨.ins a ts vals, by simp, ?_⟩
        have : n.t = n.o := by rw [hv]
        rw [this]
        exact mkNodes_key hnew
      · exact old n hold

/-! ### a public call on a list replica -/

/-- what a successful local list execution did (`b` is the queued wire body) -/
def LocalOp (l : Rga) (ts : Ts) (b : OpBody) (l' : Rga) : Prop :=
  (∃ pos a vs, b = .insert 0 (some a) vs ∧ l.insertLocal pos ts vs = .ok (l', a)) ∨
  (∃ pos num tg old, b = .delete 0 0 tg ∧ l.deleteLocal pos num ts = .ok (l', tg, old)) ∨
  (∃ pos tg vs old, b = .update 0 tg vs ∧ l.updateLocal pos ts vs = .ok (l', tg, old))

theorem execLocal_list {l : Rga} {ts : Ts} {b b' : OpBody} {s' : DState} {ret : Ret}
    (h : execLocal (.list l) ts b = .ok (s', b', ret)) : ∃ l', s' = .list l' ∧ LocalOp l ts b'.wire l' := by
  cases b <;> simp only [execLocal, reduceCtorEq] at h
  case insert pos t vs =>
    cases hi : l.insertLocal pos ts vs with
    | ok res =>
      obtain ⟨l', a⟩ := res
      rw [hi] at h
      simp only [Outcome.ok.injEq, Prod.mk.injEq] at h
      obtain ⟨rfl, rfl, _⟩ := h
      exact ⟨l', rfl, Or.inl ⟨pos, a, vs, rfl, hi⟩⟩
    | err c => rw [hi] at h; cases h
    | panic w => rw [hi] at h; cases h
  case delete pos num tg0 =>
    cases hi : l.deleteLocal pos num ts with
    | ok res =>
      obtain ⟨l', tg, old⟩ := res
      rw [hi] at h
      simp only [Outcome.ok.injEq, Prod.mk.injEq] at h
      obtain ⟨rfl, rfl, _⟩ := h
      exact ⟨l', rfl, Or.inr (Or.inl ⟨pos, num, tg, old, rfl, hi⟩)⟩
    | err c => rw [hi] at h; cases h
    | panic w => rw [hi] at h; cases h
  case update pos tg0 vs =>
    cases hi : l.updateLocal pos ts vs with
    | ok res =>
      obtain ⟨l', tg, old⟩ := res
      rw [hi] at h
      simp only [Outcome.ok.injEq, Prod.mk.injEq] at h
      obtain ⟨rfl, rfl, _⟩ := h
      exact ⟨l', rfl, Or.inr (Or.inr ⟨pos, tg, vs, old, rfl, hi⟩)⟩
    | err c => rw [hi] at h; cases h
    | panic w => rw [hi] at h; cases h

/-- the call left state and buffer alone (a read, a refusal, a call of another datatype) -/
def Noop (r r' : Replica) : Prop :=
  r'.state = r.state ∧ r'.buffer = r.buffer ∧ r'.opId.cuid = r.opId.cuid ∧ r'.opId.era = r.opId.era ∧
    r.opId.lamport ≤ r'.opId.lamport

/-- the call executed ONE list operation and queued it -/
def Queued (r : Replica) (l : Rga) (r' : Replica) : Prop :=
  ∃ o l', r'.buffer = r.buffer ++ [o] ∧ o.id = r.opId.next ∧ r'.opId = r.opId.next ∧ r'.state = .list l' ∧
    LocalOp l r.opId.next.ts o.body l'

theorem callLocal_cases (r : Replica) (l : Rga) (hs : r.state = .list l) (b : OpBody) (hb : b.isMeta = false) :
    Noop r (r.callLocal b).1 ∨ Queued r l (r.callLocal b).1 := by
  unfold Replica.callLocal Replica.execLocalBase
  simp only [hb, Bool.false_eq_true, if_false, hs]
  cases he : execLocal (.list l) r.opId.next.ts b with
  | err c => left; simp [Noop, OpId.rollBack, OpId.next, hs]
  | panic w => left; simp [Noop, OpId.next, hs]
  | ok res =>
    obtain ⟨s', b', ret⟩ := res
    right
    obtain ⟨l', rfl, hl⟩ := execLocal_list he
    exact ⟨⟨r.opId.next, b'.wire⟩, l', rfl, rfl, rfl, rfl, hl⟩

theorem prepare_not_meta {l : Rga} {c : Call} {b : OpBody} {post : Ret → Ret}
    (h : c.prepare (.list l) = .op b post) : b.isMeta = false := by
  cases c <;> simp only [Call.prepare] at h
  all_goals (try split at h) <;> (try split at h) <;>
    first
      | (cases h; done)
      | (simp only [Prep.op.injEq] at h; obtain ⟨rfl, _⟩ := h; rfl)

/-- ANY public call on a list replica either leaves state and buffer alone or executes and queues one list operation -/
theorem call_cases (r : Replica) (l : Rga) (hs : r.state = .list l) (c : Call) :
    Noop r (r.call c).1 ∨ Queued r l (r.call c).1 := by
  unfold Replica.call
  cases hp : c.prepare r.state with
  | done o => left; exact ⟨rfl, rfl, rfl, rfl, Nat.le_refl _⟩
  | op b post =>
    rw [hs] at hp
    exact callLocal_cases r l hs b (prepare_not_meta hp)

theorem insIds_key {q : LOp} {x : Ts} (h : x ∈ q.insIds) : x.key = q.ts.key := by
  cases q with
  | ins a ts vals => exact delimSeq_key h
  | del tgs ts => simp [LOp.insIds] at h
  | upd tgs vs ts => simp [LOp.insIds] at h

/-- a local list operation issued with a timestamp newer than everything applied so far IS the remote application of
    the operation it queues, and extends the causal sequence -/
theorem local_step {ops : List LOp} (hc : LCausal ops) {ts : Ts} (hd : ts.delim = 0) (hnh : ts.key ≠ Ts.oldest.key)
    (hnew : ∀ p ∈ ops, p.ts.cmp ts = .lt) {o : Op} (hid : o.id.ts = ts) {l' : Rga}
    (h : LocalOp (Rga.empty.applyAllL ops) ts o.body l') :
    l' = (Rga.empty.applyAllL ops).applyAllL (toL o).toList ∧ LCausal (ops ++ (toL o).toList) ∧
      ListBody o.body := by
  have hnd := ids_nodup hc
  have hnohead := no_head hc
  have hsz := size_eq_liveCount ops hc
  have hcmpne : ∀ q ∈ ops, q.ts.cmp ts ≠ .eq := fun q hq e => by rw [hnew q hq] at e; cases e
  have hkey : ∀ q ∈ ops, q.ts.key ≠ ts.key := fun q hq e => hcmpne q hq ((cmp_eq_iff _ _).mpr e)
  have hidm : ∀ x ∈ (Rga.empty.applyAllL ops).ids, ∃ q ∈ ops, x ∈ q.insIds ∧ q.ts.cmp ts = .lt := by
    intro x hx
    obtain ⟨q, hq, hm⟩ := ids_mem hc hx
    exact ⟨q, hq, hm, hnew q hq⟩
  have hnewo : ∀ n ∈ (Rga.empty.applyAllL ops).nodes, n.o.cmp ts = .lt := by
    intro n hn
    obtain ⟨q, hq, hm, hlt⟩ := hidm n.o (List.mem_map.mpr ⟨n, hn, rfl⟩)
    rw [cmp_congr_key n.o q.ts ts ts (insIds_key hm) rfl]
    exact hlt
  have hnewt : ∀ n ∈ (Rga.empty.applyAllL ops).nodes, n.t.cmp ts = .lt := by
    intro n hn
    obtain ⟨q, hq, hk⟩ := nodes_t_key ops hc n hn
    rw [cmp_congr_key n.t q.ts ts ts hk rfl]
    exact hnew q hq
  rcases o with ⟨id, body⟩
  simp only at hid h
  subst hid
  rcases h with ⟨pos, a, vs, rfl, hl⟩ | ⟨pos, num, tg, old, rfl, hl⟩ | ⟨pos, tg, vs, old, rfl, hl⟩
  · obtain ⟨h1, h2⟩ := insertLocal_eq_applyL _ pos id.ts vs l' a hnd hnohead hnewo hl
    refine ⟨?_, ?_, Or.inl ⟨0, a, vs, rfl⟩⟩
    · cases vs with
      | nil => rw [h1, applyL_ins_nil]; rfl
      | cons v vs => rw [h1]; rfl
    · cases vs with
      | nil => simpa [toL] using hc
      | cons v vs =>
        show LCausal (ops ++ [.ins a id.ts (v :: vs)])
        apply lcausal_snoc_ins hc hd (by simp) hnh hkey
        rcases h2 with h2 | h2
        · exact Or.inl h2
        · exact Or.inr (hidm a h2)
  · obtain ⟨h1, h2⟩ := deleteLocal_eq_applyL _ pos num id.ts l' tg old hnd hsz hl
    refine ⟨by rw [h1]; rfl, ?_, Or.inr (Or.inl ⟨0, 0, tg, rfl⟩)⟩
    show LCausal (ops ++ [.del tg id.ts])
    apply lcausal_snoc_mod (p := .del tg id.ts) hc rfl (fun q hq _ => hcmpne q hq)
    intro x hx
    obtain ⟨q, hq, hm, _⟩ := hidm x (h2 x hx)
    exact ⟨q, hq, hm⟩
  · obtain ⟨h1, h2⟩ := updateLocal_eq_applyL _ pos id.ts vs l' tg old hnd hnewt hl
    refine ⟨by rw [h1]; rfl, ?_, Or.inr (Or.inr ⟨0, tg, vs, rfl⟩)⟩
    show LCausal (ops ++ [.upd tg vs id.ts])
    apply lcausal_snoc_mod (p := .upd tg vs id.ts) hc rfl (fun q hq _ => hcmpne q hq)
    intro x hx
    obtain ⟨q, hq, hm, _⟩ := hidm x (h2 x hx)
    exact ⟨q, hq, hm⟩

/-! ## 2. the system: list replicas around ONE server log -/

/-- one client: the real replica model, how many operations of its buffer are in the log, how many log entries it has
    consumed -/
structure Node where
  r : Replica
  pushed : Nat
  pulled : Nat

/-- an entry of the server log: (author, wire operation) -/
abbrev LEnt := Nat × Op

structure Net where
  nodes : List Node
  log : List LEnt

/-- every node is a fresh subscriber `Replica.new .list (cuid i) false`; nothing pushed or pulled; empty log -/
def Net.init (cuid : Nat → String) (n : Nat) : Net :=
  ⟨(List.range n).map fun i => ⟨Replica.new .list (cuid i) false, 0, 0⟩, []⟩

/-- client identifiers of the `n` nodes are pairwise distinct -/
def CuidsDistinct (cuid : Nat → String) (n : Nat) : Prop := ∀ i j, i < n → j < n → cuid i = cuid j → i = j

inductive Step : Net → Net → Prop
  /-- node `i` issues the public call `c` — ANY `Call` (reads, refused calls, calls of other datatypes, inserts of
      zero values included) -/
  | call (net : Net) (i : Nat) (nd : Node) (c : Call) (hi : net.nodes[i]? = some nd) :
      Step net ⟨net.nodes.set i { nd with r := (nd.r.call c).1 }, net.log⟩
  /-- the next unpushed operation of node `i`'s buffer is appended to the log (buffer order) -/
  | push (net : Net) (i : Nat) (nd : Node) (o : Op) (hi : net.nodes[i]? = some nd)
      (ho : nd.r.buffer[nd.pushed]? = some o) :
      Step net ⟨net.nodes.set i { nd with pushed := nd.pushed + 1 }, net.log ++ [(i, o)]⟩
  /-- node `i` consumes its next log entry: skipped if `i` is the author, otherwise delivered with `execRemoteBase` -/
  | pull (net : Net) (i : Nat) (nd : Node) (a : Nat) (o : Op) (hi : net.nodes[i]? = some nd)
      (hl : net.log[nd.pulled]? = some (a, o)) :
      Step net ⟨net.nodes.set i { nd with r := if a = i then nd.r else (nd.r.execRemoteBase o).1,
                                          pulled := nd.pulled + 1 }, net.log⟩

/-- the reachable states of the system of `n` nodes with the (pairwise distinct) client identifiers `cuid 0 … cuid (n-1)` -/
inductive Reach (cuid : Nat → String) (n : Nat) : Net → Prop
  | init (hc : CuidsDistinct cuid n) : Reach cuid n (Net.init cuid n)
  | step {net net' : Net} : Reach cuid n net → Step net net' → Reach cuid n net'

/-- the entries of `l` written by `i` / by the others -/
def own (i : Nat) (l : List LEnt) : List LEnt := l.filter fun e => e.1 == i
def oth (i : Nat) (l : List LEnt) : List LEnt := l.filter fun e => !(e.1 == i)

/-- the operations node `nd` (number `i`) has applied: its own buffer and the log entries of the others among the first
    `pulled` ones -/
def appliedOps (log : List LEnt) (i : Nat) (nd : Node) : List Op :=
  nd.r.buffer ++ (oth i (log.take nd.pulled)).map (·.2)

/-- nodes `i` and `j` have applied the same multiset of operations -/
def SameOps (net : Net) (i j : Nat) : Prop :=
  ∃ ni nj, net.nodes[i]? = some ni ∧ net.nodes[j]? = some nj ∧
    (appliedOps net.log i ni).Perm (appliedOps net.log j nj)

/-- every buffer completely pushed, every node has consumed the whole log -/
def Quiescent (net : Net) : Prop :=
  ∀ nd ∈ net.nodes, nd.pushed = nd.r.buffer.length ∧ nd.pulled = net.log.length

/-! ### the executable form (for concrete runs) -/

inductive Act where
  | call (i : Nat) (c : Call)
  | push (i : Nat)
  | pull (i : Nat)

def Net.act (net : Net) : Act → Option Net
  | .call i c =>
    match net.nodes[i]? with
    | some nd => some ⟨net.nodes.set i { nd with r := (nd.r.call c).1 }, net.log⟩
    | none => none
  | .push i =>
    match net.nodes[i]? with
    | some nd =>
      match nd.r.buffer[nd.pushed]? with
      | some o => some ⟨net.nodes.set i { nd with pushed := nd.pushed + 1 }, net.log ++ [(i, o)]⟩
      | none => none
    | none => none
  | .pull i =>
    match net.nodes[i]? with
    | some nd =>
      match net.log[nd.pulled]? with
      | some (a, o) =>
        some ⟨net.nodes.set i { nd with r := if a = i then nd.r else (nd.r.execRemoteBase o).1,
                                        pulled := nd.pulled + 1 }, net.log⟩
      | none => none
    | none => none

def Net.run (net : Net) : List Act → Option Net
  | [] => some net
  | a :: as => match net.act a with
    | some net' => net'.run as
    | none => none

theorem step_of_act {net net' : Net} {a : Act} (h : net.act a = some net') : Step net net' := by
  cases a with
  | call i c =>
    simp only [Net.act] at h
    cases hn : net.nodes[i]? with
    | none => rw [hn] at h; cases h
    | some nd =>
      rw [hn] at h
      simp only [Option.some.injEq] at h
      subst h
      exact .call net i nd c hn
  | push i =>
    simp only [Net.act] at h
    cases hn : net.nodes[i]? with
    | none => rw [hn] at h; cases h
    | some nd =>
      rw [hn] at h
      simp only at h
      cases ho : nd.r.buffer[nd.pushed]? with
      | none => rw [ho] at h; cases h
      | some o =>
        rw [ho] at h
        simp only [Option.some.injEq] at h
        subst h
        exact .push net i nd o hn ho
  | pull i =>
    simp only [Net.act] at h
    cases hn : net.nodes[i]? with
    | none => rw [hn] at h; cases h
    | some nd =>
      rw [hn] at h
      simp only at h
      cases hl : net.log[nd.pulled]? with
      | none => rw [hl] at h; cases h
      | some e =>
        obtain ⟨a, o⟩ := e
        rw [hl] at h
        simp only [Option.some.injEq] at h
        subst h
        exact .pull net i nd a o hn hl

theorem reach_run {cuid : Nat → String} {n : Nat} : ∀ (as : List Act) {net net' : Net}, Reach cuid n net →
    net.run as = some net' → Reach cuid n net'
  | [], _, _, hr, h => by
    simp only [Net.run, Option.some.injEq] at h
    exact h ▸ hr
  | a :: as, net, net', hr, h => by
    simp only [Net.run] at h
    cases ha : net.act a with
    | none => rw [ha] at h; cases h
    | some net1 =>
      rw [ha] at h
      exact reach_run as (.step hr (step_of_act ha)) h

/-! ## 3. the invariant (ghost state: per node the sequence `ap i` of the log-tagged operations it has applied) -/

/-- the list operations a sequence of entries denotes (inserts of zero values denote nothing) -/
def den (l : List LEnt) : List LOp := l.filterMap fun e => toL e.2
/-- what identifies an operation: (lamport, client) -/
def lkey (e : LEnt) : Nat × String := (e.2.id.lamport, e.2.id.cuid)

/-- what is known about every operation of the system -/
def EntOK (cuid : Nat → String) (n : Nat) (e : LEnt) : Prop :=
  e.1 < n ∧ e.2.id.cuid = cuid e.1 ∧ e.2.id.era = 0 ∧ 1 ≤ e.2.id.lamport ∧ ListBody e.2.body

structure NodeInv (cuid : Nat → String) (n : Nat) (log : List LEnt) (i : Nat) (nd : Node) (A : List LEnt) : Prop where
  st : nd.r.state = .list (Rga.empty.applyAllL (den A))
  lc : LCausal (den A)
  pushed_le : nd.pushed ≤ nd.r.buffer.length
  pulled_le : nd.pulled ≤ log.length
  own_eq : own i A = nd.r.buffer.map (fun o => (i, o))
  oth_eq : oth i A = oth i (log.take nd.pulled)
  log_own : own i log = (nd.r.buffer.take nd.pushed).map (fun o => (i, o))
  clock_cuid : nd.r.opId.cuid = cuid i
  clock_era : nd.r.opId.era = 0
  lam_le : ∀ e ∈ A, e.2.id.lamport ≤ nd.r.opId.lamport
  ent_ok : ∀ e ∈ A, EntOK cuid n e
  buf_sorted : nd.r.buffer.Pairwise (fun o o' => o.id.lamport < o'.id.lamport)
  keys : A.Pairwise (fun e e' => lkey e ≠ lkey e')
  /-- CAUSALITY: what node `i` had applied when it issued `o` is in the log before `o` -/
  causal : ∀ P o S, A = P ++ (i, o) :: S → ∀ k, log[k]? = some (i, o) → ∀ e ∈ P, e ∈ log.take k

structure Inv (cuid : Nat → String) (n : Nat) (net : Net) (ap : Nat → List LEnt) : Prop where
  distinct : CuidsDistinct cuid n
  len : net.nodes.length = n
  node : ∀ i nd, net.nodes[i]? = some nd → NodeInv cuid n net.log i nd (ap i)
  log_auth : ∀ e ∈ net.log, e.1 < n
  log_keys : net.log.Pairwise (fun e e' => lkey e ≠ lkey e')

/-! ### lists of entries -/

theorem mem_own {i : Nat} {l : List LEnt} {e : LEnt} : e ∈ own i l ↔ e ∈ l ∧ e.1 = i := by
  simp [own]
theorem mem_oth {i : Nat} {l : List LEnt} {e : LEnt} : e ∈ oth i l ↔ e ∈ l ∧ e.1 ≠ i := by
  simp [oth]
theorem own_append (i : Nat) (l l' : List LEnt) : own i (l ++ l') = own i l ++ own i l' := by
  simp [own]
theorem oth_append (i : Nat) (l l' : List LEnt) : oth i (l ++ l') = oth i l ++ oth i l' := by
  simp [oth]
theorem own_single_self (i : Nat) (o : Op) : own i [(i, o)] = [(i, o)] := by simp [own]
theorem oth_single_self (i : Nat) (o : Op) : oth i [(i, o)] = [] := by simp [oth]
theorem own_single_ne {i a : Nat} (h : a ≠ i) (o : Op) : own i [(a, o)] = [] := by simp [own, h]
theorem oth_single_ne {i a : Nat} (h : a ≠ i) (o : Op) : oth i [(a, o)] = [(a, o)] := by simp [oth, h]
theorem own_cons_self (i : Nat) (o : Op) (l : List LEnt) : own i ((i, o) :: l) = (i, o) :: own i l := by simp [own]

theorem den_append (l l' : List LEnt) : den (l ++ l') = den l ++ den l' := by simp [den]
theorem den_single (e : LEnt) : den [e] = (toL e.2).toList := by
  cases h : toL e.2 <;> simp [den, h]
theorem den_cons (e : LEnt) (l : List LEnt) : den (e :: l) = (toL e.2).toList ++ den l := by
  cases h : toL e.2 <;> simp [den, h]
theorem den_snoc (l : List LEnt) (e : LEnt) : den (l ++ [e]) = den l ++ (toL e.2).toList := by
  rw [den_append, den_single]

theorem mem_den {l : List LEnt} {x : LOp} : x ∈ den l ↔ ∃ e ∈ l, toL e.2 = some x := by
  simp [den]

theorem applyAllL_app (s : Rga) (l l' : List LOp) : s.applyAllL (l ++ l') = (s.applyAllL l).applyAllL l' := by
  simp [Rga.applyAllL, List.foldl_append]

theorem nodup_of_keys {l : List LEnt} (h : l.Pairwise (fun e e' => lkey e ≠ lkey e')) : l.Nodup :=
  List.nodup_iff_pairwise_ne.mpr (h.imp (fun hk e0 => hk (by rw [e0])))

/-- operations with different (lamport, client) carry different timestamp keys -/
theorem key_ne_of_lkey {e e' : LEnt} {x x' : LOp} (h : lkey e ≠ lkey e') (hx : toL e.2 = some x)
    (hx' : toL e'.2 = some x') : x.ts.key ≠ x'.ts.key := by
  rw [toL_ts hx, toL_ts hx']
  intro e0
  apply h
  simp only [Ts.key, OpId.ts, Prod.mk.injEq] at e0
  simp only [lkey, Prod.mk.injEq]
  exact e0.2

/-! ### what the invariant says about the log -/

namespace NodeInv
variable {cuid : Nat → String} {n : Nat} {log : List LEnt} {i : Nat} {nd : Node} {A : List LEnt}

theorem buf_mem (N : NodeInv cuid n log i nd A) {o : Op} (h : o ∈ nd.r.buffer) : (i, o) ∈ A := by
  have : (i, o) ∈ own i A := by rw [N.own_eq]; exact List.mem_map.mpr ⟨o, h, rfl⟩
  exact (mem_own.mp this).1

theorem mem_buf (N : NodeInv cuid n log i nd A) {o : Op} (h : (i, o) ∈ A) : o ∈ nd.r.buffer := by
  have : (i, o) ∈ own i A := mem_own.mpr ⟨h, rfl⟩
  rw [N.own_eq] at this
  obtain ⟨o', h1, h2⟩ := List.mem_map.mp this
  simp only [Prod.mk.injEq, true_and] at h2
  exact h2 ▸ h1

theorem log_take (N : NodeInv cuid n log i nd A) {o : Op} (h : (i, o) ∈ log) : o ∈ nd.r.buffer.take nd.pushed := by
  have : (i, o) ∈ own i log := mem_own.mpr ⟨h, rfl⟩
  rw [N.log_own] at this
  obtain ⟨o', h1, h2⟩ := List.mem_map.mp this
  simp only [Prod.mk.injEq, true_and] at h2
  exact h2 ▸ h1

/-- every consumed log entry has been applied -/
theorem mem_of_log (N : NodeInv cuid n log i nd A) {e : LEnt} (h : e ∈ log.take nd.pulled) : e ∈ A := by
  by_cases he : e.1 = i
  · obtain ⟨a, o⟩ := e
    simp only at he
    subst he
    exact N.buf_mem (List.mem_of_mem_take (N.log_take (List.mem_of_mem_take h)))
  · have : e ∈ oth i A := by rw [N.oth_eq]; exact mem_oth.mpr ⟨h, he⟩
    exact (mem_oth.mp this).1

theorem buf_lam (N : NodeInv cuid n log i nd A) {o : Op} (h : o ∈ nd.r.buffer) : o.id.lamport ≤ nd.r.opId.lamport :=
  N.lam_le _ (N.buf_mem h)

/-- everything applied so far is older than the next local operation -/
theorem den_lt (N : NodeInv cuid n log i nd A) : ∀ p ∈ den A, p.ts.cmp nd.r.opId.next.ts = .lt := by
  intro p hp
  obtain ⟨e, he, hep⟩ := mem_den.mp hp
  rw [toL_ts hep]
  apply cmp_lt_of_lamport_lt
  · show e.2.id.era = nd.r.opId.era
    rw [(N.ent_ok e he).2.2.1, N.clock_era]
  · show e.2.id.lamport < nd.r.opId.lamport + 1
    exact Nat.lt_succ_of_le (N.lam_le e he)

end NodeInv

namespace Inv
variable {cuid : Nat → String} {n : Nat} {net : Net} {ap : Nat → List LEnt}

theorem log_mem (I : Inv cuid n net ap) {e : LEnt} (h : e ∈ net.log) :
    ∃ nd, net.nodes[e.1]? = some nd ∧ e.2 ∈ nd.r.buffer.take nd.pushed ∧ e ∈ ap e.1 := by
  have hlt : e.1 < net.nodes.length := by rw [I.len]; exact I.log_auth e h
  refine ⟨net.nodes[e.1], List.getElem?_eq_getElem hlt, ?_⟩
  have N := I.node e.1 _ (List.getElem?_eq_getElem hlt)
  obtain ⟨a, o⟩ := e
  have h1 := N.log_take h
  exact ⟨h1, N.buf_mem (List.mem_of_mem_take h1)⟩

/-- **every delivery extends the receiver's causal sequence**: what the delivered operation refers to (anchor, targets)
    was created by operations the receiver has already applied -/
theorem deliver (I : Inv cuid n net ap) {j : Nat} {nd : Node} {a : Nat} {o : Op} (hj : net.nodes[j]? = some nd)
    (hl : net.log[nd.pulled]? = some (a, o)) (ha : a ≠ j) :
    LCausal (den (ap j) ++ (toL o).toList) ∧ (∀ e ∈ ap j, lkey e ≠ lkey (a, o)) ∧ EntOK cuid n (a, o) := by
  have hmem : (a, o) ∈ net.log := List.mem_of_getElem? hl
  obtain ⟨nda, hna, hbuf, hapa⟩ := I.log_mem hmem
  simp only at hna hbuf hapa
  have Na := I.node a nda hna
  have Nj := I.node j nd hj
  have hent := Na.ent_ok _ hapa
  obtain ⟨han, hcu, hera, hlam, hbody⟩ := hent
  simp only at han hcu hera hlam hbody
  obtain ⟨P, S, hsplit⟩ := List.append_of_mem hapa
  have hc := Na.causal P o S hsplit nd.pulled hl
  have hsubset : P ⊆ ap j := fun e he => Nj.mem_of_log (hc e he)
  -- the keys
  have hkeys : ∀ e ∈ ap j, lkey e ≠ lkey (a, o) := by
    intro e he
    by_cases hej : e.1 = j
    · have := (Nj.ent_ok e he).2.1
      intro e0
      simp only [lkey, Prod.mk.injEq] at e0
      rw [this, hcu, hej] at e0
      have hjn : j < n := by
        have := (List.getElem?_eq_some_iff.mp hj).1
        rw [I.len] at this; exact this
      exact ha (I.distinct j a hjn han e0.2).symm
    · have h1 : e ∈ oth j (ap j) := mem_oth.mpr ⟨he, hej⟩
      rw [Nj.oth_eq] at h1
      obtain ⟨k', hk', hek⟩ := List.mem_take_iff_getElem.mp (mem_oth.mp h1).1
      obtain ⟨hp, hpe⟩ := List.getElem?_eq_some_iff.mp hl
      have := List.pairwise_iff_getElem.mp I.log_keys k' nd.pulled (by omega) hp (by omega)
      rw [hek, hpe] at this
      exact this
  refine ⟨?_, hkeys, ⟨han, hcu, hera, hlam, hbody⟩⟩
  cases hx : toL o with
  | none => simpa using Nj.lc
  | some x =>
    show LCausal (den (ap j) ++ [x])
    -- the author's sequence up to and including `x`
    have hPx : LCausal (den P ++ [x]) := by
      have h0 := Na.lc
      rw [hsplit, den_append, den_cons, hx] at h0
      have h1 : LCausal ((den P ++ [x]) ++ den S) := by simpa using h0
      exact lcausal_prefix _ h1
    have hsub : ∀ q ∈ den P, q ∈ den (ap j) := by
      intro q hq
      obtain ⟨e, he, heq⟩ := mem_den.mp hq
      exact mem_den.mpr ⟨e, hsubset he, heq⟩
    have hkne : ∀ q ∈ den (ap j), q.ts.key ≠ x.ts.key := by
      intro q hq
      obtain ⟨e, he, heq⟩ := mem_den.mp hq
      exact key_ne_of_lkey (e' := (a, o)) (hkeys e he) heq hx
    cases x with
    | ins a' ts vals =>
      have hi := hPx.ins
      have hm : (⟨a', ts, vals⟩ : InsOp) ∈ insOps (den P ++ [.ins a' ts vals]) := mem_insOps (by simp)
      apply lcausal_snoc_ins Nj.lc (hi.delim0 _ hm) (hi.nonempty _ hm) (hi.notHead _ hm) hkne
      rcases lcausal_last_ins hPx with h1 | ⟨q, hq, h2, h3⟩
      · exact Or.inl h1
      · exact Or.inr ⟨q, hsub q hq, h2, h3⟩
    | del tgs ts =>
      apply lcausal_snoc_mod (p := .del tgs ts) Nj.lc rfl
      · intro q hq _ e0
        exact hkne q hq ((cmp_eq_iff _ _).mp e0)
      · intro t ht
        obtain ⟨q, hq, hm⟩ := lcausal_last_targets hPx t ht
        exact ⟨q, hsub q hq, hm⟩
    | upd tgs vs ts =>
      apply lcausal_snoc_mod (p := .upd tgs vs ts) Nj.lc rfl
      · intro q hq _ e0
        exact hkne q hq ((cmp_eq_iff _ _).mp e0)
      · intro t ht
        obtain ⟨q, hq, hm⟩ := lcausal_last_targets hPx t ht
        exact ⟨q, hsub q hq, hm⟩

end Inv

/-! ## 4. the steps keep the invariant -/

theorem execRemoteBase_buffer (r : Replica) (o : Op) : (r.execRemoteBase o).1.buffer = r.buffer := by
  unfold Replica.execRemoteBase; split <;> rfl

theorem execRemoteBase_opId (r : Replica) (o : Op) :
    (r.execRemoteBase o).1.opId = r.opId.syncLamport o.id.lamport := by
  unfold Replica.execRemoteBase; split <;> rfl

theorem sync_cuid (L : OpId) (k : Nat) : (L.syncLamport k).cuid = L.cuid := by
  unfold OpId.syncLamport; split <;> rfl
theorem sync_era (L : OpId) (k : Nat) : (L.syncLamport k).era = L.era := by
  unfold OpId.syncLamport; split <;> rfl
theorem sync_lam (L : OpId) (k : Nat) : L.lamport ≤ (L.syncLamport k).lamport ∧ k ≤ (L.syncLamport k).lamport := by
  unfold OpId.syncLamport; split <;> simp <;> omega

theorem snoc_split {α : Type} {A P S : List α} {e f : α} (h : A ++ [e] = P ++ f :: S) :
    (S = [] ∧ P = A ∧ f = e) ∨ ∃ S', S = S' ++ [e] ∧ A = P ++ f :: S' := by
  rcases List.eq_nil_or_concat S with rfl | ⟨S', s, rfl⟩
  · obtain ⟨h1, h2⟩ := List.append_inj' h rfl
    simp only [List.cons.injEq, and_true] at h2
    exact Or.inl ⟨rfl, h1.symm, h2.symm⟩
  · rw [List.concat_eq_append] at h ⊢
    have h' : A ++ [e] = (P ++ f :: S') ++ [s] := by simpa using h
    obtain ⟨h1, h2⟩ := List.append_inj' h' rfl
    simp only [List.cons.injEq, and_true] at h2
    exact Or.inr ⟨S', by rw [h2], h1⟩

namespace NodeInv
variable {cuid : Nat → String} {n : Nat} {log : List LEnt} {i : Nat} {nd : Node} {A : List LEnt}

/-- a call at node `i` -/
theorem call (N : NodeInv cuid n log i nd A) (hi : i < n) (c : Call) :
    ∃ A', NodeInv cuid n log i { nd with r := (nd.r.call c).1 } A' := by
  rcases call_cases nd.r _ N.st c with ⟨h1, h2, h3, h4, h5⟩ | ⟨o, l', hbuf, hid, hop, hst, hloc⟩
  · refine ⟨A, ?_⟩
    exact {
      st := by
        show (nd.r.call c).1.state = _
        rw [h1]; exact N.st
      lc := N.lc
      pushed_le := by
        show nd.pushed ≤ (nd.r.call c).1.buffer.length
        rw [h2]; exact N.pushed_le
      pulled_le := N.pulled_le
      own_eq := by
        show own i A = (nd.r.call c).1.buffer.map _
        rw [h2]; exact N.own_eq
      oth_eq := N.oth_eq
      log_own := by
        show own i log = ((nd.r.call c).1.buffer.take nd.pushed).map _
        rw [h2]; exact N.log_own
      clock_cuid := by
        show (nd.r.call c).1.opId.cuid = _
        rw [h3]; exact N.clock_cuid
      clock_era := by
        show (nd.r.call c).1.opId.era = _
        rw [h4]; exact N.clock_era
      lam_le := by
        intro e he
        show _ ≤ (nd.r.call c).1.opId.lamport
        exact Nat.le_trans (N.lam_le e he) h5
      ent_ok := N.ent_ok
      buf_sorted := by
        show (nd.r.call c).1.buffer.Pairwise _
        rw [h2]; exact N.buf_sorted
      keys := N.keys
      causal := N.causal }
  · refine ⟨A ++ [(i, o)], ?_⟩
    have hlam : o.id.lamport = nd.r.opId.lamport + 1 := by rw [hid]; rfl
    have hts : o.id.ts = nd.r.opId.next.ts := by rw [hid]
    have hnh : nd.r.opId.next.ts.key ≠ Ts.oldest.key := by
      intro e0
      simp only [Ts.key, OpId.ts, OpId.next, Ts.oldest, Prod.mk.injEq] at e0
      omega
    obtain ⟨hl', hlc, hbody⟩ := local_step N.lc (ts := nd.r.opId.next.ts) rfl hnh N.den_lt hts hloc
    have hnotlog : (i, o) ∉ log := by
      intro hm
      have := N.buf_lam (List.mem_of_mem_take (N.log_take hm))
      omega
    exact {
      st := by
        show (nd.r.call c).1.state = _
        rw [hst, hl', den_snoc, applyAllL_app]
      lc := by
        rw [den_snoc]; exact hlc
      pushed_le := by
        show nd.pushed ≤ (nd.r.call c).1.buffer.length
        rw [hbuf]; simp; exact Nat.le_succ_of_le N.pushed_le
      pulled_le := N.pulled_le
      own_eq := by
        show own i (A ++ [(i, o)]) = (nd.r.call c).1.buffer.map _
        rw [hbuf, own_append, own_single_self, N.own_eq]; simp
      oth_eq := by
        show oth i (A ++ [(i, o)]) = _
        rw [oth_append, oth_single_self, List.append_nil]; exact N.oth_eq
      log_own := by
        show own i log = ((nd.r.call c).1.buffer.take nd.pushed).map _
        rw [hbuf, List.take_append_of_le_length N.pushed_le]; exact N.log_own
      clock_cuid := by
        show (nd.r.call c).1.opId.cuid = _
        rw [hop]; exact N.clock_cuid
      clock_era := by
        show (nd.r.call c).1.opId.era = _
        rw [hop]; exact N.clock_era
      lam_le := by
        intro e he
        show _ ≤ (nd.r.call c).1.opId.lamport
        rw [hop]
        show _ ≤ nd.r.opId.lamport + 1
        rcases List.mem_append.mp he with h | h
        · exact Nat.le_succ_of_le (N.lam_le e h)
        · simp only [List.mem_singleton] at h
          subst h
          exact Nat.le_of_eq hlam
      ent_ok := by
        intro e he
        rcases List.mem_append.mp he with h | h
        · exact N.ent_ok e h
        · simp only [List.mem_singleton] at h
          subst h
          refine ⟨hi, ?_, ?_, ?_, hbody⟩
          · show o.id.cuid = cuid i
            rw [hid]; exact N.clock_cuid
          · show o.id.era = 0
            rw [hid]; exact N.clock_era
          · show 1 ≤ o.id.lamport
            omega
      buf_sorted := by
        show (nd.r.call c).1.buffer.Pairwise _
        rw [hbuf]
        refine List.pairwise_append.mpr ⟨N.buf_sorted, List.pairwise_singleton _ _, ?_⟩
        intro o' ho' o'' ho''
        simp only [List.mem_singleton] at ho''
        subst ho''
        have := N.buf_lam ho'
        omega
      keys := by
        refine List.pairwise_append.mpr ⟨N.keys, List.pairwise_singleton _ _, ?_⟩
        intro e he e' he'
        simp only [List.mem_singleton] at he'
        subst he'
        intro e0
        have := N.lam_le e he
        simp only [lkey, Prod.mk.injEq] at e0
        omega
      causal := by
        intro P o' S hsplit k hk e he
        rcases snoc_split hsplit with ⟨_, _, h3⟩ | ⟨S', _, h2⟩
        · simp only [Prod.mk.injEq, true_and] at h3
          subst h3
          exact absurd (List.mem_of_getElem? hk) hnotlog
        · exact N.causal P o' S' h2 k hk e he }

/-- node `i` pushes its next operation -/
theorem push_self (N : NodeInv cuid n log i nd A) {o : Op} (ho : nd.r.buffer[nd.pushed]? = some o) :
    NodeInv cuid n (log ++ [(i, o)]) i { nd with pushed := nd.pushed + 1 } A := by
  obtain ⟨hp, hpo⟩ := List.getElem?_eq_some_iff.mp ho
  exact {
    st := N.st
    lc := N.lc
    pushed_le := hp
    pulled_le := by
      show nd.pulled ≤ (log ++ [(i, o)]).length
      simp; exact Nat.le_succ_of_le N.pulled_le
    own_eq := N.own_eq
    oth_eq := by
      show oth i A = oth i ((log ++ [(i, o)]).take nd.pulled)
      rw [List.take_append_of_le_length N.pulled_le]; exact N.oth_eq
    log_own := by
      show own i (log ++ [(i, o)]) = (nd.r.buffer.take (nd.pushed + 1)).map _
      rw [own_append, own_single_self, N.log_own, ← List.take_append_getElem hp, hpo]; simp
    clock_cuid := N.clock_cuid
    clock_era := N.clock_era
    lam_le := N.lam_le
    ent_ok := N.ent_ok
    buf_sorted := N.buf_sorted
    keys := N.keys
    causal := by
      intro P o' S hsplit k hk e he
      have hlen : k < (log ++ [(i, o)]).length := (List.getElem?_eq_some_iff.mp hk).1
      by_cases hk' : k < log.length
      · rw [List.getElem?_append_left hk'] at hk
        rw [List.take_append_of_le_length (Nat.le_of_lt hk')]
        exact N.causal P o' S hsplit k hk e he
      · have hk'' : k = log.length := by
          simp only [List.length_append, List.length_cons, List.length_nil] at hlen; omega
        subst hk''
        rw [List.getElem?_append_right (Nat.le_refl _)] at hk
        simp only [Nat.sub_self, List.getElem?_cons_zero, Option.some.injEq, Prod.mk.injEq, true_and] at hk
        subst hk
        rw [List.take_append_of_le_length (Nat.le_refl _), List.take_length]
        have heA : e ∈ A := by rw [hsplit]; simp [he]
        by_cases hei : e.1 = i
        · obtain ⟨a, oe⟩ := e
          simp only at hei
          subst hei
          -- own entries are in lamport order
          have hso : (own a A).Pairwise (fun e e' => e.2.id.lamport < e'.2.id.lamport) := by
            rw [N.own_eq, List.pairwise_map]; exact N.buf_sorted
          rw [hsplit, own_append, own_cons_self] at hso
          have hlt : oe.id.lamport < o.id.lamport :=
            (List.pairwise_append.mp hso).2.2 (a, oe) (mem_own.mpr ⟨he, rfl⟩) (a, o) (by simp)
          have hb := N.mem_buf heA
          obtain ⟨q, hq, hqe⟩ := List.getElem_of_mem hb
          have hqp : q < nd.pushed := by
            by_contra hge
            by_cases hqe' : q = nd.pushed
            · subst hqe'
              rw [hpo] at hqe
              subst hqe
              omega
            · have := List.pairwise_iff_getElem.mp N.buf_sorted nd.pushed q hp hq (by omega)
              rw [hpo, hqe] at this
              omega
          have : (a, oe) ∈ own a log := by
            rw [N.log_own]
            exact List.mem_map.mpr ⟨oe, List.mem_take_iff_getElem.mpr ⟨q, by omega, hqe⟩, rfl⟩
          exact (mem_own.mp this).1
        · have : e ∈ oth i A := mem_oth.mpr ⟨heA, hei⟩
          rw [N.oth_eq] at this
          exact List.mem_of_mem_take (mem_oth.mp this).1 }

/-- another node pushes -/
theorem push_other (N : NodeInv cuid n log i nd A) {a : Nat} (ha : a ≠ i) (o : Op) :
    NodeInv cuid n (log ++ [(a, o)]) i nd A := by
  exact {
    st := N.st
    lc := N.lc
    pushed_le := N.pushed_le
    pulled_le := by simp; exact Nat.le_succ_of_le N.pulled_le
    own_eq := N.own_eq
    oth_eq := by rw [List.take_append_of_le_length N.pulled_le]; exact N.oth_eq
    log_own := by rw [own_append, own_single_ne ha, List.append_nil]; exact N.log_own
    clock_cuid := N.clock_cuid
    clock_era := N.clock_era
    lam_le := N.lam_le
    ent_ok := N.ent_ok
    buf_sorted := N.buf_sorted
    keys := N.keys
    causal := by
      intro P o' S hsplit k hk e he
      have hlen : k < (log ++ [(a, o)]).length := (List.getElem?_eq_some_iff.mp hk).1
      by_cases hk' : k < log.length
      · rw [List.getElem?_append_left hk'] at hk
        rw [List.take_append_of_le_length (Nat.le_of_lt hk')]
        exact N.causal P o' S hsplit k hk e he
      · have hk'' : k = log.length := by
          simp only [List.length_append, List.length_cons, List.length_nil] at hlen; omega
        subst hk''
        rw [List.getElem?_append_right (Nat.le_refl _)] at hk
        simp only [Nat.sub_self, List.getElem?_cons_zero, Option.some.injEq, Prod.mk.injEq] at hk
        exact absurd hk.1 ha }

/-- node `i` skips its own log entry -/
theorem pull_own (N : NodeInv cuid n log i nd A) {o : Op} (hl : log[nd.pulled]? = some (i, o)) :
    NodeInv cuid n log i { nd with pulled := nd.pulled + 1 } A := by
  obtain ⟨hp, hpo⟩ := List.getElem?_eq_some_iff.mp hl
  exact {
    st := N.st
    lc := N.lc
    pushed_le := N.pushed_le
    pulled_le := hp
    own_eq := N.own_eq
    oth_eq := by
      show oth i A = oth i (log.take (nd.pulled + 1))
      rw [← List.take_append_getElem hp, hpo, oth_append, oth_single_self, List.append_nil]; exact N.oth_eq
    log_own := N.log_own
    clock_cuid := N.clock_cuid
    clock_era := N.clock_era
    lam_le := N.lam_le
    ent_ok := N.ent_ok
    buf_sorted := N.buf_sorted
    keys := N.keys
    causal := N.causal }


/-- node `i` applies the next log entry, written by another node -/
theorem pull_other (N : NodeInv cuid n log i nd A) {a : Nat} {o : Op} (hl : log[nd.pulled]? = some (a, o)) (ha : a ≠ i)
    (hlc : LCausal (den A ++ (toL o).toList)) (hk : ∀ e ∈ A, lkey e ≠ lkey (a, o)) (hent : EntOK cuid n (a, o)) :
    NodeInv cuid n log i { nd with r := (nd.r.execRemoteBase o).1, pulled := nd.pulled + 1 } (A ++ [(a, o)]) := by
  obtain ⟨hp, hpo⟩ := List.getElem?_eq_some_iff.mp hl
  exact {
    st := by
      show (nd.r.execRemoteBase o).1.state = _
      rw [exec_toL nd.r _ o N.st hent.2.2.2.2, den_snoc, applyAllL_app]
    lc := by
      rw [den_snoc]; exact hlc
    pushed_le := by
      show nd.pushed ≤ (nd.r.execRemoteBase o).1.buffer.length
      rw [execRemoteBase_buffer]; exact N.pushed_le
    pulled_le := hp
    own_eq := by
      show own i (A ++ [(a, o)]) = (nd.r.execRemoteBase o).1.buffer.map _
      rw [execRemoteBase_buffer, own_append, own_single_ne ha, List.append_nil]; exact N.own_eq
    oth_eq := by
      show oth i (A ++ [(a, o)]) = oth i (log.take (nd.pulled + 1))
      rw [← List.take_append_getElem hp, hpo, oth_append, oth_append, N.oth_eq]
    log_own := by
      show own i log = ((nd.r.execRemoteBase o).1.buffer.take nd.pushed).map _
      rw [execRemoteBase_buffer]; exact N.log_own
    clock_cuid := by
      show (nd.r.execRemoteBase o).1.opId.cuid = _
      rw [execRemoteBase_opId, sync_cuid]; exact N.clock_cuid
    clock_era := by
      show (nd.r.execRemoteBase o).1.opId.era = _
      rw [execRemoteBase_opId, sync_era]; exact N.clock_era
    lam_le := by
      intro e he
      show _ ≤ (nd.r.execRemoteBase o).1.opId.lamport
      rw [execRemoteBase_opId]
      have := sync_lam nd.r.opId o.id.lamport
      rcases List.mem_append.mp he with h | h
      · exact Nat.le_trans (N.lam_le e h) this.1
      · simp only [List.mem_singleton] at h
        subst h
        exact this.2
    ent_ok := by
      intro e he
      rcases List.mem_append.mp he with h | h
      · exact N.ent_ok e h
      · simp only [List.mem_singleton] at h
        subst h
        exact hent
    buf_sorted := by
      show (nd.r.execRemoteBase o).1.buffer.Pairwise _
      rw [execRemoteBase_buffer]; exact N.buf_sorted
    keys := by
      refine List.pairwise_append.mpr ⟨N.keys, List.pairwise_singleton _ _, ?_⟩
      intro e he e' he'
      simp only [List.mem_singleton] at he'
      subst he'
      exact hk e he
    causal := by
      intro P o' S hsplit k hk e he
      rcases snoc_split hsplit with ⟨_, _, h3⟩ | ⟨S', _, h2⟩
      · simp only [Prod.mk.injEq] at h3
        exact absurd h3.1.symm ha
      · exact N.causal P o' S' h2 k hk e he }

end NodeInv

theorem getElem?_set_some {α : Type} {l : List α} {i j : Nat} {a b : α} (h : (l.set i a)[j]? = some b) :
    (j = i ∧ b = a) ∨ (j ≠ i ∧ l[j]? = some b) := by
  rw [List.getElem?_set] at h
  by_cases hij : i = j
  · subst hij
    rw [if_pos rfl] at h
    split at h
    · simp only [Option.some.injEq] at h
      exact Or.inl ⟨rfl, h.symm⟩
    · cases h
  · rw [if_neg hij] at h
    exact Or.inr ⟨fun e => hij e.symm, h⟩

theorem lcausal_nil : LCausal [] where
  ins := ⟨by simp [insOps], by simp [insOps], by simp [insOps], by simp [insOps], by simp [insOps]⟩
  distinct := List.Pairwise.nil
  targeted := by intro i hi; simp at hi

theorem inv_init {cuid : Nat → String} {n : Nat} (hc : CuidsDistinct cuid n) :
    Inv cuid n (Net.init cuid n) (fun _ => []) := by
  refine ⟨hc, by simp [Net.init], ?_, by simp [Net.init], by simp [Net.init]⟩
  intro i nd hi
  simp only [Net.init, List.getElem?_map] at hi
  cases hr : (List.range n)[i]? with
  | none => rw [hr] at hi; cases hi
  | some k =>
    rw [hr] at hi
    obtain ⟨hlt, hk⟩ := List.getElem?_eq_some_iff.mp hr
    simp only [List.getElem_range] at hk
    subst hk
    simp only [Option.map_some, Option.some.injEq] at hi
    subst hi
    exact {
      st := rfl
      lc := lcausal_nil
      pushed_le := Nat.le_refl _
      pulled_le := Nat.le_refl _
      own_eq := rfl
      oth_eq := rfl
      log_own := rfl
      clock_cuid := rfl
      clock_era := rfl
      lam_le := by intro e he; cases he
      ent_ok := by intro e he; cases he
      buf_sorted := List.Pairwise.nil
      keys := List.Pairwise.nil
      causal := by
        intro P o S h
        exact absurd h (by simp) }

namespace Inv
variable {cuid : Nat → String} {n : Nat} {net : Net} {ap : Nat → List LEnt}

theorem lt_of_node (I : Inv cuid n net ap) {i : Nat} {nd : Node} (hi : net.nodes[i]? = some nd) : i < n := by
  have := (List.getElem?_eq_some_iff.mp hi).1
  rw [I.len] at this; exact this

theorem call (I : Inv cuid n net ap) {i : Nat} {nd : Node} (c : Call) (hi : net.nodes[i]? = some nd) :
    ∃ ap', Inv cuid n ⟨net.nodes.set i { nd with r := (nd.r.call c).1 }, net.log⟩ ap' := by
  obtain ⟨A', hA'⟩ := (I.node i nd hi).call (I.lt_of_node hi) c
  refine ⟨Function.update ap i A', I.distinct, by simp [I.len], ?_, I.log_auth, I.log_keys⟩
  intro j nd' hj
  rcases getElem?_set_some hj with ⟨rfl, rfl⟩ | ⟨hne, hj'⟩
  · rw [Function.update_self]; exact hA'
  · rw [Function.update_of_ne hne]; exact I.node j nd' hj'

theorem push (I : Inv cuid n net ap) {i : Nat} {nd : Node} {o : Op} (hi : net.nodes[i]? = some nd)
    (ho : nd.r.buffer[nd.pushed]? = some o) :
    Inv cuid n ⟨net.nodes.set i { nd with pushed := nd.pushed + 1 }, net.log ++ [(i, o)]⟩ ap := by
  have Ni := I.node i nd hi
  have hin := I.lt_of_node hi
  obtain ⟨hp, hpo⟩ := List.getElem?_eq_some_iff.mp ho
  have hob : o ∈ nd.r.buffer := List.mem_of_getElem? ho
  refine ⟨I.distinct, by simp [I.len], ?_, ?_, ?_⟩
  · intro j nd' hj
    rcases getElem?_set_some hj with ⟨rfl, rfl⟩ | ⟨hne, hj'⟩
    · exact Ni.push_self ho
    · exact (I.node j nd' hj').push_other (fun e => hne e.symm) o
  · intro e he
    rcases List.mem_append.mp he with h | h
    · exact I.log_auth e h
    · simp only [List.mem_singleton] at h
      subst h
      exact hin
  · refine List.pairwise_append.mpr ⟨I.log_keys, List.pairwise_singleton _ _, ?_⟩
    intro e he e' he'
    simp only [List.mem_singleton] at he'
    subst he'
    obtain ⟨nde, hne, hbe, hae⟩ := I.log_mem he
    intro e0
    simp only [lkey, Prod.mk.injEq] at e0
    by_cases hei : e.1 = i
    · obtain ⟨a, oe⟩ := e
      simp only at hei
      subst hei
      have h1 := Ni.log_take he
      obtain ⟨q, hq, hqe⟩ := List.mem_take_iff_getElem.mp h1
      have := List.pairwise_iff_getElem.mp Ni.buf_sorted q nd.pushed (by omega) hp (by omega)
      rw [hqe, hpo] at this
      simp only at e0
      omega
    · have h1 := ((I.node e.1 nde hne).ent_ok e hae).2.1
      have h2 := (Ni.ent_ok _ (Ni.buf_mem hob)).2.1
      simp only at h2
      rw [h1, h2] at e0
      exact hei (I.distinct e.1 i (I.log_auth e he) hin e0.2)

theorem pull (I : Inv cuid n net ap) {i : Nat} {nd : Node} {a : Nat} {o : Op} (hi : net.nodes[i]? = some nd)
    (hl : net.log[nd.pulled]? = some (a, o)) :
    ∃ ap', Inv cuid n ⟨net.nodes.set i { nd with r := if a = i then nd.r else (nd.r.execRemoteBase o).1,
                                                  pulled := nd.pulled + 1 }, net.log⟩ ap' := by
  have Ni := I.node i nd hi
  by_cases ha : a = i
  · subst ha
    refine ⟨ap, I.distinct, by simp [I.len], ?_, I.log_auth, I.log_keys⟩
    intro j nd' hj
    rcases getElem?_set_some hj with ⟨rfl, rfl⟩ | ⟨hne, hj'⟩
    · simp only [if_true]
      exact Ni.pull_own hl
    · exact I.node j nd' hj'
  · obtain ⟨hlc, hk, hent⟩ := I.deliver hi hl ha
    refine ⟨Function.update ap i (ap i ++ [(a, o)]), I.distinct, by simp [I.len], ?_, I.log_auth, I.log_keys⟩
    intro j nd' hj
    rcases getElem?_set_some hj with ⟨rfl, rfl⟩ | ⟨hne, hj'⟩
    · rw [Function.update_self]
      simp only [if_neg ha]
      exact Ni.pull_other hl ha hlc hk hent
    · rw [Function.update_of_ne hne]; exact I.node j nd' hj'

theorem step (I : Inv cuid n net ap) {net' : Net} (h : Step net net') : ∃ ap', Inv cuid n net' ap' := by
  cases h with
  | call i nd c hi => exact I.call c hi
  | push i nd o hi ho => exact ⟨ap, I.push hi ho⟩
  | pull i nd a o hi hl => exact I.pull hi hl

end Inv

/-- **the invariant holds in every reachable state** -/
theorem inv_reach {cuid : Nat → String} {n : Nat} {net : Net} (h : Reach cuid n net) : ∃ ap, Inv cuid n net ap := by
  induction h with
  | init hc => exact ⟨_, inv_init hc⟩
  | step _ hs ih =>
    obtain ⟨ap, I⟩ := ih
    exact I.step hs


/-! ## 5. the theorems -/

/-- priority 1: every node's state is what the remote application of the operations it has applied gives, and that
    sequence is causal -/
theorem lnet_nodes_applied {cuid : Nat → String} {n : Nat} : ∀ net, Reach cuid n net →
    ∃ applied : Nat → List LOp, ∀ i nd, net.nodes[i]? = some nd →
      nd.r.state = .list (Rga.empty.applyAllL (applied i)) ∧ LCausal (applied i) := by
  intro net h
  obtain ⟨ap, I⟩ := inv_reach h
  refine ⟨fun i => den (ap i), ?_⟩
  intro i nd hi
  have N := I.node i nd hi
  exact ⟨N.st, N.lc⟩

/-- every delivery the system performs extends the receiver's causal sequence, and IS the remote application
    `Rga.applyL` of the operation it denotes (nothing for an insert of zero values) — no hypothesis about causality -/
theorem lnet_deliveries_causal {cuid : Nat → String} {n : Nat} : ∀ net, Reach cuid n net →
    ∃ applied : Nat → List LOp, ∀ (i : Nat) (nd : Node) (a : Nat) (o : Op), net.nodes[i]? = some nd →
      net.log[nd.pulled]? = some (a, o) → a ≠ i →
      nd.r.state = .list (Rga.empty.applyAllL (applied i)) ∧ LCausal (applied i ++ (toL o).toList) ∧
      (nd.r.execRemoteBase o).1.state = .list (Rga.empty.applyAllL (applied i ++ (toL o).toList)) := by
  intro net h
  obtain ⟨ap, I⟩ := inv_reach h
  refine ⟨fun i => den (ap i), ?_⟩
  intro i nd a o hi hl ha
  have N := I.node i nd hi
  obtain ⟨hlc, _, hent⟩ := I.deliver hi hl ha
  refine ⟨N.st, hlc, ?_⟩
  rw [exec_toL nd.r _ o N.st hent.2.2.2.2, applyAllL_app]

theorem map_snd_pair (i : Nat) (l : List Op) : (l.map (fun o => ((i, o) : LEnt))).map (·.2) = l := by
  induction l with
  | nil => rfl
  | cons x xs ih => simp only [List.map_cons, ih]

namespace Inv
variable {cuid : Nat → String} {n : Nat} {net : Net} {ap : Nat → List LEnt}

/-- the ghost sequence of a node is a permutation of the operations it has applied -/
theorem den_perm (I : Inv cuid n net ap) {i : Nat} {nd : Node} (hi : net.nodes[i]? = some nd) :
    (den (ap i)).Perm ((appliedOps net.log i nd).filterMap toL) := by
  have N := I.node i nd hi
  have h1 : (ap i).Perm (own i (ap i) ++ oth i (ap i)) := (List.filter_append_perm _ _).symm
  rw [N.own_eq, N.oth_eq] at h1
  have h2 := (h1.map (·.2)).filterMap toL
  have e1 : ((ap i).map (·.2)).filterMap toL = den (ap i) := by
    simp only [den, List.filterMap_map]; rfl
  have e2 : (nd.r.buffer.map (fun o => (i, o)) ++ oth i (net.log.take nd.pulled)).map (·.2) =
      appliedOps net.log i nd := by
    simp only [appliedOps, List.map_append, map_snd_pair]
  rw [e1, e2] at h2
  exact h2

end Inv

/-- priority 1, tied to the state: the causal sequence of a node is a permutation of what the operations it HAS (own buffer
    and consumed log entries of the others, `appliedOps`) denote -/
theorem lnet_nodes_applied_ops {cuid : Nat → String} {n : Nat} : ∀ net, Reach cuid n net →
    ∃ applied : Nat → List LOp, ∀ i nd, net.nodes[i]? = some nd →
      nd.r.state = .list (Rga.empty.applyAllL (applied i)) ∧ LCausal (applied i) ∧
      (applied i).Perm ((appliedOps net.log i nd).filterMap toL) := by
  intro net h
  obtain ⟨ap, I⟩ := inv_reach h
  refine ⟨fun i => den (ap i), ?_⟩
  intro i nd hi
  have N := I.node i nd hi
  exact ⟨N.st, N.lc, I.den_perm hi⟩

/-- THE theorem: two nodes that have the same operations hold the SAME list state — same order, values, value
    timestamps, tombstones, Size -/
theorem lnet_same_operations_same_state {cuid : Nat → String} {n : Nat} : ∀ net, Reach cuid n net →
    ∀ i j (hi : i < net.nodes.length) (hj : j < net.nodes.length),
    SameOps net i j → net.nodes[i].r.state = net.nodes[j].r.state := by
  intro net h i j hi hj hsame
  obtain ⟨ap, I⟩ := inv_reach h
  have hi' := List.getElem?_eq_getElem hi
  have hj' := List.getElem?_eq_getElem hj
  obtain ⟨ni, nj, hni, hnj, hperm⟩ := hsame
  rw [hi'] at hni
  rw [hj'] at hnj
  simp only [Option.some.injEq] at hni hnj
  subst hni hnj
  have Ni := I.node i _ hi'
  have Nj := I.node j _ hj'
  have hp : (den (ap i)).Perm (den (ap j)) :=
    ((I.den_perm hi').trans (hperm.filterMap toL)).trans (I.den_perm hj').symm
  rw [Ni.st, Nj.st, rga_full_converge_state _ _ hp Ni.lc Nj.lc]

/-- a node that has pushed its whole buffer and consumed the whole log has applied exactly the operations of the log -/
theorem appliedOps_caught_up {cuid : Nat → String} {n : Nat} {net : Net} (h : Reach cuid n net) {k : Nat}
    (hk : k < net.nodes.length) (q1 : net.nodes[k].pushed = net.nodes[k].r.buffer.length)
    (q2 : net.nodes[k].pulled = net.log.length) : (appliedOps net.log k net.nodes[k]).Perm (net.log.map (·.2)) := by
  obtain ⟨ap, I⟩ := inv_reach h
  have hk' := List.getElem?_eq_getElem hk
  have N := I.node k _ hk'
  have h1 : (own k net.log ++ oth k net.log).Perm net.log := List.filter_append_perm _ _
  have h2 := h1.map (·.2)
  rw [N.log_own, q1, List.take_length] at h2
  have e : appliedOps net.log k net.nodes[k] =
      (net.nodes[k].r.buffer.map (fun o => (k, o)) ++ oth k net.log).map (·.2) := by
    simp only [appliedOps, q2, List.take_length, List.map_append, map_snd_pair]
  rw [e]
  exact h2

/-- two nodes that have pushed everything they issued and consumed the whole log have the same operations (whatever the
    other nodes still hold back) -/
theorem sameOps_of_caught_up {cuid : Nat → String} {n : Nat} {net : Net} (h : Reach cuid n net) {i j : Nat}
    (hi : i < net.nodes.length) (hj : j < net.nodes.length)
    (pi : net.nodes[i].pushed = net.nodes[i].r.buffer.length) (li : net.nodes[i].pulled = net.log.length)
    (pj : net.nodes[j].pushed = net.nodes[j].r.buffer.length) (lj : net.nodes[j].pulled = net.log.length) :
    SameOps net i j :=
  ⟨_, _, List.getElem?_eq_getElem hi, List.getElem?_eq_getElem hj,
    (appliedOps_caught_up h hi pi li).trans (appliedOps_caught_up h hj pj lj).symm⟩

/-- at quiescence every node has applied the whole log -/
theorem sameOps_of_quiescent {cuid : Nat → String} {n : Nat} {net : Net} (h : Reach cuid n net) (hq : Quiescent net)
    {i j : Nat} (hi : i < net.nodes.length) (hj : j < net.nodes.length) : SameOps net i j := by
  obtain ⟨a1, a2⟩ := hq _ (List.getElem_mem hi)
  obtain ⟨b1, b2⟩ := hq _ (List.getElem_mem hj)
  exact sameOps_of_caught_up h hi hj a1 a2 b1 b2

/-- corollary: at quiescence (every buffer completely pushed, every node has consumed the whole log) all nodes hold the
    same list state -/
theorem lnet_quiescent_converged {cuid : Nat → String} {n : Nat} : ∀ net, Reach cuid n net → Quiescent net →
    ∀ i j (hi : i < net.nodes.length) (hj : j < net.nodes.length),
    net.nodes[i].r.state = net.nodes[j].r.state := by
  intro net h hq i j hi hj
  exact lnet_same_operations_same_state net h i j hi hj (sameOps_of_quiescent h hq hi hj)

/-- in every reachable state the stored Size of every node is the number of its live elements -/
theorem lnet_size_is_live_count {cuid : Nat → String} {n : Nat} : ∀ net, Reach cuid n net →
    ∀ nd ∈ net.nodes, ∃ l, nd.r.state = .list l ∧ l.size = liveCount l.nodes ∧ l.ids.Nodup := by
  intro net h nd hnd
  obtain ⟨ap, I⟩ := inv_reach h
  obtain ⟨i, hi⟩ := List.mem_iff_getElem?.mp hnd
  have N := I.node i nd hi
  exact ⟨_, N.st, size_eq_liveCount _ N.lc, ids_nodup N.lc⟩

/-! ## 6. non-vacuity: three nodes, nine calls, a complete run to quiescence

Node 0 inserts `[1, 2]`; everybody pulls it.  Then, CONCURRENTLY: nodes 1 and 2 both insert at position 1 (`"b"`, `"c"`:
same anchor — node 2's operation has the larger client identifier and goes first); node 0 deletes its element `2`; node 1
deletes the element `1` that node 0 inserted while node 2 updates it (the delete wins); node 0 issues an insert at position 5
(refused: out of range); node 1 issues an insert of ZERO values (accepted, queued, denotes nothing); node 2 issues a map call
(refused: wrong datatype).  Everything is pushed (node 2 first), every node pulls the whole log. -/
namespace Ex

def cu : Nat → String
  | 0 => "a" | 1 => "b" | _ => "c"

def acts : List Act := [
  .call 0 (.linsert 0 [.num 1, .num 2]),
  .push 0, .pull 0, .pull 1, .pull 2,
  .call 1 (.linsert 1 [.str "b"]),
  .call 2 (.linsert 1 [.str "c"]),
  .call 0 (.ldelete 1),
  .call 1 (.ldelete 0),
  .call 2 (.lupdate 0 [.str "u"]),
  .call 0 (.linsert 5 [.num 9]),
  .call 1 (.linsert 0 []),
  .call 2 (.mput "k" (.num 1)),
  .push 2, .push 1, .push 0, .push 1, .push 2, .push 1,
  .pull 0, .pull 0, .pull 0, .pull 0, .pull 0, .pull 0,
  .pull 1, .pull 1, .pull 1, .pull 1, .pull 1, .pull 1,
  .pull 2, .pull 2, .pull 2, .pull 2, .pull 2, .pull 2]

def finalNet : Net := ((Net.init cu 3).run acts).getD ⟨[], []⟩

theorem run_isSome : ((Net.init cu 3).run acts).isSome = true := by decide

theorem run_final : (Net.init cu 3).run acts = some finalNet := by
  have h := run_isSome
  unfold finalNet
  cases hr : (Net.init cu 3).run acts with
  | none => rw [hr] at h; cases h
  | some x => rfl

theorem cu_distinct : CuidsDistinct cu 3 := by
  intro i j hi hj h
  have h1 : i = 0 ∨ i = 1 ∨ i = 2 := by omega
  have h2 : j = 0 ∨ j = 1 ∨ j = 2 := by omega
  rcases h1 with rfl | rfl | rfl <;> rcases h2 with rfl | rfl | rfl <;> first | rfl | (exact absurd h (by decide))

theorem reach_final : Reach cu 3 finalNet := reach_run acts (.init cu_distinct) run_final

theorem quiescent_final : Quiescent finalNet := by
  unfold Quiescent
  decide

theorem len_final : finalNet.nodes.length = 3 := by decide

/-- seven operations went through the log (the two refused calls and the wrong-datatype call queued nothing; the insert of
    zero values did) -/
example : finalNet.log.length = 7 ∧ finalNet.log.map (·.1) = [0, 2, 1, 0, 1, 2, 1] := by decide

/-- `lnet_quiescent_converged` instantiated -/
example : (finalNet.nodes[0]'(by rw [len_final]; decide)).r.state = (finalNet.nodes[1]'(by rw [len_final]; decide)).r.state :=
  lnet_quiescent_converged finalNet reach_final quiescent_final 0 1 (by decide) (by decide)
example : (finalNet.nodes[1]'(by rw [len_final]; decide)).r.state = (finalNet.nodes[2]'(by rw [len_final]; decide)).r.state :=
  lnet_quiescent_converged finalNet reach_final quiescent_final 1 2 (by decide) (by decide)

def a0 : Ts := ⟨0, 1, "a", 0⟩
def a1 : Ts := ⟨0, 1, "a", 1⟩

/-- … and the common state: order, values, value timestamps, tombstones, Size -/
def common : DState := .list
  ⟨[⟨a0, none, ⟨0, 3, "b", 0⟩⟩, ⟨⟨0, 2, "c", 0⟩, some (.str "c"), ⟨0, 2, "c", 0⟩⟩,
    ⟨⟨0, 2, "b", 0⟩, some (.str "b"), ⟨0, 2, "b", 0⟩⟩, ⟨a1, none, ⟨0, 2, "a", 0⟩⟩], 2⟩

example : (finalNet.nodes[0]'(by rw [len_final]; decide)).r.state = common := by rfl
example : (finalNet.nodes[1]'(by rw [len_final]; decide)).r.state = common := by rfl
example : (finalNet.nodes[2]'(by rw [len_final]; decide)).r.state = common := by rfl

/-- `lnet_nodes_applied` instantiated: the common state is the remote application of a causal sequence -/
example : ∃ ops : List LOp, common = .list (Rga.empty.applyAllL ops) ∧ LCausal ops := by
  obtain ⟨applied, h⟩ := lnet_nodes_applied finalNet reach_final
  obtain ⟨h1, h2⟩ := h 0 _ (List.getElem?_eq_getElem (by rw [len_final]; decide))
  exact ⟨applied 0, h1, h2⟩

/-- why `toL` (and so `den`) drops inserts of zero values: `LCausal` does not admit them (`InsCausal.nonempty`), while the
    model accepts the call `linsert pos []` and queues the operation (seventh log entry above) -/
example : ¬ LCausal [.ins Ts.oldest ⟨0, 4, "b", 0⟩ []] := fun h =>
  h.ins.nonempty ⟨Ts.oldest, ⟨0, 4, "b", 0⟩, []⟩ (by simp [insOps, toIns]) rfl
example : ((Replica.new .list "b" false).call (.linsert 0 [])).1.buffer =
    [⟨⟨0, 1, "b", 1⟩, .insert 0 (some Ts.oldest) []⟩] := by rfl

/-- a state in the middle of the run: nodes 0 and 1 have pushed everything and consumed the whole log, node 2 has not
    consumed anything of the second round -/
def midNet : Net := ((Net.init cu 3).run (acts.take 31)).getD ⟨[], []⟩
theorem mid_isSome : ((Net.init cu 3).run (acts.take 31)).isSome = true := by decide
theorem run_mid : (Net.init cu 3).run (acts.take 31) = some midNet := by
  have h := mid_isSome
  unfold midNet
  cases hr : (Net.init cu 3).run (acts.take 31) with
  | none => rw [hr] at h; cases h
  | some x => rfl
theorem reach_mid : Reach cu 3 midNet := reach_run (acts.take 31) (.init cu_distinct) run_mid
theorem len_mid : midNet.nodes.length = 3 := by decide

example : ¬ Quiescent midNet := by
  unfold Quiescent
  decide

/-- `lnet_same_operations_same_state` instantiated in this NON-quiescent state -/
example : (midNet.nodes[0]'(by rw [len_mid]; decide)).r.state = (midNet.nodes[1]'(by rw [len_mid]; decide)).r.state :=
  lnet_same_operations_same_state midNet reach_mid 0 1 (by decide) (by decide)
    (sameOps_of_caught_up reach_mid (by decide) (by decide) (by decide) (by decide) (by decide) (by decide))

/-- … while node 2 (which has not yet seen the concurrent insert of node 1, the deletes and the empty insert) differs -/
example : (midNet.nodes[2]'(by rw [len_mid]; decide)).r.state = .list
    ⟨[⟨a0, some (.str "u"), ⟨0, 3, "c", 0⟩⟩, ⟨⟨0, 2, "c", 0⟩, some (.str "c"), ⟨0, 2, "c", 0⟩⟩,
      ⟨a1, some (.num 2), a1⟩], 3⟩ := by rfl

end Ex

end Orda.LNet
