/-
Convergence of the JSON document for histories that MIX object operations (`DC.ObjOp`: put / del on object
nodes) and array operations (`DA.AOp`: ins / del / upd on array nodes, multi-target, nested values).
Everything lives in namespace `Orda.DM`.

Contents
* A. the abstract operations `DC.absOp` (object) and `DA.absE` (elementary array operation) commute on an
  abstraction in which the object parent and the array parent are different nodes and the new identifiers /
  buried nodes of one operation are away from the other (`absE_absOp`); on `DC.abs d` these side conditions
  follow from `OpOK`, `EOK`, `Doc.WF` and disjoint new identifiers (`absE_absOp_doc`).
* B. applicability of one kind of operation survives an operation of the other kind (`eok_after_op`,
  `opOK_after_E`); **`oe_comm`**: an object operation and an elementary array operation commute up to `DC.Sim`.
* C. `ceq_absOp`, `asim_congr_op`: object operations respect `DA.ASim`.
* D. `XOp` (an object operation or an ELEMENTARY array operation), `GoodX`, `x_converge` (`DC.perm_fold_equiv`).
* E. batches: `flatX`, `applyAllD_flat`; `goodD_perm`; **`mixed_converge`** (as stated in the task: `ASim` and equal
  key-sorted views); F. `DM.Ex`: non-vacuity.
-/
import Orda.Proofs.DocConv
import Orda.Proofs.DocArr
set_option linter.unusedSimpArgs false
set_option linter.unusedVariables false
namespace Orda.DM
open Orda Orda.DC Orda.DA

/-- a remote document operation -/
inductive DOp where
  | o (x : ObjOp)
  | a (x : AOp)

def applyD (d : Doc) : DOp → Doc
  | .o x => applyOp d x
  | .a x => applyA d x
def applyAllD (d : Doc) (l : List DOp) : Doc := l.foldl applyD d

def objs (l : List DOp) : List ObjOp := l.filterMap (fun | .o x => some x | _ => none)
def arrs (l : List DOp) : List AOp := l.filterMap (fun | .a x => some x | _ => none)

/-- the new node identifiers an object operation brings (those of the value of a put) -/
def oIds (x : ObjOp) : List Ts := ids (nodesOf x)
/-- … and an elementary array operation -/
def eIds (e : EOp) : List Ts := ids (nodesE e)

/-- every operation is applicable in the start document in any order (the hypotheses of the two existing theorems) and
    operations of the two kinds do not clash: disjoint new identifiers, distinguishable timestamps -/
def GoodD (d : Doc) (l : List DOp) : Prop :=
  Good d (objs l) ∧ GoodE d ((arrs l).flatMap flat) ∧ (∀ op ∈ arrs l, BatchOK op) ∧
  (∀ x ∈ objs l, ∀ e ∈ (arrs l).flatMap flat,
      (∀ c, c ∈ oIds x → c ∈ eIds e → False) ∧ x.ts.cmp e.ts ≠ .eq)

/-! ## A. the abstract operations of the two kinds commute -/

theorem insSlots_key (A : Abs) (p an : Ts) (cs : List Ts) : (insSlots A p an cs).key = A.key := by
  unfold insSlots
  cases A.shape p with
  | none => rfl
  | some x =>
    obtain ⟨par, sh⟩ := x
    cases sh with
    | elem v => rfl
    | obj => rfl
    | arr E =>
      simp only
      cases insertAfterId (fun (e : Ent) => e.1) an (cs.map newEnt) E with
      | none => rfl
      | some E' => rfl

theorem applySlot_key (A : Abs) (p tg : Ts) (f : Ts → KeySt → SStep) : (applySlot A p tg f).key = A.key := by
  unfold applySlot
  cases A.shape p with
  | none => rfl
  | some x =>
    obtain ⟨par, sh⟩ := x
    cases sh with
    | elem v => rfl
    | obj => rfl
    | arr E =>
      simp only
      cases E.find? (fun e => e.1 = tg) with
      | none => rfl
      | some e => simp only; rw [kill_key]; rfl

/-- an array operation does not touch the key states of the nodes it does not create -/
theorem absE_key (e : EOp) (A : Abs) {q : Ts} (hq : q ∉ ids (nodesE e)) (k : String) :
    (absE e A).key q k = A.key q k := by
  have hN := (supp_abs_mk (nodesE e)) q hq
  have hu : (union A (abs ⟨nodesE e⟩)).key q k = A.key q k := by simp [union, hN.2.2.1 k]
  cases e with
  | ins p an ts vs => simp only [absE]; rw [insSlots_key]; exact hu
  | del1 p tg t => simp only [absE]; rw [applySlot_key]
  | upd1 p tg t v => simp only [absE]; rw [applySlot_key]; exact hu

theorem union_setKey {A N : Abs} {S : Ts → Prop} (hN : Supp N S) {p : Ts} (hp : ¬ S p) (k : String)
    (st : Option KeySt) (ds : Int) : union (setKey A p k st ds) N = setKey (union A N) p k st ds := by
  obtain ⟨_, _, h3, _⟩ := hN p hp
  apply Abs.ext'
  · intro c; rfl
  · intro c; rfl
  · intro c k'
    simp only [union, setKey]
    by_cases h1 : c = p ∧ k' = k
    · obtain ⟨rfl, rfl⟩ := h1
      simp [h3]
    · simp [h1]
  · intro c
    simp only [union, setKey]
    by_cases h1 : c = p <;> simp [h1]; omega

theorem setArr_setKey (B : Abs) {p po : Ts} (h : po ≠ p) (par : Option Ts) (E : List Ent) (s : Int) (k : String)
    (st : Option KeySt) (ds : Int) :
    setArr (setKey B po k st ds) p par E s = setKey (setArr B p par E s) po k st ds := by
  apply Abs.ext'
  · intro c; rfl
  · intro c; rfl
  · intro c k'; rfl
  · intro c
    simp only [setArr, setKey]
    by_cases h1 : c = p
    · subst h1
      have : ¬ c = po := fun e => h e.symm
      simp [this]
    · simp [h1]

theorem applySlot_setKey (B : Abs) {p po : Ts} (h : po ≠ p) (tg : Ts) (f : Ts → KeySt → SStep) (k : String)
    (st : Option KeySt) (ds : Int) :
    applySlot (setKey B po k st ds) p tg f = setKey (applySlot B p tg f) po k st ds := by
  have hsz : (setKey B po k st ds).size p = B.size p := by
    have : ¬ p = po := fun e => h e.symm
    simp [setKey, this]
  unfold applySlot
  rw [hsz]
  show (match B.shape p with
    | some (par, .arr E) =>
      match E.find? (fun (e : Ent) => e.1 = tg) with
      | some e =>
        kill (setArr (setKey B po k st ds) p par (setEntry tg (f e.2.1 e.2.2).c (f e.2.1 e.2.2).st E)
          (B.size p + (f e.2.1 e.2.2).dsize)) (f e.2.1 e.2.2).bury
      | none => setKey B po k st ds
    | _ => setKey B po k st ds) = _
  cases B.shape p with
  | none => rfl
  | some x =>
    obtain ⟨par, sh⟩ := x
    cases sh with
    | elem v => rfl
    | obj => rfl
    | arr E =>
      simp only
      cases E.find? (fun e => e.1 = tg) with
      | none => rfl
      | some e => simp only; rw [setArr_setKey B h, kill_setKey]

theorem insSlots_setKey (B : Abs) {p po : Ts} (h : po ≠ p) (an : Ts) (cs : List Ts) (k : String)
    (st : Option KeySt) (ds : Int) :
    insSlots (setKey B po k st ds) p an cs = setKey (insSlots B p an cs) po k st ds := by
  have hsz : (setKey B po k st ds).size p = B.size p := by
    have : ¬ p = po := fun e => h e.symm
    simp [setKey, this]
  unfold insSlots
  rw [hsz]
  show (match B.shape p with
    | some (par, .arr E) =>
      match insertAfterId (fun (e : Ent) => e.1) an (cs.map newEnt) E with
      | some E' => setArr (setKey B po k st ds) p par E' (B.size p + cs.length)
      | none => setKey B po k st ds
    | _ => setKey B po k st ds) = _
  cases B.shape p with
  | none => rfl
  | some x =>
    obtain ⟨par, sh⟩ := x
    cases sh with
    | elem v => rfl
    | obj => rfl
    | arr E =>
      simp only
      cases insertAfterId (fun (e : Ent) => e.1) an (cs.map newEnt) E with
      | none => rfl
      | some E' => simp only; rw [setArr_setKey B h]

theorem applySlot_kill {B : Abs} {p : Ts} {par : Option Ts} {E : List Ent} (hB : B.shape p = some (par, .arr E))
    (x : Option Ts) (tg : Ts) (f : Ts → KeySt → SStep) :
    applySlot (kill B x) p tg f = kill (applySlot B p tg f) x := by
  unfold applySlot
  rw [kill_shape_arr x hB, hB, kill_size]
  simp only
  cases E.find? (fun e => e.1 = tg) with
  | none => rfl
  | some e => simp only; rw [setArr_kill hB, kill_comm]

theorem insSlots_kill {B : Abs} {p : Ts} {par : Option Ts} {E : List Ent} (hB : B.shape p = some (par, .arr E))
    (x : Option Ts) (an : Ts) (cs : List Ts) :
    insSlots (kill B x) p an cs = kill (insSlots B p an cs) x := by
  unfold insSlots
  rw [kill_shape_arr x hB, hB, kill_size]
  simp only
  cases insertAfterId (fun (e : Ent) => e.1) an (cs.map newEnt) E with
  | none => rfl
  | some E' => simp only; rw [setArr_kill hB]

theorem union_insSlots {B N : Abs} {S : Ts → Prop} (hN : Supp N S) {p : Ts} (hp : ¬ S p) {par : Option Ts}
    {E : List Ent} (hB : B.shape p = some (par, .arr E)) (an : Ts) (cs : List Ts) :
    union (insSlots B p an cs) N = insSlots (union B N) p an cs := by
  have hsz : (union B N).size p = B.size p := by simp [union, (hN p hp).2.2.2]
  unfold insSlots
  rw [union_shape_some hB, hB, hsz]
  simp only
  cases insertAfterId (fun (e : Ent) => e.1) an (cs.map newEnt) E with
  | none => rfl
  | some E' => simp only; rw [union_setArr hN hp]

/-- an array operation commutes with adding nodes that are away from everything it touches -/
theorem absE_union {e : EOp} {A N : Abs} {S : Ts → Prop} (hN : Supp N S)
    (hd : ∀ c, S c → c ∈ ids (nodesE e) → False) (hp : ¬ S e.p)
    {par : Option Ts} {E : List Ent} (hA : A.shape e.p = some (par, .arr E))
    (ht : ∀ tg, e.tgt = some tg → ∃ ent, E.find? (fun x => x.1 = tg) = some ent ∧
      ∀ y, (fE e ent.2.1 ent.2.2).bury = some y → ¬ S y) :
    absE e (union A N) = union (absE e A) N := by
  have hNe := supp_abs_mk (nodesE e)
  have hsw : union (union A N) (abs ⟨nodesE e⟩) = union (union A (abs ⟨nodesE e⟩)) N :=
    union_comm A hN hNe hd
  cases htg : e.tgt with
  | none =>
    cases e with
    | ins p an ts vs =>
      simp only [EOp.p] at hA hp
      simp only [absE]
      rw [hsw, union_insSlots hN hp (union_shape_some hA)]
    | del1 p tg t => simp [EOp.tgt] at htg
    | upd1 p tg t v => simp [EOp.tgt] at htg
  | some tg =>
    obtain ⟨ent, hent, hb⟩ := ht tg htg
    rw [absE_slot htg, absE_slot htg, hsw, union_applySlot hN hp (fE e) (union_shape_some hA) hent hb]

theorem absE_setKey (e : EOp) (A : Abs) {po : Ts} (h1 : po ≠ e.p) (h2 : po ∉ ids (nodesE e)) (k : String)
    (st : Option KeySt) (ds : Int) :
    absE e (setKey A po k st ds) = setKey (absE e A) po k st ds := by
  have hNe := supp_abs_mk (nodesE e)
  have hu := union_setKey (A := A) hNe h2 k st ds
  cases e with
  | ins p an ts vs => simp only [EOp.p] at h1; simp only [absE]; rw [hu, insSlots_setKey _ h1]
  | del1 p tg t => simp only [EOp.p] at h1; simp only [absE]; rw [applySlot_setKey _ h1]
  | upd1 p tg t v => simp only [EOp.p] at h1; simp only [absE]; rw [hu, applySlot_setKey _ h1]

theorem absE_kill (e : EOp) (A : Abs) {par : Option Ts} {E : List Ent} (hA : A.shape e.p = some (par, .arr E))
    (x : Option Ts) (hx : ∀ y, x = some y → y ∉ ids (nodesE e)) :
    absE e (kill A x) = kill (absE e A) x := by
  have hNe := supp_abs_mk (nodesE e)
  have hu : union (kill A x) (abs ⟨nodesE e⟩) = kill (union A (abs ⟨nodesE e⟩)) x := union_kill hNe hx
  cases e with
  | ins p an ts vs => simp only [EOp.p] at hA; simp only [absE]; rw [hu, insSlots_kill (union_shape_some hA)]
  | del1 p tg t => simp only [EOp.p] at hA; simp only [absE]; rw [applySlot_kill hA]
  | upd1 p tg t v => simp only [EOp.p] at hA; simp only [absE]; rw [hu, applySlot_kill (union_shape_some hA)]

/-- **A.** an abstract object operation and an abstract elementary array operation commute: different
    parents, new identifiers and buried nodes of one away from the other -/
theorem absE_absOp {o : ObjOp} {e : EOp} {A : Abs} {par : Option Ts} {E : List Ent}
    (hA : A.shape e.p = some (par, .arr E))
    (hd : ∀ c, c ∈ ids (nodesOf o) → c ∈ ids (nodesE e) → False)
    (hpe : e.p ∉ ids (nodesOf o)) (hpo : o.parent ∉ ids (nodesE e)) (hne : o.parent ≠ e.p)
    (ht : ∀ tg, e.tgt = some tg → ∃ ent, E.find? (fun x => x.1 = tg) = some ent ∧
      ∀ y, (fE e ent.2.1 ent.2.2).bury = some y → y ∉ ids (nodesOf o))
    (hbo : ∀ y, (stepOf o ((union A (abs ⟨nodesOf o⟩)).key o.parent o.key)).bury = some y →
      y ∉ ids (nodesE e)) :
    absE e (absOp o A) = absOp o (absE e A) := by
  have hNo := supp_abs_mk (nodesOf o)
  have hkey : (union (absE e A) (abs ⟨nodesOf o⟩)).key o.parent o.key =
      (union A (abs ⟨nodesOf o⟩)).key o.parent o.key := by
    simp only [union]; rw [absE_key e A hpo]
  unfold absOp aop applyStep
  rw [hkey]
  have hsh : ∀ st ds, (setKey (union A (abs ⟨nodesOf o⟩)) o.parent o.key st ds).shape e.p = some (par, .arr E) :=
    fun _ _ => union_shape_some hA
  rw [absE_kill e _ (hsh _ _) _ hbo, absE_setKey e _ hne hpo, absE_union hNo hd hpe hA ht]

theorem opOK_isObj {d : Doc} {o : ObjOp} (h : OpOK d o) : IsObj d o.parent := by
  cases o with
  | put p k v ts => exact h.1
  | del p k ts =>
    obtain ⟨n, m, s, c, h1, h2, _⟩ := h
    exact ⟨n, m, s, h1, h2⟩

/-- an object parent is not an array parent -/
theorem obj_ne_arr {d : Doc} {q p : Ts} (hq : IsObj d q) (hp : IsArr d p) : q ≠ p := by
  intro e
  subst e
  obtain ⟨n, m, s, hn, hk⟩ := hq
  obtain ⟨pn, sl, sz, hp'⟩ := isArr_iff.mp hp
  obtain ⟨hp1, hk'⟩ := findArr_some_iff.mp hp'
  rw [hn] at hp1
  simp only [Option.some.injEq] at hp1
  subst hp1
  rw [hk] at hk'
  cases hk'

/-- the side conditions of `absE_absOp` hold on the abstraction of a well-formed document for applicable
    operations with disjoint new identifiers -/
theorem absE_absOp_doc {d : Doc} (hwf : d.WF) {o : ObjOp} {e : EOp} (ho : OpOK d o) (he : EOK d e)
    (hd : ∀ c, c ∈ ids (nodesOf o) → c ∈ ids (nodesE e) → False) :
    absE e (absOp o (abs d)) = absOp o (absE e (abs d)) := by
  obtain ⟨pn, sl, sz, hp⟩ := isArr_iff.mp he.isArr
  obtain ⟨hp1, hk⟩ := findArr_some_iff.mp hp
  have hshape : (abs d).shape e.p = some (pn.parent, .arr (sl.map (entOf d))) := shapeOf_arr hp1 hk
  obtain ⟨no, hno⟩ := parent_in_table ho
  apply absE_absOp hshape hd (not_mem_nodes_of_table ho hp1) (fresh_not_mem he.fresh hno)
    (obj_ne_arr (opOK_isObj ho) he.isArr)
  · intro tg htg
    obtain ⟨sx, hsx, hsm, _⟩ := target_slot (he.tgt_mem htg)
    rw [slotsOf_of_findArr hp] at hsx hsm
    refine ⟨entOf d sx, by rw [find?_map_entOf, hsx]; rfl, ?_⟩
    intro y hy
    rcases DA.bury_cases he hy with h | h
    · have hy2 : y = sx.2 := refSt_occ_some h
      obtain ⟨nc, hnc, _⟩ := slot_child_in_table hwf hp hsm
      rw [hy2]; exact not_mem_nodes_of_table ho hnc
    · exact fun h' => hd y h' h
  · intro y hy
    have hkey : (union (abs d) (abs ⟨nodesOf o⟩)).key o.parent o.key = keyOf' d o.parent o.key := by
      have := (supp_abs_mk (nodesOf o) o.parent (not_mem_nodes_of_table ho hno)).2.2.1 o.key
      simp only [union]
      rw [this, Option.or_none]
      rfl
    rw [hkey] at hy
    rcases DC.bury_cases o _ hy with ⟨h1, p, k, v, h2⟩ | ⟨st, h1, h2⟩
    · intro hm
      have : y ∈ ids (nodesOf o) := by
        rw [h2] at ho ⊢
        exact root_mem_nodes ho
      exact hd y this hm
    · obtain ⟨nx, hnx⟩ := key_occ_in_table hwf h1 h2
      exact fresh_not_mem he.fresh hnx

end Orda.DM
