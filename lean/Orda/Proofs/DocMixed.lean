/-
Convergence of the JSON document for histories that MIX object operations (`DC.ObjOp`: put / del on object
nodes) and array operations (`DA.AOp`: ins / del / upd on array nodes, multi-target, nested values).
Everything lives in namespace `Orda.DM`.

Contents
* A. the abstract operations `DC.absOp` (object) and `DA.absE` (elementary array operation) commute on an
  abstraction in which the object parent and the array parent are different nodes and the new identifiers /
  buried nodes of one operation are away from the other (`absE_absOp`); on `DC.abs d` these side conditions
  follow from `OpOK`, `EOK`, `Doc.WF` and disjoint new identifiers (`absE_absOp_doc`).
* B. applicability of one kind of operation survives an operation of the other kind (`eok_after_op`,
  `opOK_after_E`); **`oe_comm`**: an object operation and an elementary array operation commute up to `DC.Sim`.
* C. `ceq_absOp`, `asim_congr_op`: object operations respect `DA.ASim`.
* D. `XOp` (an object operation or an ELEMENTARY array operation), `GoodX`, `x_converge` (`DC.perm_fold_equiv`).
* E. batches: `flatX`, `applyAllD_flat`; `goodD_perm`; **`mixed_converge`** (as stated in the task: `ASim` and equal
  key-sorted views); F. `DM.Ex`: non-vacuity.
-/
import Orda.Proofs.DocConv
import Orda.Proofs.DocArr
set_option linter.unusedSimpArgs false
set_option linter.unusedVariables false
namespace Orda.DM
open Orda Orda.DC Orda.DA

/-- a remote document operation -/
inductive DOp where
  | o (x : ObjOp)
  | a (x : AOp)

def applyD (d : Doc) : DOp → Doc
  | .o x => applyOp d x
  | .a x => applyA d x
def applyAllD (d : Doc) (l : List DOp) : Doc := l.foldl applyD d

def objs (l : List DOp) : List ObjOp := l.filterMap (fun | .o x => some x | _ => none)
def arrs (l : List DOp) : List AOp := l.filterMap (fun | .a x => some x | _ => none)

/-- the new node identifiers an object operation brings (those of the value of a put) -/
def oIds (x : ObjOp) : List Ts := ids (nodesOf x)
/-- … and an elementary array operation -/
def eIds (e : EOp) : List Ts := ids (nodesE e)

/-- every operation is applicable in the start document in any order (the hypotheses of the two existing theorems) and
    operations of the two kinds do not clash: disjoint new identifiers, distinguishable timestamps -/
def GoodD (d : Doc) (l : List DOp) : Prop :=
  Good d (objs l) ∧ GoodE d ((arrs l).flatMap flat) ∧ (∀ op ∈ arrs l, BatchOK op) ∧
  (∀ x ∈ objs l, ∀ e ∈ (arrs l).flatMap flat,
      (∀ c, c ∈ oIds x → c ∈ eIds e → False) ∧ x.ts.cmp e.ts ≠ .eq)

/-! ## A. the abstract operations of the two kinds commute -/

theorem insSlots_key (A : Abs) (p an : Ts) (cs : List Ts) : (insSlots A p an cs).key = A.key := by
  unfold insSlots
  cases A.shape p with
  | none => rfl
  | some x =>
    obtain ⟨par, sh⟩ := x
    cases sh with
    | elem v => rfl
    | obj => rfl
    | arr E =>
      simp only
      cases insertAfterId (fun (e : Ent) => e.1) an (cs.map newEnt) E with
      | none => rfl
      | some E' => rfl

theorem applySlot_key (A : Abs) (p tg : Ts) (f : Ts → KeySt → SStep) : (applySlot A p tg f).key = A.key := by
  unfold applySlot
  cases A.shape p with
  | none => rfl
  | some x =>
    obtain ⟨par, sh⟩ := x
    cases sh with
    | elem v => rfl
    | obj => rfl
    | arr E =>
      simp only
      cases E.find? (fun e => e.1 = tg) with
      | none => rfl
      | some e => simp only; rw [kill_key]; rfl

/-- an array operation does not touch the key states of the nodes it does not create -/
theorem absE_key (e : EOp) (A : Abs) {q : Ts} (hq : q ∉ ids (nodesE e)) (k : String) :
    (absE e A).key q k = A.key q k := by
  have hN := (supp_abs_mk (nodesE e)) q hq
  have hu : (union A (abs ⟨nodesE e⟩)).key q k = A.key q k := by simp [union, hN.2.2.1 k]
  cases e with
  | ins p an ts vs => simp only [absE]; rw [insSlots_key]; exact hu
  | del1 p tg t => simp only [absE]; rw [applySlot_key]
  | upd1 p tg t v => simp only [absE]; rw [applySlot_key]; exact hu

theorem union_setKey {A N : Abs} {S : Ts → Prop} (hN : Supp N S) {p : Ts} (hp : ¬ S p) (k : String)
    (st : Option KeySt) (ds : Int) : union (setKey A p k st ds) N = setKey (union A N) p k st ds := by
  obtain ⟨_, _, h3, _⟩ := hN p hp
  apply Abs.ext'
  · intro c; rfl
  · intro c; rfl
  · intro c k'
    simp only [union, setKey]
    by_cases h1 : c = p ∧ k' = k
    · obtain ⟨rfl, rfl⟩ := h1
      simp [h3]
    · simp [h1]
  · intro c
    simp only [union, setKey]
    by_cases h1 : c = p <;> simp [h1]; omega

theorem setArr_setKey (B : Abs) {p po : Ts} (h : po ≠ p) (par : Option Ts) (E : List Ent) (s : Int) (k : String)
    (st : Option KeySt) (ds : Int) :
    setArr (setKey B po k st ds) p par E s = setKey (setArr B p par E s) po k st ds := by
  apply Abs.ext'
  · intro c; rfl
  · intro c; rfl
  · intro c k'; rfl
  · intro c
    simp only [setArr, setKey]
    by_cases h1 : c = p
    · subst h1
      have : ¬ c = po := fun e => h e.symm
      simp [this]
    · simp [h1]

theorem applySlot_setKey (B : Abs) {p po : Ts} (h : po ≠ p) (tg : Ts) (f : Ts → KeySt → SStep) (k : String)
    (st : Option KeySt) (ds : Int) :
    applySlot (setKey B po k st ds) p tg f = setKey (applySlot B p tg f) po k st ds := by
  have hsz : (setKey B po k st ds).size p = B.size p := by
    have : ¬ p = po := fun e => h e.symm
    simp [setKey, this]
  unfold applySlot
  rw [hsz]
  show (match B.shape p with
    | some (par, .arr E) =>
      match E.find? (fun (e : Ent) => e.1 = tg) with
      | some e =>
        kill (setArr (setKey B po k st ds) p par (setEntry tg (f e.2.1 e.2.2).c (f e.2.1 e.2.2).st E)
          (B.size p + (f e.2.1 e.2.2).dsize)) (f e.2.1 e.2.2).bury
      | none => setKey B po k st ds
    | _ => setKey B po k st ds) = _
  cases B.shape p with
  | none => rfl
  | some x =>
    obtain ⟨par, sh⟩ := x
    cases sh with
    | elem v => rfl
    | obj => rfl
    | arr E =>
      simp only
      cases E.find? (fun e => e.1 = tg) with
      | none => rfl
      | some e => simp only; rw [setArr_setKey B h, kill_setKey]

theorem insSlots_setKey (B : Abs) {p po : Ts} (h : po ≠ p) (an : Ts) (cs : List Ts) (k : String)
    (st : Option KeySt) (ds : Int) :
    insSlots (setKey B po k st ds) p an cs = setKey (insSlots B p an cs) po k st ds := by
  have hsz : (setKey B po k st ds).size p = B.size p := by
    have : ¬ p = po := fun e => h e.symm
    simp [setKey, this]
  unfold insSlots
  rw [hsz]
  show (match B.shape p with
    | some (par, .arr E) =>
      match insertAfterId (fun (e : Ent) => e.1) an (cs.map newEnt) E with
      | some E' => setArr (setKey B po k st ds) p par E' (B.size p + cs.length)
      | none => setKey B po k st ds
    | _ => setKey B po k st ds) = _
  cases B.shape p with
  | none => rfl
  | some x =>
    obtain ⟨par, sh⟩ := x
    cases sh with
    | elem v => rfl
    | obj => rfl
    | arr E =>
      simp only
      cases insertAfterId (fun (e : Ent) => e.1) an (cs.map newEnt) E with
      | none => rfl
      | some E' => simp only; rw [setArr_setKey B h]

theorem applySlot_kill {B : Abs} {p : Ts} {par : Option Ts} {E : List Ent} (hB : B.shape p = some (par, .arr E))
    (x : Option Ts) (tg : Ts) (f : Ts → KeySt → SStep) :
    applySlot (kill B x) p tg f = kill (applySlot B p tg f) x := by
  unfold applySlot
  rw [kill_shape_arr x hB, hB, kill_size]
  simp only
  cases E.find? (fun e => e.1 = tg) with
  | none => rfl
  | some e => simp only; rw [setArr_kill hB, kill_comm]

theorem insSlots_kill {B : Abs} {p : Ts} {par : Option Ts} {E : List Ent} (hB : B.shape p = some (par, .arr E))
    (x : Option Ts) (an : Ts) (cs : List Ts) :
    insSlots (kill B x) p an cs = kill (insSlots B p an cs) x := by
  unfold insSlots
  rw [kill_shape_arr x hB, hB, kill_size]
  simp only
  cases insertAfterId (fun (e : Ent) => e.1) an (cs.map newEnt) E with
  | none => rfl
  | some E' => simp only; rw [setArr_kill hB]

theorem union_insSlots {B N : Abs} {S : Ts → Prop} (hN : Supp N S) {p : Ts} (hp : ¬ S p) {par : Option Ts}
    {E : List Ent} (hB : B.shape p = some (par, .arr E)) (an : Ts) (cs : List Ts) :
    union (insSlots B p an cs) N = insSlots (union B N) p an cs := by
  have hsz : (union B N).size p = B.size p := by simp [union, (hN p hp).2.2.2]
  unfold insSlots
  rw [union_shape_some hB, hB, hsz]
  simp only
  cases insertAfterId (fun (e : Ent) => e.1) an (cs.map newEnt) E with
  | none => rfl
  | some E' => simp only; rw [union_setArr hN hp]

/-- an array operation commutes with adding nodes that are away from everything it touches -/
theorem absE_union {e : EOp} {A N : Abs} {S : Ts → Prop} (hN : Supp N S)
    (hd : ∀ c, S c → c ∈ ids (nodesE e) → False) (hp : ¬ S e.p)
    {par : Option Ts} {E : List Ent} (hA : A.shape e.p = some (par, .arr E))
    (ht : ∀ tg, e.tgt = some tg → ∃ ent, E.find? (fun x => x.1 = tg) = some ent ∧
      ∀ y, (fE e ent.2.1 ent.2.2).bury = some y → ¬ S y) :
    absE e (union A N) = union (absE e A) N := by
  have hNe := supp_abs_mk (nodesE e)
  have hsw : union (union A N) (abs ⟨nodesE e⟩) = union (union A (abs ⟨nodesE e⟩)) N :=
    union_comm A hN hNe hd
  cases htg : e.tgt with
  | none =>
    cases e with
    | ins p an ts vs =>
      simp only [EOp.p] at hA hp
      simp only [absE]
      rw [hsw, union_insSlots hN hp (union_shape_some hA)]
    | del1 p tg t => simp [EOp.tgt] at htg
    | upd1 p tg t v => simp [EOp.tgt] at htg
  | some tg =>
    obtain ⟨ent, hent, hb⟩ := ht tg htg
    rw [absE_slot htg, absE_slot htg, hsw, union_applySlot hN hp (fE e) (union_shape_some hA) hent hb]

theorem absE_setKey (e : EOp) (A : Abs) {po : Ts} (h1 : po ≠ e.p) (h2 : po ∉ ids (nodesE e)) (k : String)
    (st : Option KeySt) (ds : Int) :
    absE e (setKey A po k st ds) = setKey (absE e A) po k st ds := by
  have hNe := supp_abs_mk (nodesE e)
  have hu := union_setKey (A := A) hNe h2 k st ds
  cases e with
  | ins p an ts vs => simp only [EOp.p] at h1; simp only [absE]; rw [hu, insSlots_setKey _ h1]
  | del1 p tg t => simp only [EOp.p] at h1; simp only [absE]; rw [applySlot_setKey _ h1]
  | upd1 p tg t v => simp only [EOp.p] at h1; simp only [absE]; rw [hu, applySlot_setKey _ h1]

theorem absE_kill (e : EOp) (A : Abs) {par : Option Ts} {E : List Ent} (hA : A.shape e.p = some (par, .arr E))
    (x : Option Ts) (hx : ∀ y, x = some y → y ∉ ids (nodesE e)) :
    absE e (kill A x) = kill (absE e A) x := by
  have hNe := supp_abs_mk (nodesE e)
  have hu : union (kill A x) (abs ⟨nodesE e⟩) = kill (union A (abs ⟨nodesE e⟩)) x := union_kill hNe hx
  cases e with
  | ins p an ts vs => simp only [EOp.p] at hA; simp only [absE]; rw [hu, insSlots_kill (union_shape_some hA)]
  | del1 p tg t => simp only [EOp.p] at hA; simp only [absE]; rw [applySlot_kill hA]
  | upd1 p tg t v => simp only [EOp.p] at hA; simp only [absE]; rw [hu, applySlot_kill (union_shape_some hA)]

/-- **A.** an abstract object operation and an abstract elementary array operation commute: different
    parents, new identifiers and buried nodes of one away from the other -/
theorem absE_absOp {o : ObjOp} {e : EOp} {A : Abs} {par : Option Ts} {E : List Ent}
    (hA : A.shape e.p = some (par, .arr E))
    (hd : ∀ c, c ∈ ids (nodesOf o) → c ∈ ids (nodesE e) → False)
    (hpe : e.p ∉ ids (nodesOf o)) (hpo : o.parent ∉ ids (nodesE e)) (hne : o.parent ≠ e.p)
    (ht : ∀ tg, e.tgt = some tg → ∃ ent, E.find? (fun x => x.1 = tg) = some ent ∧
      ∀ y, (fE e ent.2.1 ent.2.2).bury = some y → y ∉ ids (nodesOf o))
    (hbo : ∀ y, (stepOf o ((union A (abs ⟨nodesOf o⟩)).key o.parent o.key)).bury = some y →
      y ∉ ids (nodesE e)) :
    absE e (absOp o A) = absOp o (absE e A) := by
  have hNo := supp_abs_mk (nodesOf o)
  have hkey : (union (absE e A) (abs ⟨nodesOf o⟩)).key o.parent o.key =
      (union A (abs ⟨nodesOf o⟩)).key o.parent o.key := by
    simp only [union]; rw [absE_key e A hpo]
  unfold absOp aop applyStep
  rw [hkey]
  have hsh : ∀ st ds, (setKey (union A (abs ⟨nodesOf o⟩)) o.parent o.key st ds).shape e.p = some (par, .arr E) :=
    fun _ _ => union_shape_some hA
  rw [absE_kill e _ (hsh _ _) _ hbo, absE_setKey e _ hne hpo, absE_union hNo hd hpe hA ht]

theorem opOK_isObj {d : Doc} {o : ObjOp} (h : OpOK d o) : IsObj d o.parent := by
  cases o with
  | put p k v ts => exact h.1
  | del p k ts =>
    obtain ⟨n, m, s, c, h1, h2, _⟩ := h
    exact ⟨n, m, s, h1, h2⟩

/-- an object parent is not an array parent -/
theorem obj_ne_arr {d : Doc} {q p : Ts} (hq : IsObj d q) (hp : IsArr d p) : q ≠ p := by
  intro e
  subst e
  obtain ⟨n, m, s, hn, hk⟩ := hq
  obtain ⟨pn, sl, sz, hp'⟩ := isArr_iff.mp hp
  obtain ⟨hp1, hk'⟩ := findArr_some_iff.mp hp'
  rw [hn] at hp1
  simp only [Option.some.injEq] at hp1
  subst hp1
  rw [hk] at hk'
  cases hk'

/-- the side conditions of `absE_absOp` hold on the abstraction of a well-formed document for applicable
    operations with disjoint new identifiers -/
theorem absE_absOp_doc {d : Doc} (hwf : d.WF) {o : ObjOp} {e : EOp} (ho : OpOK d o) (he : EOK d e)
    (hd : ∀ c, c ∈ ids (nodesOf o) → c ∈ ids (nodesE e) → False) :
    absE e (absOp o (abs d)) = absOp o (absE e (abs d)) := by
  obtain ⟨pn, sl, sz, hp⟩ := isArr_iff.mp he.isArr
  obtain ⟨hp1, hk⟩ := findArr_some_iff.mp hp
  have hshape : (abs d).shape e.p = some (pn.parent, .arr (sl.map (entOf d))) := shapeOf_arr hp1 hk
  obtain ⟨no, hno⟩ := parent_in_table ho
  apply absE_absOp hshape hd (not_mem_nodes_of_table ho hp1) (fresh_not_mem he.fresh hno)
    (obj_ne_arr (opOK_isObj ho) he.isArr)
  · intro tg htg
    obtain ⟨sx, hsx, hsm, _⟩ := target_slot (he.tgt_mem htg)
    rw [slotsOf_of_findArr hp] at hsx hsm
    refine ⟨entOf d sx, by rw [find?_map_entOf, hsx]; rfl, ?_⟩
    intro y hy
    rcases DA.bury_cases he hy with h | h
    · have hy2 : y = sx.2 := refSt_occ_some h
      obtain ⟨nc, hnc, _⟩ := slot_child_in_table hwf hp hsm
      rw [hy2]; exact not_mem_nodes_of_table ho hnc
    · exact fun h' => hd y h' h
  · intro y hy
    have hkey : (union (abs d) (abs ⟨nodesOf o⟩)).key o.parent o.key = keyOf' d o.parent o.key := by
      have := (supp_abs_mk (nodesOf o) o.parent (not_mem_nodes_of_table ho hno)).2.2.1 o.key
      simp only [union]
      rw [this, Option.or_none]
      rfl
    rw [hkey] at hy
    rcases DC.bury_cases o _ hy with ⟨h1, p, k, v, h2⟩ | ⟨st, h1, h2⟩
    · intro hm
      have : y ∈ ids (nodesOf o) := by
        rw [h2] at ho ⊢
        exact root_mem_nodes ho
      exact hd y this hm
    · obtain ⟨nx, hnx⟩ := key_occ_in_table hwf h1 h2
      exact fresh_not_mem he.fresh hnx


/-! ## B. applicability survives an operation of the other kind; the two kinds commute -/

/-- an array of the document keeps its slots and size under an object operation -/
theorem findArr_after_op {d : Doc} (hwf : d.WF) {o : ObjOp} (ho : OpOK d o) {q : Ts} {pn : DNode}
    {sl : List (Ts × Ts)} {sz : Int} (hq : d.findArr q = some (pn, sl, sz)) :
    ∃ pn', (applyOp d o).findArr q = some (pn', sl, sz) := by
  obtain ⟨h1, h2⟩ := findArr_some_iff.mp hq
  have harr : IsArr d q := by unfold IsArr; rw [hq]; rfl
  have hne : q ≠ o.parent := fun e => obj_ne_arr (opOK_isObj ho) harr e.symm
  obtain ⟨n', h3, h4⟩ := after_op_container hwf ho h1 hne (by rw [h2]; intro v; simp)
  exact ⟨n', findArr_some_iff.mpr ⟨h3, h4.trans h2⟩⟩

theorem isArr_after_op {d : Doc} (hwf : d.WF) {o : ObjOp} (ho : OpOK d o) {q : Ts} (hq : IsArr d q) :
    IsArr (applyOp d o) q := by
  obtain ⟨pn, sl, sz, hp⟩ := isArr_iff.mp hq
  obtain ⟨pn', hp'⟩ := findArr_after_op hwf ho hp
  exact isArr_iff.mpr ⟨pn', sl, sz, hp'⟩

theorem slotIds_after_op {d : Doc} (hwf : d.WF) {o : ObjOp} (ho : OpOK d o) {q : Ts} (hq : IsArr d q) :
    slotIds (applyOp d o) q = slotIds d q := by
  obtain ⟨pn, sl, sz, hp⟩ := isArr_iff.mp hq
  obtain ⟨pn', hp'⟩ := findArr_after_op hwf ho hp
  unfold slotIds
  rw [slotsOf_of_findArr hp, slotsOf_of_findArr hp']

theorem fresh_after_op {d : Doc} (hwf : d.WF) {o : ObjOp} (ho : OpOK d o) {ns : List DNode} (hf : Fresh d ns)
    (hd : ∀ c, c ∈ ids (nodesOf o) → c ∈ ids ns → False) : Fresh (applyOp d o) ns := by
  intro c hc
  cases hfd : (applyOp d o).find c with
  | none => rfl
  | some n =>
    exfalso
    rcases find_after_op hwf o ho c n hfd with ⟨n0, h0⟩ | h0
    · rw [hf c hc] at h0; cases h0
    · exact hd c h0 hc

/-- an applicable array operation is still applicable after an object operation -/
theorem eok_after_op {d : Doc} (hwf : d.WF) {o : ObjOp} {e : EOp} (ho : OpOK d o) (he : EOK d e)
    (hd : ∀ c, c ∈ ids (nodesOf o) → c ∈ ids (nodesE e) → False) : EOK (applyOp d o) e := by
  cases e with
  | ins p an ts vs =>
    obtain ⟨h1, h2, h3, h4, h5⟩ := he
    refine ⟨isArr_after_op hwf ho h1, h2, fresh_after_op hwf ho h3 hd, ?_, ?_⟩
    · rw [slotIds_after_op hwf ho h1]; exact h4
    · rw [slotIds_after_op hwf ho h1]; exact h5
  | del1 p tg t =>
    obtain ⟨h1, h2⟩ := he
    exact ⟨isArr_after_op hwf ho h1, by rw [slotIds_after_op hwf ho h1]; exact h2⟩
  | upd1 p tg t v =>
    obtain ⟨h1, h2, h3, h4⟩ := he
    exact ⟨isArr_after_op hwf ho h1, h2, fresh_after_op hwf ho h3 hd,
      by rw [slotIds_after_op hwf ho h1]; exact h4⟩

/-- an applicable object operation is still applicable after an array operation -/
theorem opOK_after_E {d : Doc} (hwf : d.WF) {o : ObjOp} {e : EOp} (he : EOK d e) (ho : OpOK d o)
    (hd : ∀ c, c ∈ ids (nodesOf o) → c ∈ ids (nodesE e) → False) : OpOK (applyE d e) o := by
  cases o with
  | put p k v ts =>
    obtain ⟨h1, h2, h3⟩ := ho
    exact ⟨isObj_applyE hwf he h1, h2, fresh_applyE hwf he h3 (fun c h h' => hd c h' h)⟩
  | del p k ts =>
    have hk : HasKey d p k := ho
    obtain ⟨n, m, s, c, hn, _, _⟩ := ho
    have hq : p ∉ ids (nodesE e) := fresh_not_mem he.fresh hn
    show HasKey (applyE d e) p k
    rw [hasKey_iff] at hk ⊢
    have e1 : keyOf' (applyE d e) p k = (abs (applyE d e)).key p k := rfl
    rw [e1, abs_applyE hwf e he, absE_key e _ hq]
    exact hk

/-- **B.** an applicable object operation and an applicable elementary array operation with disjoint new
    identifiers commute up to observational equivalence (`DC.Sim`) -/
theorem oe_comm {d : Doc} (hwf : d.WF) {o : ObjOp} {e : EOp} (ho : OpOK d o) (he : EOK d e)
    (hd : ∀ c, c ∈ ids (nodesOf o) → c ∈ ids (nodesE e) → False) :
    Sim (applyE (applyOp d o) e) (applyOp (applyE d e) o) := by
  unfold Sim
  rw [abs_applyE (wf_op hwf o ho) e (eok_after_op hwf ho he hd), sim_op hwf o ho,
    sim_op (wf_applyE hwf e he) o (opOK_after_E hwf he ho hd), abs_applyE hwf e he]
  exact absE_absOp_doc hwf ho he hd

/-! ## C. object operations respect `ASim` -/

theorem ceq_setKey {A B : Abs} (h : CEq A B) (p : Ts) (k : String) (st : Option KeySt) (ds : Int) :
    CEq (setKey A p k st ds) (setKey B p k st ds) :=
  ⟨h.shape, h.dead, fun c k' => by simp only [setKey]; rw [h.key c k'],
    fun c => by simp only [setKey]; rw [h.size c]⟩

theorem ceq_absOp (o : ObjOp) {A B : Abs} (h : CEq A B) : CEq (absOp o A) (absOp o B) := by
  have hu := ceq_union h (abs ⟨nodesOf o⟩)
  unfold absOp aop applyStep
  rw [hu.key o.parent o.key]
  exact ceq_kill (ceq_setKey hu _ _ _ _) _

theorem asim_congr_op {z z' : Doc} (hz : z.WF) (hz' : z'.WF) {o : ObjOp} (h1 : OpOK z o) (h2 : OpOK z' o)
    (h : ASim z z') : ASim (applyOp z o) (applyOp z' o) := by
  unfold ASim
  rw [sim_op hz o h1, sim_op hz' o h2]
  exact ceq_absOp o h

/-! ## D. histories of object operations and ELEMENTARY array operations -/

inductive XOp where
  | o (x : ObjOp)
  | e (x : EOp)

def applyX (d : Doc) : XOp → Doc
  | .o x => applyOp d x
  | .e x => applyE d x
def applyAllX (d : Doc) (l : List XOp) : Doc := l.foldl applyX d

def xo (l : List XOp) : List ObjOp := l.filterMap (fun | .o x => some x | _ => none)
def xe (l : List XOp) : List EOp := l.filterMap (fun | .e x => some x | _ => none)

/-- the new identifiers of the two operations do not clash -/
def Cross (x : ObjOp) (e : EOp) : Prop := ∀ c, c ∈ ids (nodesOf x) → c ∈ ids (nodesE e) → False

/-- ready for the operations `l` in any order -/
def GoodX (z : Doc) (l : List XOp) : Prop :=
  Good z (xo l) ∧ GoodE z (xe l) ∧ ∀ x ∈ xo l, ∀ e ∈ xe l, Cross x e

theorem xo_cons_o (x : ObjOp) (l : List XOp) : xo (.o x :: l) = x :: xo l := rfl
theorem xo_cons_e (x : EOp) (l : List XOp) : xo (.e x :: l) = xo l := rfl
theorem xe_cons_o (x : ObjOp) (l : List XOp) : xe (.o x :: l) = xe l := rfl
theorem xe_cons_e (x : EOp) (l : List XOp) : xe (.e x :: l) = x :: xe l := rfl
theorem xo_append (a b : List XOp) : xo (a ++ b) = xo a ++ xo b := by simp [xo, List.filterMap_append]
theorem xe_append (a b : List XOp) : xe (a ++ b) = xe a ++ xe b := by simp [xe, List.filterMap_append]

theorem goodX_perm {z : Doc} {l l' : List XOp} (hp : l.Perm l') (h : GoodX z l) : GoodX z l' := by
  obtain ⟨h1, h2, h3⟩ := h
  have po : (xo l).Perm (xo l') := hp.filterMap _
  have pe : (xe l).Perm (xe l') := hp.filterMap _
  exact ⟨good_perm po h1, goodE_perm pe h2,
    fun x hx e he => h3 x (po.mem_iff.mpr hx) e (pe.mem_iff.mpr he)⟩

theorem insOnE_isArr {z : Doc} {p : Ts} {e : EOp} (he : EOK z e) (hi : (insOnE p e).isSome) : IsArr z p := by
  cases e with
  | ins p' a ts vs =>
    simp only [insOnE] at hi
    by_cases e' : p' = p
    · subst e'; exact he.isArr
    · simp [e'] at hi
  | del1 p' tg t => simp [insOnE] at hi
  | upd1 p' tg t v => simp [insOnE] at hi

theorem goodE_after_op {z : Doc} {o : ObjOp} {l : List EOp} (ho : OpOK z o) (h : GoodE z l)
    (hc : ∀ e ∈ l, Cross o e) : GoodE (applyOp z o) l := by
  obtain ⟨hwf, hok, hpw, hord⟩ := h
  refine ⟨wf_op hwf o ho, fun e he => eok_after_op hwf ho (hok e he) (hc e he), hpw, ?_⟩
  intro p ⟨e, he, hi⟩
  obtain ⟨M0, hb, hcs⟩ := hord p ⟨e, he, hi⟩
  refine ⟨M0, ?_, hcs⟩
  rw [slotIds_after_op hwf ho (insOnE_isArr (hok e he) hi)]
  exact hb

theorem good_after_E {z : Doc} {e : EOp} {l : List ObjOp} (he : EOK z e) (h : Good z l)
    (hc : ∀ o ∈ l, Cross o e) : Good (applyE z e) l := by
  obtain ⟨hwf, hok, hpw⟩ := h
  exact ⟨wf_applyE hwf e he, fun o ho => opOK_after_E hwf he (hok o ho) (hc o ho), hpw⟩

theorem goodX_step {z : Doc} {x : XOp} {l : List XOp} (h : GoodX z (x :: l)) : GoodX (applyX z x) l := by
  obtain ⟨h1, h2, h3⟩ := h
  cases x with
  | o a =>
    rw [xo_cons_o] at h1 h3
    rw [xe_cons_o] at h2 h3
    have ha : OpOK z a := h1.2.1 a (by simp)
    refine ⟨good_step h1, goodE_after_op ha h2 (fun e he => h3 a (by simp) e he), ?_⟩
    intro x hx e he
    exact h3 x (List.mem_cons_of_mem _ hx) e he
  | e a =>
    rw [xo_cons_e] at h1 h3
    rw [xe_cons_e] at h2 h3
    have ha : EOK z a := h2.2.1 a (by simp)
    refine ⟨good_after_E ha h1 (fun o ho => h3 o ho a (by simp)), goodE_step h2, ?_⟩
    intro x hx e he
    exact h3 x hx e (List.mem_cons_of_mem _ he)

theorem goodX_wf {z : Doc} {l : List XOp} (h : GoodX z l) : z.WF := h.1.1

theorem asim_congr_X {z z' : Doc} {x : XOp} {l : List XOp} (h1 : GoodX z (x :: l)) (h2 : GoodX z' (x :: l))
    (h : ASim z z') : ASim (applyX z x) (applyX z' x) := by
  cases x with
  | o a =>
    have a1 : OpOK z a := h1.1.2.1 a (by simp [xo_cons_o])
    have a2 : OpOK z' a := h2.1.2.1 a (by simp [xo_cons_o])
    exact asim_congr_op (goodX_wf h1) (goodX_wf h2) a1 a2 h
  | e a =>
    have a1 : EOK z a := h1.2.1.2.1 a (by simp [xe_cons_e])
    have a2 : EOK z' a := h2.2.1.2.1 a (by simp [xe_cons_e])
    exact asim_congr (goodX_wf h1) (goodX_wf h2) a1 a2 h

/-- two adjacent operations of a ready history commute up to `ASim`, whatever their kinds -/
theorem comm_asim_X {z : Doc} {x y : XOp} {l : List XOp} (h : GoodX z (x :: y :: l)) :
    ASim (applyX (applyX z x) y) (applyX (applyX z y) x) := by
  obtain ⟨h1, h2, h3⟩ := h
  have hwf := h1.1
  cases x with
  | o a =>
    cases y with
    | o b =>
      rw [xo_cons_o, xo_cons_o] at h1
      have hpw := List.pairwise_cons.mp h1.2.2
      exact asim_of_sim (op_comm_partial hwf (h1.2.1 a (by simp)) (h1.2.1 b (by simp)) (hpw.1 b (by simp)))
    | e b =>
      rw [xo_cons_o, xo_cons_e] at h1 h3
      rw [xe_cons_o, xe_cons_e] at h2 h3
      exact asim_of_sim (oe_comm hwf (h1.2.1 a (by simp)) (h2.2.1 b (by simp)) (h3 a (by simp) b (by simp)))
  | e a =>
    cases y with
    | o b =>
      rw [xo_cons_e, xo_cons_o] at h1 h3
      rw [xe_cons_e, xe_cons_o] at h2 h3
      exact asim_symm
        (asim_of_sim (oe_comm hwf (h1.2.1 b (by simp)) (h2.2.1 a (by simp)) (h3 b (by simp) a (by simp))))
    | e b =>
      rw [xe_cons_e, xe_cons_e] at h2
      exact comm_asim h2

theorem goodX_applyAll {l : List XOp} : ∀ {d : Doc}, GoodX d l → (applyAllX d l).WF := by
  induction l with
  | nil => intro d h; exact goodX_wf h
  | cons x l ih => intro d h; exact ih (goodX_step h)

theorem goodX_append {l1 : List XOp} : ∀ {z : Doc} {l2 : List XOp}, GoodX z (l1 ++ l2) →
    GoodX (applyAllX z l1) l2 := by
  induction l1 with
  | nil => intro z l2 h; exact h
  | cons x l ih => intro z l2 h; exact ih (goodX_step h)

/-- **D.** two arrival orders of the same object operations and elementary array operations, from
    `ASim`-equivalent documents ready for them, end in `ASim`-equivalent documents -/
theorem x_converge {d d' : Doc} {l l' : List XOp} (hp : l.Perm l') (h : GoodX d l) (h' : GoodX d' l)
    (hs : ASim d d') : ASim (applyAllX d l) (applyAllX d' l') :=
  perm_fold_equiv applyX ASim asim_equivalence GoodX
    (fun _ _ _ hp h => goodX_perm hp h) (fun _ _ _ h => goodX_step h)
    (fun _ _ _ _ h1 h2 h => asim_congr_X h1 h2 h)
    (fun _ _ _ _ h => comm_asim_X h)
    l l' hp d d' h h' hs

theorem viewOK_applyAllX {l : List XOp} : ∀ {d : Doc}, GoodX d l → ViewOK d → (∀ o ∈ xo l, OpKeysND o) →
    (∀ e ∈ xe l, EKeysND e) → ViewOK (applyAllX d l) := by
  induction l with
  | nil => intro d _ hv _ _; exact hv
  | cons x l ih =>
    intro d h hv hko hke
    cases x with
    | o a =>
      rw [xo_cons_o] at hko
      rw [xe_cons_o] at hke
      have ha : OpOK d a := h.1.2.1 a (by simp [xo_cons_o])
      exact ih (goodX_step h) (viewOK_op (goodX_wf h) hv a ha (hko a (by simp)))
        (fun o ho => hko o (List.mem_cons_of_mem _ ho)) hke
    | e a =>
      rw [xo_cons_e] at hko
      rw [xe_cons_e] at hke
      have ha : EOK d a := h.2.1.2.1 a (by simp [xe_cons_e])
      exact ih (goodX_step h) (viewOK_applyE (goodX_wf h) hv a ha (hke a (by simp))) hko
        (fun o ho => hke o (List.mem_cons_of_mem _ ho))


/-! ## E. batches: a mixed history = the history of its object operations and single-target array operations -/

def flatX : DOp → List XOp
  | .o x => [.o x]
  | .a x => (flat x).map .e

theorem xo_map_e (l : List EOp) : xo (l.map XOp.e) = [] := by
  induction l with
  | nil => rfl
  | cons x l ih => rw [List.map_cons, xo_cons_e, ih]

theorem xe_map_e (l : List EOp) : xe (l.map XOp.e) = l := by
  induction l with
  | nil => rfl
  | cons x l ih => rw [List.map_cons, xe_cons_e, ih]

theorem objs_cons_o (x : ObjOp) (L : List DOp) : objs (.o x :: L) = x :: objs L := rfl
theorem objs_cons_a (x : AOp) (L : List DOp) : objs (.a x :: L) = objs L := rfl
theorem arrs_cons_o (x : ObjOp) (L : List DOp) : arrs (.o x :: L) = arrs L := rfl
theorem arrs_cons_a (x : AOp) (L : List DOp) : arrs (.a x :: L) = x :: arrs L := rfl

theorem xo_flat (L : List DOp) : xo (L.flatMap flatX) = objs L := by
  induction L with
  | nil => rfl
  | cons op L ih =>
    rw [List.flatMap_cons, xo_append, ih]
    cases op with
    | o x => rfl
    | a x => simp only [flatX, xo_map_e, objs_cons_a, List.nil_append]

theorem xe_flat (L : List DOp) : xe (L.flatMap flatX) = (arrs L).flatMap flat := by
  induction L with
  | nil => rfl
  | cons op L ih =>
    rw [List.flatMap_cons, xe_append, ih]
    cases op with
    | o x => rfl
    | a x => simp only [flatX, xe_map_e, arrs_cons_a, List.flatMap_cons]

theorem applyAllX_map_e (z : Doc) (l : List EOp) : applyAllX z (l.map XOp.e) = applyAllE z l := by
  simp only [applyAllX, applyAllE, List.foldl_map]
  rfl

theorem applyAllX_append (z : Doc) (l1 l2 : List XOp) :
    applyAllX z (l1 ++ l2) = applyAllX (applyAllX z l1) l2 := by
  simp [applyAllX, List.foldl_append]

theorem docEq_applyD {a b : Doc} (h : DocEq a b) : ∀ (op : DOp), DocEq (applyD a op) (applyD b op)
  | .o x => docEq_applyOp h x
  | .a x => docEq_applyA h x

/-- an object operation keeps the identifiers of the table distinct (whether applicable or not) -/
theorem nodup_applyOp {d : Doc} (h : (ids d.table).Nodup) : ∀ (o : ObjOp), (ids (applyOp d o).table).Nodup
  | .put p k v ts => by
    simp only [applyOp, Doc.putInObject]
    cases d.findObj p with
    | none => exact h
    | some x =>
      obtain ⟨pn, m, size⟩ := x
      simp only
      cases createNode p ts v with
      | err c => exact h
      | panic w => exact h
      | ok y =>
        obtain ⟨ns, newC, t'⟩ := y
        simp only
        have h1 := nodup_addAll ns h
        cases alFind k m with
        | none => exact nodup_set _ h1
        | some oldC =>
          simp only
          by_cases hc : (((d.addAll ns).timeOf oldC).cmp newC == Ordering.lt) = true
          · simp only [hc, if_true]
            exact nodup_funeral _ _ (nodup_set _ h1)
          · simp only [hc]
            exact nodup_funeral _ _ h1
  | .del p k ts => by
    simp only [applyOp, Doc.deleteInObject]
    cases d.findObj p with
    | none => exact h
    | some x =>
      obtain ⟨pn, m, size⟩ := x
      simp only
      cases alFind k m with
      | none => exact h
      | some c =>
        simp only [Bool.false_eq_true, if_false]
        by_cases hc : ((d.timeOf c).cmp ts == Ordering.lt) = true
        · simp only [hc, if_true]
          exact nodup_makeTomb _ _ (nodup_set _ h)
        · simp only [hc]
          exact h

theorem nodup_applyD {d : Doc} (h : (ids d.table).Nodup) : ∀ (op : DOp), (ids (applyD d op).table).Nodup
  | .o x => nodup_applyOp h x
  | .a x => nodup_applyA h x

theorem nodup_applyAllD : ∀ (L : List DOp) {d : Doc}, (ids d.table).Nodup → (ids (applyAllD d L).table).Nodup
  | [], _, h => h
  | op :: L, _, h => nodup_applyAllD L (nodup_applyD h op)

/-- one operation = the sequence of its elementary operations, up to `DocEq` -/
theorem applyD_flat {z : Doc} {op : DOp} {rest : List XOp} (h : GoodX z (flatX op ++ rest))
    (hb : ∀ x, op = .a x → BatchOK x) : DocEq (applyD z op) (applyAllX z (flatX op)) := by
  cases op with
  | o x => exact docEq_refl _
  | a x =>
    have hg : GoodE z (flat x ++ xe rest) := by
      have := h.2.1
      rw [xe_append] at this
      simp only [flatX, xe_map_e] at this
      exact this
    simp only [flatX, applyAllX_map_e, applyD]
    exact applyA_flat hg (hb x rfl)

theorem mem_arrs_cons {o : AOp} {op : DOp} {L : List DOp} (h : o ∈ arrs L) : o ∈ arrs (op :: L) := by
  cases op with
  | o x => exact h
  | a x => rw [arrs_cons_a]; exact List.mem_cons_of_mem _ h

/-- a mixed history = the history of its elementary operations, up to `DocEq` -/
theorem applyAllD_flat : ∀ (L : List DOp) {z z' : Doc}, DocEq z z' → GoodX z' (L.flatMap flatX) →
    (∀ op ∈ arrs L, BatchOK op) → DocEq (applyAllD z L) (applyAllX z' (L.flatMap flatX))
  | [], _, _, h, _, _ => h
  | op :: L, z, z', h, hg, hb => by
      have e1 : applyAllD z (op :: L) = applyAllD (applyD z op) L := rfl
      have e2 : (op :: L).flatMap flatX = flatX op ++ L.flatMap flatX := by simp
      rw [e1, e2, applyAllX_append]
      rw [e2] at hg
      apply applyAllD_flat L _ (goodX_append hg) (fun o ho => hb o (mem_arrs_cons ho))
      refine docEq_trans (docEq_applyD h op) (applyD_flat hg ?_)
      intro x hx
      subst hx
      exact hb x (by rw [arrs_cons_a]; exact List.mem_cons_self)

theorem goodX_of_goodD {d : Doc} {L : List DOp} (h : GoodD d L) : GoodX d (L.flatMap flatX) := by
  obtain ⟨h1, h2, _, h4⟩ := h
  refine ⟨by rw [xo_flat]; exact h1, by rw [xe_flat]; exact h2, ?_⟩
  rw [xo_flat, xe_flat]
  intro x hx e he
  exact (h4 x hx e he).1

theorem goodD_perm {d : Doc} {L L' : List DOp} (hp : L.Perm L') (h : GoodD d L) : GoodD d L' := by
  obtain ⟨h1, h2, h3, h4⟩ := h
  have po : (objs L).Perm (objs L') := hp.filterMap _
  have pa : (arrs L).Perm (arrs L') := hp.filterMap _
  have pf : ((arrs L).flatMap flat).Perm ((arrs L').flatMap flat) := pa.flatMap_right flat
  exact ⟨good_perm po h1, goodE_perm pf h2, fun op ho => h3 op (pa.mem_iff.mpr ho),
    fun x hx e he => h4 x (po.mem_iff.mpr hx) e (pf.mem_iff.mpr he)⟩

/-- **C01/C02 for documents, mixed histories.**  Two arrival orders of the same remote document operations —
    object puts / removes and array inserts / deletes / updates (multi-target, nested values) — that are
    applicable in the start document in any order end in `ASim`-equivalent documents and, for values without
    duplicate keys in a document fit for viewing, show the same key-sorted view. -/
theorem mixed_converge {d : Doc} {L L' : List DOp} (hp : L.Perm L') (h : GoodD d L) :
    ASim (applyAllD d L) (applyAllD d L') ∧
      (ViewOK d → (∀ x ∈ objs L, OpKeysND x) → (∀ e ∈ (arrs L).flatMap flat, EKeysND e) →
        (applyAllD d L).view.canon = (applyAllD d L').view.canon) := by
  have h' : GoodD d L' := goodD_perm hp h
  have hpf : (L.flatMap flatX).Perm (L'.flatMap flatX) := hp.flatMap_right flatX
  have g := goodX_of_goodD h
  have g' := goodX_of_goodD h'
  have e1 := applyAllD_flat L (docEq_refl d) g h.2.2.1
  have e2 := applyAllD_flat L' (docEq_refl d) g' h'.2.2.1
  have hx : ASim (applyAllX d (L.flatMap flatX)) (applyAllX d (L'.flatMap flatX)) :=
    x_converge hpf g g (asim_refl d)
  constructor
  · exact asim_trans (asim_of_docEq e1) (asim_trans hx (asim_symm (asim_of_docEq e2)))
  · intro hv hko hke
    have hwf : d.WF := h.1.1
    have n1 := nodup_applyAllD L hwf.nodup
    have n2 := nodup_applyAllD L' hwf.nodup
    rw [docEq_view e1 n1 (goodX_applyAll g).nodup, docEq_view e2 n2 (goodX_applyAll g').nodup]
    have hko1 : ∀ o ∈ xo (L.flatMap flatX), OpKeysND o := by rw [xo_flat]; exact hko
    have hke1 : ∀ e ∈ xe (L.flatMap flatX), EKeysND e := by rw [xe_flat]; exact hke
    have hko2 : ∀ o ∈ xo (L'.flatMap flatX), OpKeysND o := by
      rw [xo_flat]
      intro o ho
      exact hko o ((hp.filterMap _).mem_iff.mpr ho)
    have hke2 : ∀ e ∈ xe (L'.flatMap flatX), EKeysND e := by
      rw [xe_flat]
      intro e he
      have pa : (arrs L).Perm (arrs L') := hp.filterMap _
      exact hke e ((pa.flatMap_right flat).mem_iff.mpr he)
    have v1 := viewOK_applyAllX g hv hko1 hke1
    have v2 := viewOK_applyAllX g' hv hko2 hke2
    exact asim_view_canon hx (goodX_applyAll g) v1.keys v2.keys v1.bounded v2.bounded v1.root


/-! ## F. non-vacuity: a document with an object and an array, a mixed history in two orders -/

namespace Ex
open DA.Ex

def tF : Ts := ⟨0, 6, "f", 0⟩
def tG : Ts := ⟨0, 7, "g", 0⟩
def tH : Ts := ⟨0, 8, "h", 0⟩

/-- `base` (of `DA.Ex`) is `{"a": [1, {"x": 5}, [7]]}`; `s1` is the object `{"x": 5}` inside the array.
    The history: a nested batch insert and a concurrent insert at the same place, a put of a new key into the
    inner object, a two-target update (which supersedes that object) and a two-target delete of the same
    slots, a remove of the key `x` of the inner object, a put of a new key (a nested value) into the root. -/
def L : List DOp :=
  [.a (.ins arr s0 tB [.arr [.num 1, .num 2], .str "z"]), .o (.put s1 "y" (.num 3) tF),
   .a (.ins arr s0 tC [.num 99]), .a (.upd arr tD [s1, s2] [.num 10, .arr []]), .o (.del s1 "x" tG),
   .a (.del arr [s1, s2] tE), .o (.put root "b" (.obj [("c", .arr [.num 5])]) tH)]
def L' : List DOp := L.reverse

theorem objs_L : objs L =
    [.put s1 "y" (.num 3) tF, .del s1 "x" tG, .put root "b" (.obj [("c", .arr [.num 5])]) tH] := rfl
theorem arrs_L : arrs L = DA.Ex.L := rfl
theorem flat_L : DA.Ex.L.flatMap flat =
    [i1, i2, .upd1 arr s1 tD (.num 10), .upd1 arr s2 ⟨0, 4, "d", 1⟩ (.arr []),
      .del1 arr s1 tE, .del1 arr s2 ⟨0, 5, "e", 1⟩] := rfl

theorem goodD : GoodD base L := by
  refine ⟨?_, ?_, ?_, ?_⟩
  · refine ⟨base_wf, ?_, by decide⟩
    intro o ho
    rw [objs_L] at ho
    simp only [List.mem_cons, List.mem_nil_iff, or_false] at ho
    rcases ho with rfl | rfl | rfl
    · exact ⟨⟨_, _, _, rfl, rfl⟩, ⟨_, _, _, rfl⟩, DC.Ex.fresh_of_all (by decide)⟩
    · exact ⟨_, _, _, _, rfl, rfl, rfl⟩
    · exact ⟨⟨_, _, _, rfl, rfl⟩, ⟨_, _, _, rfl⟩, DC.Ex.fresh_of_all (by decide)⟩
  · rw [arrs_L]; exact goodL
  · rw [arrs_L]; decide
  · rw [objs_L, arrs_L, flat_L]
    decide

example : L.Perm L' := (List.reverse_perm L).symm

example : ASim (applyAllD base L) (applyAllD base L') :=
  (mixed_converge (List.reverse_perm L).symm goodD).1

example : (applyAllD base L).view.canon = (applyAllD base L').view.canon :=
  (mixed_converge (List.reverse_perm L).symm goodD).2 base_viewOK
    (by
      intro x hx
      rw [objs_L] at hx
      simp only [List.mem_cons, List.mem_nil_iff, or_false] at hx
      rcases hx with rfl | rfl | rfl <;> simp [OpKeysND, JKeysND, JKeysNDList, JKeysNDKvs])
    (by
      intro e he
      rw [arrs_L, flat_L] at he
      simp only [List.mem_cons, List.mem_nil_iff, or_false] at he
      rcases he with rfl | rfl | rfl | rfl | rfl | rfl <;> simp [EKeysND, i1, i2, JKeysND, JKeysNDList])

/-- … and what the two replicas show -/
example : ((applyAllD base L).view ==
    .obj [("a", .arr [.num 1, .num 99, .arr [.num 1, .num 2], .str "z"]), ("b", .obj [("c", .arr [.num 5])])]) = true ∧
    ((applyAllD base L').view.canon == (applyAllD base L).view.canon) = true := by decide

end Ex

end Orda.DM
