/-
The store-level server (`processPack` of Model/Server, on a `Store`) REFINES the abstract server of the
protocol system `PSys` (Proofs/Protocol: `log : List Op`, `cps : List (String × CheckPoint)`).

Abstraction (per datatype id):  `absLog st duid` = the operations `getOperations duid 1` returns, in sseq
order (= the stored documents of that id in store order, `Good.absLog_eq`);  `absCps st duid` = the `rw`
client records of the datatype document, as (cuid, checkpoint) in document order;  `absRec` = `PSys.recOf`.

One step (`processPack_is_serve`, `processPack_is_refuse`, `error_iff_refused`): under `LogInv st` and
`Ordinary st cl col p d` (no create/subscribe/snapshot bit, read-write, the pack's id names a datatype
document of the client's collection with the pack's key, client not volatile, log not cut beyond the
request's sseq), `processPack st cl col p` is exactly `PStep.serve` / `PStep.refuse`, decided by the model's
own `pushOps` run from ⟨|absLog|, recorded cseq⟩ (with the protocol's labels `pDuid`/`pCol`: `pushOps` does
not depend on the labels, `pushOps_pv`):  log := log ++ accepted operations;  cps := alSet cuid cp2 cps;
response operations = ALL of the OLD log after the request's sseq (own operations included — literally
`S.log.drop r.s`, no `newForeignOps` detour needed);  response checkpoint = recorded checkpoint = `cp2`;
other clients' records, other datatypes' documents/operations, and all other collections untouched.
Whether the client is recorded already is NOT a hypothesis: an unrecorded client is served from ⟨0,0⟩,
which is `PSys.recOf`'s default.

Runs (`store_run_simulates_protocol`): `SSys` = the real store + the protocol's clients and adversarial
network; `SStep` = localOp / send / deliver as in `PStep`, `serve` = `processPack` on any request ever
sent carried as an ordinary pack (`PackOf`), plus `other` (any `processPack` answered for another datatype
id) and `frame` (anything that leaves datatypes and operations alone).  Every `SStep` is a `PStep` of the
abstraction or invisible (`store_step_simulates`), `Good` (LogInv + the target document exists) is kept, so
`PReach` of the abstraction is kept along every run.  Transferred to the store: `store_log_exactly_once`,
`store_never_refuses`.  NOT covered as steps: create / subscribe packs on the target itself (the entry
phase is `ProtocolJoin`'s subject), read-only and volatile clients, snapshot requests.  Core Lean only.
-/
import Orda.Proofs.ServerLog
import Orda.Proofs.Protocol
import Orda.Proofs.ServerContract
import Orda.Proofs.ProtocolJoin
namespace Orda.SRef
open Orda

/-! ## The abstraction -/

/-- the protocol's view of one datatype of the store: its operations in log (sseq) order -/
def absLog (st : Store) (duid : String) : List Op := (st.getOperations duid 1).map (·.op)

/-- … and the checkpoint recorded per (read-write) client in the datatype document -/
def absCps (st : Store) (duid : String) : List (String × CheckPoint) :=
  match st.getDatatype duid with
  | none => []
  | some d => d.rw.map (fun e => (e.1, e.2.cp))

/-- the server's record of client `u` for datatype `duid`, read as `PSys.recOf` reads it -/
def absRec (st : Store) (duid u : String) : CheckPoint := (alFind u (absCps st duid)).getD ⟨0, 0⟩

/-! ## `getOperations` on a gapless log -/

theorem sortOps_sorted {l : List OpDoc} (h : l.Pairwise (fun a b => a.sseq ≤ b.sseq)) : SL.sortOps l = l := by
  induction l with
  | nil => rfl
  | cons y ys ih =>
    have e : SL.sortOps (y :: ys) = Store.getOperations.ins y (SL.sortOps ys) := rfl
    rw [e, ih (List.Pairwise.of_cons h)]
    cases ys with
    | nil => rfl
    | cons x xs =>
      have : y.sseq ≤ x.sseq := List.rel_of_pairwise_cons h List.mem_cons_self
      unfold Store.getOperations.ins
      simp [this]

theorem filter_from_range (l : List OpDoc) : ∀ (a n s : Nat), l.map (·.sseq) = List.range' a n →
    l.filter (fun o => decide (a + s ≤ o.sseq)) = l.drop s := by
  induction l with
  | nil => intro a n s _; simp
  | cons x xs ih =>
    intro a n s h
    cases n with
    | zero => simp at h
    | succ n =>
      simp only [List.map_cons, List.range'_succ, List.cons.injEq] at h
      obtain ⟨hx, hxs⟩ := h
      cases s with
      | zero =>
        simp only [Nat.add_zero, List.drop_zero]
        apply List.filter_eq_self.2
        intro o ho
        rcases List.mem_cons.1 ho with ho | ho
        · subst ho; simp [hx]
        · have : o.sseq ∈ List.range' (a + 1) n := by rw [← hxs]; exact List.mem_map.2 ⟨o, ho, rfl⟩
          rw [List.mem_range'_1] at this
          simp only [decide_eq_true_eq]; omega
      | succ s =>
        have hnot : ¬ (a + (s + 1) ≤ x.sseq) := by omega
        simp only [List.filter_cons, hnot, decide_false, List.drop_succ_cons]
        have := ih (a + 1) n s hxs
        rw [← this]
        apply List.filter_congr
        intro o _
        have : a + 1 + s = a + (s + 1) := by omega
        rw [this]

theorem sorted_of_range {l : List OpDoc} {a n : Nat} (h : l.map (·.sseq) = List.range' a n) :
    l.Pairwise (fun a b => a.sseq ≤ b.sseq) := by
  have h1 : (List.range' a n).Pairwise (· < ·) := List.pairwise_lt_range'
  rw [← h, List.pairwise_map] at h1
  exact h1.imp (fun h => Nat.le_of_lt h)

/-- on a gapless log `1..E`, the operations from sseq `s+1` on are the log without its first `s` entries -/
theorem getOperations_drop {st : Store} {duid : String} {E : Nat}
    (hlog : (st.opsOf duid).map (·.sseq) = List.range' 1 E) (s : Nat) :
    st.getOperations duid (s + 1) = (st.opsOf duid).drop s := by
  rw [SL.getOperations_eq]
  have e : st.operations.filter (fun o => decide (o.duid = duid ∧ s + 1 ≤ o.sseq))
      = (st.opsOf duid).filter (fun o => decide (1 + s ≤ o.sseq)) := by
    unfold Store.opsOf
    rw [List.filter_filter]
    apply List.filter_congr
    intro o _
    by_cases h1 : o.duid = duid <;> by_cases h2 : s + 1 ≤ o.sseq <;> simp [h1, h2, Nat.add_comm 1 s]
  rw [e, filter_from_range _ 1 E s hlog]
  apply sortOps_sorted
  have := sorted_of_range hlog
  exact this.sublist (List.drop_sublist _ _)

theorem absLog_eq {st : Store} {duid : String} {E : Nat}
    (hlog : (st.opsOf duid).map (·.sseq) = List.range' 1 E) : absLog st duid = (st.opsOf duid).map (·.op) := by
  unfold absLog
  rw [getOperations_drop hlog 0, List.drop_zero]

theorem absLog_length {st : Store} {duid : String} {E : Nat}
    (hlog : (st.opsOf duid).map (·.sseq) = List.range' 1 E) : (absLog st duid).length = E := by
  rw [absLog_eq hlog, List.length_map]
  have := congrArg List.length hlog
  simpa using this

/-! ## `pushOps` does not depend on the labels it writes -/

/-- what the protocol sees of a `pushOps` result -/
def pv (r : Except Nat (CheckPoint × List OpDoc)) : Except Nat (CheckPoint × List Op) :=
  match r with
  | .ok (cp, l) => .ok (cp, l.map (·.op))
  | .error e => .error e

theorem pushOps_pv (d : String) (c : Nat) (d' : String) (c' : Nat) (ops : List Op) :
    ∀ (cp : CheckPoint) (acc acc' : List OpDoc), acc.map (·.op) = acc'.map (·.op) →
      pv (pushOps d c cp ops acc) = pv (pushOps d' c' cp ops acc') := by
  induction ops with
  | nil => intro cp acc acc' h; simp [pushOps, pv, h]
  | cons o os ih =>
    intro cp acc acc' h
    unfold pushOps
    split
    · exact ih _ _ _ (by simp [h])
    · split
      · exact ih _ _ _ h
      · rfl

theorem pushOps_ok_transfer {d : String} {c : Nat} {d' : String} {c' : Nat} {ops : List Op} {cp cp2 : CheckPoint}
    {docs : List OpDoc} (h : pushOps d c cp ops [] = .ok (cp2, docs)) :
    ∃ nd, pushOps d' c' cp ops [] = .ok (cp2, nd) ∧ nd.map (·.op) = docs.map (·.op) := by
  have := pushOps_pv d c d' c' ops cp [] [] rfl
  rw [h] at this
  cases h' : pushOps d' c' cp ops [] with
  | error e => rw [h'] at this; simp [pv] at this
  | ok r =>
    obtain ⟨cp2', nd⟩ := r
    rw [h'] at this
    simp only [pv, Except.ok.injEq, Prod.mk.injEq] at this
    exact ⟨nd, by rw [this.1], this.2.symm⟩

theorem pushOps_err_transfer {d : String} {c : Nat} {d' : String} {c' : Nat} {ops : List Op} {cp : CheckPoint}
    {code : Nat} (h : pushOps d c cp ops [] = .error code) : pushOps d' c' cp ops [] = .error code := by
  have := pushOps_pv d c d' c' ops cp [] [] rfl
  rw [h] at this
  cases h' : pushOps d' c' cp ops [] with
  | error e => rw [h'] at this; simp only [pv, Except.error.injEq] at this; rw [this]
  | ok r => obtain ⟨cp2', nd⟩ := r; rw [h'] at this; simp [pv] at this

/-! ## association lists and the datatype collection -/

theorem alFind_map {α β : Type} (f : α → β) (k : String) (l : List (String × α)) :
    alFind k (l.map (fun e => (e.1, f e.2))) = (alFind k l).map f := by
  induction l with
  | nil => rfl
  | cons x xs ih =>
    obtain ⟨k', e'⟩ := x
    by_cases h : k' = k <;> simp [alFind, h, ih]

theorem alSet_map {α β : Type} (f : α → β) (k : String) (v : α) (l : List (String × α)) :
    (alSet k v l).map (fun e => (e.1, f e.2)) = alSet k (f v) (l.map (fun e => (e.1, f e.2))) := by
  induction l with
  | nil => rfl
  | cons x xs ih =>
    obtain ⟨k', e'⟩ := x
    by_cases h : k' = k <;> simp [alSet, h, ih]

theorem getDatatype_upsert_self (d : DatatypeDoc) (l : List DatatypeDoc) :
    (upsertDatatype d l).find? (fun x => decide (x.duid = d.duid)) = some d := by
  induction l with
  | nil => simp [upsertDatatype]
  | cons x xs ih =>
    unfold upsertDatatype
    split
    · simp
    · next h => simp [h, ih]

theorem getDatatype_upsert_of_duid (d : DatatypeDoc) (l : List DatatypeDoc) {u : String} (hu : d.duid = u) :
    (upsertDatatype d l).find? (fun x => decide (x.duid = u)) = some d := by
  subst hu; exact getDatatype_upsert_self _ _

theorem getDatatype_upsert_ne (d : DatatypeDoc) (l : List DatatypeDoc) {u : String} (hu : u ≠ d.duid) :
    (upsertDatatype d l).find? (fun x => decide (x.duid = u)) = l.find? (fun x => decide (x.duid = u)) := by
  induction l with
  | nil => simp [upsertDatatype, hu.symm]
  | cons x xs ih =>
    unfold upsertDatatype
    split
    · next h =>
      have : x.duid ≠ u := by rw [h]; exact hu.symm
      simp [this, hu.symm]
    · by_cases hx : x.duid = u <;> simp [hx, ih]

/-! ## One ordinary request -/

/-- an ORDINARY request of client `cl` (registered in collection `col`) for the datatype document `d`:
    no create / subscribe / snapshot bit, read-write, the datatype the pack names by id exists in the
    client's collection under the pack's key, the client is not volatile (a volatile client is neither
    recorded nor sent anything), and the log has not been cut beyond the request's checkpoint.
    (The datatype's type, visibility, and whether the client is recorded already are NOT needed: an
    unrecorded client is served from ⟨0,0⟩, which is what `PSys.recOf` says.) -/
structure Ordinary (st : Store) (cl : ClientDoc) (col : CollectionDoc) (p : Pack) (d : DatatypeDoc) : Prop where
  noCreate : p.create = false
  noSubscribe : p.subscribe = false
  readWrite : p.readOnly = false
  noSnapshot : p.snapshot = false
  found : st.getDatatype p.duid = some d
  sameCol : d.colNum = col.num
  sameKey : d.key = p.key
  notVolatile : cl.typ ≠ 2
  logKept : d.sseqBegin ≤ p.cp.sseq + 1

section one
variable {st : Store} {cl : ClientDoc} {col : CollectionDoc} {p : Pack} {d : DatatypeDoc}

theorem Ordinary.duid (h : Ordinary st cl col p d) : d.duid = p.duid := (SL.getDatatype_some h.found).2
theorem Ordinary.mem (h : Ordinary st cl col p d) : d ∈ st.datatypes := (SL.getDatatype_some h.found).1

theorem Ordinary.served (h : Ordinary st cl col p d) : SL.Served st col p .normal d :=
  ⟨by simp [SL.opDuid, h.duid], h.sameCol, Or.inr h.mem⟩

/-- the normal form of `processPack` on an ordinary request -/
theorem Ordinary.eq_finish (h : Ordinary st cl col p d) :
    processPack st cl col p = SL.finish st cl col p .normal d := by
  have hev : evalCase st col cl.cuid p = (.usedDUID, some d) := by
    unfold evalCase
    simp [h.noCreate, h.noSubscribe, h.found, h.sameCol, h.sameKey]
  have hdsp : SL.dsp st cl col p = .normal := by
    unfold SL.dsp
    rw [hev]
    have e : dispatch .usedDUID false false true = .normal := by decide
    simp [SL.sameDuid, h.duid, h.noCreate, h.noSubscribe, e]
  rw [SL.processPack_eq, hdsp, hev]
  simp [h.readWrite, SL.docOf]

/-- the server's record as `processPack` reads it (`cp0`) is the abstract record -/
theorem Ordinary.cp0_eq (h : Ordinary st cl col p d) : SL.cp0 cl p d = absRec st p.duid cl.cuid := by
  unfold SL.cp0 absRec absCps DatatypeDoc.sub
  rw [h.found]
  simp only [h.readWrite, Bool.false_eq_true, if_false]
  rw [alFind_map (fun s : SubClient => s.cp)]
  cases alFind cl.cuid d.rw <;> rfl

theorem Ordinary.pushRes_eq (h : Ordinary st cl col p d) :
    SL.pushRes cl col p .normal d = pushOps p.duid col.num ⟨d.sseqEnd, (absRec st p.duid cl.cuid).cseq⟩ p.ops [] := by
  unfold SL.pushRes SL.cp1
  simp [h.readWrite, SL.opDuid, h.cp0_eq]

theorem Ordinary.gapless (inv : LogInv st) (h : Ordinary st cl col p d) :
    (st.opsOf p.duid).map (·.sseq) = List.range' 1 d.sseqEnd := by
  rw [← h.duid]; exact inv.gapless d h.mem

end one

/-- what "`r` is the abstract `serve` step with result `(cp2, docs)`" means for a store-level result `r` -/
structure IsServe (st : Store) (cl : ClientDoc) (p : Pack) (cp2 : CheckPoint) (docs : List OpDoc) (r : PPResult) : Prop where
  /-- the log grows by exactly the operations `pushOps` accepts -/
  log : absLog r.store p.duid = absLog st p.duid ++ docs.map (·.op)
  /-- the client's record becomes `cp2`; the association list changes exactly as in `PStep.serve` -/
  cps : absCps r.store p.duid = alSet cl.cuid cp2 (absCps st p.duid)
  /-- the response carries ALL operations of the OLD log after the request's sseq (own ones included) -/
  respOps : r.resp.ops = (absLog st p.duid).drop p.cp.sseq
  respCp : r.resp.cp = cp2
  respOk : r.resp.error = false ∧ r.resp.key = p.key ∧ r.resp.duid = p.duid
  pushed : r.pushed = docs.length
  otherClients : ∀ u, u ≠ cl.cuid → absRec r.store p.duid u = absRec st p.duid u
  otherDatatypes : ∀ u, u ≠ p.duid →
    r.store.getDatatype u = st.getDatatype u ∧ ∀ f, r.store.getOperations u f = st.getOperations u f
  otherAbs : ∀ u, u ≠ p.duid → absLog r.store u = absLog st u ∧ absCps r.store u = absCps st u
  rest : r.store.collections = st.collections ∧ r.store.counter = st.counter ∧ r.store.clients = st.clients ∧
    r.store.snapshots = st.snapshots ∧ r.store.userDocs = st.userDocs
  inv : LogInv r.store

section one
variable {st : Store} {cl : ClientDoc} {col : CollectionDoc} {p : Pack} {d : DatatypeDoc}

theorem getOperations_other {st : Store} {nd : List OpDoc} {dts : List DatatypeDoc} {v u : String}
    (hnd : ∀ o ∈ nd, o.duid = v) (hu : u ≠ v) (f : Nat) :
    ({ st with operations := st.operations ++ nd, datatypes := dts } : Store).getOperations u f = st.getOperations u f := by
  rw [SL.getOperations_eq, SL.getOperations_eq]
  show SL.sortOps ((st.operations ++ nd).filter _) = _
  rw [List.filter_append]
  have : nd.filter (fun o => decide (o.duid = u ∧ f ≤ o.sseq)) = [] := by
    rw [List.filter_eq_nil_iff]; intro o ho; simp [hnd o ho, hu.symm]
  rw [this, List.append_nil]

theorem absRec_alSet_ne {l : List (String × CheckPoint)} {u k : String} (cp : CheckPoint) (h : u ≠ k) :
    (alFind u (alSet k cp l)).getD ⟨0, 0⟩ = (alFind u l).getD ⟨0, 0⟩ := by
  rw [PR.alFind_alSet_ne _ _ h]

/-- **One ordinary request served by the store-level server is the abstract `serve` step.** -/
theorem processPack_is_serve (inv : LogInv st) (h : Ordinary st cl col p d) {cp2 : CheckPoint} {docs : List OpDoc}
    (hpush : pushOps pDuid pCol ⟨(absLog st p.duid).length, (absRec st p.duid cl.cuid).cseq⟩ p.ops [] = .ok (cp2, docs)) :
    IsServe st cl p cp2 docs (processPack st cl col p) := by
  have hlog := h.gapless inv
  rw [absLog_length hlog] at hpush
  obtain ⟨nd, hnd, hndop⟩ := pushOps_ok_transfer (d' := p.duid) (c' := col.num) hpush
  have hpr : SL.pushRes cl col p .normal d = .ok (cp2, nd) := by rw [h.pushRes_eq]; exact hnd
  have hs := h.served
  have heq : processPack st cl col p = SL.okR st cl col p .normal d cp2 nd := by
    rw [h.eq_finish]; unfold SL.finish; rw [hpr]
  obtain ⟨hn1, hn2, _, hn4, _, _⟩ := SL.pushRes_spec hs hpr
  have hndu : ∀ o ∈ nd, o.duid = p.duid := fun o ho => (hn1 o ho).1.trans h.duid
  -- the recorded and returned checkpoint is `cp2`
  have hc3 : SL.cp3 st cl p .normal d cp2 nd = cp2 := by
    obtain ⟨ha, hb⟩ := SL.cp3_spec (cl := cl) (cp2 := cp2) (nd := nd) inv hs
    rcases hb with hb | hb
    · have h4 := hn4 h.readWrite
      generalize SL.cp3 st cl p .normal d cp2 nd = c3 at ha hb
      cases c3; cases cp2
      simp only [] at ha hb h4
      rw [ha, hb, h4]
    · exact hb
  have inv' : LogInv (SL.okR st cl col p .normal d cp2 nd).store := SL.logInv_okR inv hs hpr
  have h2du : (SL.doc2 st cl p .normal d cp2 nd).duid = p.duid := (SL.doc2_duid ..).trans h.duid
  have hget : (SL.okR st cl col p .normal d cp2 nd).store.getDatatype p.duid = some (SL.doc2 st cl p .normal d cp2 nd) := by
    show (upsertDatatype _ st.datatypes).find? _ = _
    rw [← h2du]; exact getDatatype_upsert_self _ _
  have hrw : (SL.doc2 st cl p .normal d cp2 nd).rw = alSet cl.cuid ⟨cp2, cl.typ⟩ d.rw := by
    unfold SL.doc2 DatatypeDoc.setSub
    simp [h.notVolatile, h.readWrite, hc3]
  have hcps : absCps (SL.okR st cl col p .normal d cp2 nd).store p.duid = alSet cl.cuid cp2 (absCps st p.duid) := by
    unfold absCps
    rw [hget, h.found]
    simp only [hrw]
    exact alSet_map (fun s : SubClient => s.cp) cl.cuid ⟨cp2, cl.typ⟩ d.rw
  have hother : ∀ u, u ≠ p.duid →
      (SL.okR st cl col p .normal d cp2 nd).store.getDatatype u = st.getDatatype u ∧
      ∀ f, (SL.okR st cl col p .normal d cp2 nd).store.getOperations u f = st.getOperations u f := by
    intro u hu
    refine ⟨?_, fun f => getOperations_other hndu hu f⟩
    show (upsertDatatype _ st.datatypes).find? _ = _
    exact getDatatype_upsert_ne _ _ (by rw [h2du]; exact hu)
  rw [heq]
  refine ⟨?_, hcps, ?_, ?_, ⟨rfl, rfl, ?_⟩, ?_, ?_, hother, ?_, ⟨rfl, rfl, rfl, rfl, rfl⟩, inv'⟩
  · -- the log
    have hmem : SL.doc2 st cl p .normal d cp2 nd ∈ (SL.okR st cl col p .normal d cp2 nd).store.datatypes :=
      SL.self_mem_upsert _ _
    have hlog' := inv'.gapless _ hmem
    rw [h2du] at hlog'
    rw [absLog_eq hlog', absLog_eq hlog, ← hndop]
    show ((st.operations ++ nd).filter _).map _ = _
    rw [List.filter_append, List.map_append]
    have : nd.filter (fun o => decide (o.duid = p.duid)) = nd :=
      List.filter_eq_self.2 (fun o ho => by simp [hndu o ho])
    rw [this]; rfl
  · -- the pulled operations
    show (SL.pulled st cl p .normal d).map (·.op) = _
    have : SL.pulled st cl p .normal d = st.getOperations p.duid (p.cp.sseq + 1) := by
      unfold SL.pulled
      simp [h.notVolatile, h.logKept, h.noSnapshot, SL.opDuid]
    rw [this, getOperations_drop hlog, absLog_eq hlog, List.map_drop]
  · show SL.cp3 st cl p .normal d cp2 nd = cp2
    exact hc3
  · show (SL.resp1 p .normal d).duid = p.duid
    simp [SL.resp1, SL.resp0]
  · show nd.length = docs.length
    have := congrArg List.length hndop
    simpa using this
  · intro u hu
    unfold absRec
    rw [hcps]; exact absRec_alSet_ne cp2 hu
  · intro u hu
    obtain ⟨h1, h2⟩ := hother u hu
    constructor
    · unfold absLog; rw [h2]
    · unfold absCps; rw [h1]

end one

section one
variable {st : Store} {cl : ClientDoc} {col : CollectionDoc} {p : Pack} {d : DatatypeDoc}

/-- **… and when `pushOps` refuses (a gap in the client's sequence numbers), the store is unchanged and the
    response is the error pack carrying `pushOps`' code: the abstract `refuse`.** -/
theorem processPack_is_refuse (inv : LogInv st) (h : Ordinary st cl col p d) {code : Nat}
    (hpush : pushOps pDuid pCol ⟨(absLog st p.duid).length, (absRec st p.duid cl.cuid).cseq⟩ p.ops [] = .error code) :
    let r := processPack st cl col p
    r.store = st ∧ r.resp.error = true ∧ r.resp.ops = [⟨OpId.nil, .error code⟩] ∧
    r.resp.key = p.key ∧ r.resp.duid = p.duid ∧ r.pushed = 0 ∧ r.notif = none := by
  have hlog := h.gapless inv
  rw [absLog_length hlog] at hpush
  have hpr : SL.pushRes cl col p .normal d = .error code := by
    rw [h.pushRes_eq]; exact pushOps_err_transfer hpush
  have heq : processPack st cl col p = SL.pushErrR st p .normal d code := by
    rw [h.eq_finish]; unfold SL.finish; rw [hpr]
  simp only [heq]
  refine ⟨rfl, rfl, rfl, rfl, ?_, rfl, rfl⟩
  simp [SL.pushErrR, SL.resp1, SL.resp0]

/-- an ordinary request is answered with an error pack exactly when `pushOps` refuses it -/
theorem error_iff_refused (inv : LogInv st) (h : Ordinary st cl col p d) :
    (processPack st cl col p).resp.error = true ↔
      ∃ code, pushOps pDuid pCol ⟨(absLog st p.duid).length, (absRec st p.duid cl.cuid).cseq⟩ p.ops [] = .error code := by
  cases hp : pushOps pDuid pCol ⟨(absLog st p.duid).length, (absRec st p.duid cl.cuid).cseq⟩ p.ops [] with
  | error code => exact ⟨fun _ => ⟨code, rfl⟩, fun _ => (processPack_is_refuse inv h hp).2.1⟩
  | ok r =>
    obtain ⟨cp2, docs⟩ := r
    have := (processPack_is_serve inv h hp).respOk.1
    constructor
    · intro he; rw [this] at he; cases he
    · rintro ⟨code, hc⟩; cases hc

end one

/-! ## Runs: the store-level system and its simulation by `PSys` -/

/-- the store-level system: the REAL store, together with the protocol's clients and its adversarial
    network (requests ever sent, responses ever produced) -/
structure SSys where
  st : Store
  clients : List PClient
  reqs : List PReq
  resps : List PResp

/-- the datatype whose protocol is observed: its id, its key, the collection it lives in -/
structure Target where
  col : CollectionDoc
  duid : String
  key : String

/-- the abstraction function -/
def SSys.abs (T : SSys) (tg : Target) : PSys :=
  ⟨T.clients, absLog T.st tg.duid, absCps T.st tg.duid, T.reqs, T.resps⟩

/-- pack `p` carries request `r` for the target as an ordinary push-pull pack (what `WDt.createPack` builds
    for a subscribed datatype: no option bit, the client's sseq, its pending operations) -/
structure PackOf (tg : Target) (r : PReq) (p : Pack) : Prop where
  key : p.key = tg.key
  duid : p.duid = tg.duid
  noCreate : p.create = false
  noSubscribe : p.subscribe = false
  readWrite : p.readOnly = false
  noSnapshot : p.snapshot = false
  ops : p.ops = r.ops
  sseq : p.cp.sseq = r.s

/-- the pack the model's client builds for a subscribed datatype (`WDt.createPack`) is such a pack, for the
    request ⟨its sseq, its pending operations⟩ -/
theorem packOf_createPack {tg : Target} (w : WDt) (i : Nat) (hs : w.dstate = .subscribed)
    (hk : w.key = tg.key) (hd : w.duid = tg.duid) : PackOf tg ⟨i, w.rep.cp.sseq, w.rep.pending⟩ w.createPack := by
  refine ⟨hk, hd, ?_, ?_, rfl, rfl, rfl, rfl⟩ <;> simp [WDt.createPack, hs]

/-- the response the network carries back for a store-level result -/
def respOf (i : Nat) (r : PPResult) : List PResp := if r.resp.error then [] else [⟨i, r.resp.ops, r.resp.cp⟩]

inductive SStep (tg : Target) : SSys → SSys → Prop
  /-- as `PStep.localOp` -/
  | localOp (T : SSys) (i : Nat) (cl : PClient) (o : Op) :
      T.clients[i]? = some cl → o.id.cuid = cl.cuid → o.id.seq = cl.buf.length + 1 →
      SStep tg T { T with clients := T.clients.set i { cl with buf := cl.buf ++ [o] } }
  /-- as `PStep.send`: the request is cut from the client's buffer -/
  | send (T : SSys) (i : Nat) (cl : PClient) :
      T.clients[i]? = some cl →
      SStep tg T { T with reqs := T.reqs ++ [⟨i, cl.cp.sseq, cl.buf.drop cl.cp.cseq⟩] }
  /-- the STORE-LEVEL server handles any request ever sent, as an ordinary pack of the (non-volatile)
      client document `cd`, by `processPack`; its answer, unless an error pack, joins the responses -/
  | serve (T : SSys) (r : PReq) (cl : PClient) (cd : ClientDoc) (p : Pack) :
      r ∈ T.reqs → T.clients[r.i]? = some cl → cd.cuid = cl.cuid → cd.typ ≠ 2 → PackOf tg r p →
      SStep tg T { T with st := (processPack T.st cd tg.col p).store,
                          resps := T.resps ++ respOf r.i (processPack T.st cd tg.col p) }
  /-- as `PStep.deliver` -/
  | deliver (T : SSys) (p : PResp) (cl : PClient) :
      p ∈ T.resps → T.clients[p.i]? = some cl →
      SStep tg T { T with clients := T.clients.set p.i (cl.receive p) }
  /-- ANY pack of ANY client in ANY collection that is answered for another datatype id -/
  | other (T : SSys) (cd : ClientDoc) (col : CollectionDoc) (p : Pack) :
      (processPack T.st cd col p).resp.duid ≠ tg.duid →
      SStep tg T { T with st := (processPack T.st cd col p).store }
  /-- anything that leaves the datatype and operation collections alone (`makeCollection`,
      `processClient`, `updateSnapshot`, …) -/
  | frame (T : SSys) (st' : Store) :
      st'.datatypes = T.st.datatypes → st'.operations = T.st.operations → SStep tg T { T with st := st' }

/-- what the runs keep: the log invariant, and the target exists, in its collection, under its key, with
    an uncut log -/
structure Good (tg : Target) (T : SSys) : Prop where
  inv : LogInv T.st
  target : ∃ d, T.st.getDatatype tg.duid = some d ∧ d.colNum = tg.col.num ∧ d.key = tg.key ∧ d.sseqBegin ≤ 1

inductive SRun (tg : Target) : SSys → SSys → Prop
  | refl (T : SSys) : SRun tg T T
  | step {T T' T'' : SSys} : SRun tg T T' → SStep tg T' T'' → SRun tg T T''

/-! ### the target's document after a request; requests on other datatypes -/

theorem doc2_key_begin (st : Store) (cl : ClientDoc) (p : Pack) (dd : Dispatch) (doc : DatatypeDoc) (cp2 : CheckPoint)
    (nd : List OpDoc) : (SL.doc2 st cl p dd doc cp2 nd).key = doc.key ∧
      (SL.doc2 st cl p dd doc cp2 nd).sseqBegin = doc.sseqBegin := by
  unfold SL.doc2 DatatypeDoc.setSub; simp only []; split
  · exact ⟨rfl, rfl⟩
  · split <;> exact ⟨rfl, rfl⟩

/-- after an ordinary request (served or refused) the datatype document is still there, in its
    collection, under its key, with the same beginning of the log -/
theorem Ordinary.doc_after {st : Store} {cl : ClientDoc} {col : CollectionDoc} {p : Pack} {d : DatatypeDoc}
    (h : Ordinary st cl col p d) :
    ∃ d', (processPack st cl col p).store.getDatatype p.duid = some d' ∧ d'.colNum = d.colNum ∧ d'.key = d.key ∧
      d'.sseqBegin = d.sseqBegin := by
  rw [h.eq_finish]
  unfold SL.finish
  cases SL.pushRes cl col p .normal d with
  | error code => exact ⟨d, h.found, rfl, rfl, rfl⟩
  | ok r =>
    obtain ⟨cp2, nd⟩ := r
    refine ⟨SL.doc2 st cl p .normal d cp2 nd, ?_, SL.doc2_colNum .., (doc2_key_begin ..).1, (doc2_key_begin ..).2⟩
    show (upsertDatatype _ st.datatypes).find? _ = _
    have h2du : (SL.doc2 st cl p .normal d cp2 nd).duid = p.duid := (SL.doc2_duid ..).trans h.duid
    rw [← h2du]; exact getDatatype_upsert_self _ _

theorem find?_of_filter_eq {α : Type} {l l' : List α} {q f : α → Bool} (hq : ∀ x, f x = true → q x = true)
    (h : l'.filter q = l.filter q) : l'.find? f = l.find? f := by
  have e : ∀ m : List α, (m.filter q).find? f = m.find? f := by
    intro m
    rw [List.find?_filter]
    congr 1
    funext a
    by_cases hf : f a = true
    · simp [hf, hq a hf]
    · simp [hf]
  rw [← e l', ← e l, h]

theorem filter_of_filter_eq {α : Type} {l l' : List α} {q f : α → Bool} (hq : ∀ x, f x = true → q x = true)
    (h : l'.filter q = l.filter q) : l'.filter f = l.filter f := by
  have e : ∀ m : List α, (m.filter q).filter f = m.filter f := by
    intro m
    rw [List.filter_filter]
    apply List.filter_congr
    intro a _
    by_cases hf : f a = true
    · simp [hf, hq a hf]
    · simp [hf]
  rw [← e l', ← e l, h]

/-- a store that agrees with `st` on the datatype documents and operations of every id but `v` is the
    same to the protocol of any other datatype `u` -/
theorem abs_of_frame {st st' : Store} {u v : String} (hu : u ≠ v)
    (hd : st'.datatypes.filter (fun d => d.duid ≠ v) = st.datatypes.filter (fun d => d.duid ≠ v))
    (ho : st'.operations.filter (fun o => o.duid ≠ v) = st.operations.filter (fun o => o.duid ≠ v)) :
    st'.getDatatype u = st.getDatatype u ∧ absLog st' u = absLog st u ∧ absCps st' u = absCps st u := by
  have h1 : st'.getDatatype u = st.getDatatype u := by
    unfold Store.getDatatype
    exact find?_of_filter_eq (fun x hx => by simp at hx; simp [hx, hu]) hd
  refine ⟨h1, ?_, ?_⟩
  · unfold absLog
    rw [SL.getOperations_eq, SL.getOperations_eq]
    rw [filter_of_filter_eq (fun x hx => by simp at hx; simp [hx.1, hu]) ho]
  · unfold absCps; rw [h1]

theorem abs_of_same {st st' : Store} (hd : st'.datatypes = st.datatypes) (ho : st'.operations = st.operations) (u : String) :
    st'.getDatatype u = st.getDatatype u ∧ absLog st' u = absLog st u ∧ absCps st' u = absCps st u := by
  have h1 : st'.getDatatype u = st.getDatatype u := by unfold Store.getDatatype; rw [hd]
  refine ⟨h1, ?_, ?_⟩
  · unfold absLog; rw [SL.getOperations_eq, SL.getOperations_eq, ho]
  · unfold absCps; rw [h1]

/-! ### one step of the store-level system is one step of the protocol system (or invisible) -/

theorem Good.ordinary {tg : Target} {T : SSys} (g : Good tg T) {r : PReq} {p : Pack} {cd : ClientDoc}
    (hp : PackOf tg r p) (hv : cd.typ ≠ 2) : ∃ d, Ordinary T.st cd tg.col p d := by
  obtain ⟨d, hd, hc, hk, hb⟩ := g.target
  exact ⟨d, hp.noCreate, hp.noSubscribe, hp.readWrite, hp.noSnapshot, by rw [hp.duid]; exact hd, hc,
    by rw [hk, hp.key], hv, by omega⟩

theorem serve_simulates {tg : Target} {T : SSys} (g : Good tg T) {r : PReq} {cl : PClient} {cd : ClientDoc} {p : Pack}
    (hr : r ∈ T.reqs) (hi : T.clients[r.i]? = some cl) (hcu : cd.cuid = cl.cuid) (hv : cd.typ ≠ 2) (hp : PackOf tg r p) :
    PStep (T.abs tg) (SSys.abs { T with st := (processPack T.st cd tg.col p).store,
                                        resps := T.resps ++ respOf r.i (processPack T.st cd tg.col p) } tg) := by
  obtain ⟨d, hord⟩ := g.ordinary hp hv
  cases hpush : pushOps pDuid pCol ⟨(absLog T.st p.duid).length, (absRec T.st p.duid cd.cuid).cseq⟩ p.ops [] with
  | ok res =>
    obtain ⟨cp2, docs⟩ := res
    have hs := processPack_is_serve g.inv hord hpush
    have e1 : absLog (processPack T.st cd tg.col p).store tg.duid = absLog T.st tg.duid ++ docs.map (·.op) := by
      have := hs.log; rwa [hp.duid] at this
    have e2 : absCps (processPack T.st cd tg.col p).store tg.duid = alSet cl.cuid cp2 (absCps T.st tg.duid) := by
      have := hs.cps; rwa [hp.duid, hcu] at this
    have e3 : respOf r.i (processPack T.st cd tg.col p) = [⟨r.i, (absLog T.st tg.duid).drop r.s, cp2⟩] := by
      unfold respOf
      rw [hs.respOk.1, hs.respOps, hs.respCp, hp.duid, hp.sseq]
      rfl
    rw [hp.duid, hcu, hp.ops] at hpush
    have hstep := PStep.serve (T.abs tg) r cl cp2 docs hr hi hpush
    show PStep (T.abs tg) ⟨T.clients, absLog (processPack T.st cd tg.col p).store tg.duid,
      absCps (processPack T.st cd tg.col p).store tg.duid, T.reqs, T.resps ++ respOf r.i (processPack T.st cd tg.col p)⟩
    rw [e1, e2, e3]
    exact hstep
  | error code =>
    obtain ⟨h1, h2, _⟩ := processPack_is_refuse g.inv hord hpush
    have e3 : respOf r.i (processPack T.st cd tg.col p) = [] := by
      unfold respOf; rw [h2]; rfl
    rw [hp.duid, hcu, hp.ops] at hpush
    have hstep := PStep.refuse (T.abs tg) r cl code hr hi hpush
    show PStep (T.abs tg) ⟨T.clients, absLog (processPack T.st cd tg.col p).store tg.duid,
      absCps (processPack T.st cd tg.col p).store tg.duid, T.reqs, T.resps ++ respOf r.i (processPack T.st cd tg.col p)⟩
    rw [e3, h1, List.append_nil]
    exact hstep

theorem store_step_simulates {tg : Target} {T T' : SSys} (g : Good tg T) (s : SStep tg T T') :
    Good tg T' ∧ (PStep (T.abs tg) (T'.abs tg) ∨ T'.abs tg = T.abs tg) := by
  cases s with
  | localOp i cl o hi hu hs => exact ⟨⟨g.inv, g.target⟩, Or.inl (PStep.localOp (T.abs tg) i cl o hi hu hs)⟩
  | send i cl hi => exact ⟨⟨g.inv, g.target⟩, Or.inl (PStep.send (T.abs tg) i cl hi)⟩
  | deliver q cl hq hi => exact ⟨⟨g.inv, g.target⟩, Or.inl (PStep.deliver (T.abs tg) q cl hq hi)⟩
  | serve r cl cd p hr hi hcu hv hp =>
    refine ⟨⟨logInv_processPack _ _ _ _ g.inv, ?_⟩, Or.inl (serve_simulates g hr hi hcu hv hp)⟩
    obtain ⟨d, hord⟩ := g.ordinary hp hv
    obtain ⟨d0, hd0, hc0, hk0, hb0⟩ := g.target
    have : d0 = d := by
      have := hord.found; rw [hp.duid, hd0] at this; exact Option.some.inj this
    subst this
    obtain ⟨d', h1, h2, h3, h4⟩ := hord.doc_after
    exact ⟨d', by rw [← hp.duid]; exact h1, h2.trans hc0, h3.trans hk0, by rw [h4]; exact hb0⟩
  | other cd col p hne =>
    obtain ⟨hd, ho⟩ := frame_other_datatypes T.st cd col p
    obtain ⟨h1, h2, h3⟩ := abs_of_frame (u := tg.duid) (fun e => hne e.symm) hd ho
    refine ⟨⟨logInv_processPack _ _ _ _ g.inv, ?_⟩, Or.inr ?_⟩
    · show ∃ d, (processPack T.st cd col p).store.getDatatype tg.duid = some d ∧ _
      rw [h1]; exact g.target
    · show PSys.mk _ _ _ _ _ = PSys.mk _ _ _ _ _
      rw [h2, h3]
  | frame st' hd ho =>
    obtain ⟨h1, h2, h3⟩ := abs_of_same hd ho tg.duid
    refine ⟨⟨SL.logInv_congr hd ho g.inv, ?_⟩, Or.inr ?_⟩
    · show ∃ d, st'.getDatatype tg.duid = some d ∧ _
      rw [h1]; exact g.target
    · show PSys.mk _ _ _ _ _ = PSys.mk _ _ _ _ _
      rw [h2, h3]

/-- **Runs.**  Every run of the store-level system — local operations, requests cut from the clients'
    buffers, `processPack` serving any request ever sent any number of times as an ordinary pack,
    deliveries of any response ever produced in any order, interleaved with arbitrary requests on other
    datatypes and with administrative changes — is matched step by step by the protocol system under the
    abstraction `SSys.abs`: from a good store whose abstraction is protocol-reachable, every state of the
    run is good and its abstraction is protocol-reachable. -/
theorem store_run_simulates_protocol {tg : Target} {cuids : List String} {T0 T : SSys}
    (g0 : Good tg T0) (h0 : PReach cuids (T0.abs tg)) (run : SRun tg T0 T) :
    Good tg T ∧ PReach cuids (T.abs tg) := by
  induction run with
  | refl => exact ⟨g0, h0⟩
  | step _ s ih =>
    obtain ⟨g, h⟩ := ih
    obtain ⟨g', hs⟩ := store_step_simulates g s
    refine ⟨g', ?_⟩
    rcases hs with hs | hs
    · exact PReach.step h hs
    · rw [hs]; exact h

/-! ### the protocol invariants, as theorems about the STORE -/

theorem Good.absLog_eq {tg : Target} {T : SSys} (g : Good tg T) :
    absLog T.st tg.duid = (T.st.opsOf tg.duid).map (·.op) := by
  obtain ⟨d, hd, _⟩ := g.target
  obtain ⟨hm, hdu⟩ := SL.getDatatype_some hd
  have := g.inv.gapless d hm
  rw [hdu] at this
  exact SRef.absLog_eq this

/-- **Exactly once, on the store.**  In every state of a run of the store-level system, the operation
    documents stored for the target, in store order (which is sseq order, and what `getOperations` returns),
    carry: no (client, seq) pair twice; exactly the operations issued by the clients and acknowledged by
    the server's records; per client, its acknowledged operations in the order it issued them; and every
    client has applied exactly the foreign operations of the log prefix it has seen, each once, in log
    order — whatever was duplicated, lost, delayed or reordered on the way. -/
theorem store_log_exactly_once {tg : Target} {cuids : List String} {T0 T : SSys}
    (g0 : Good tg T0) (h0 : PReach cuids (T0.abs tg)) (run : SRun tg T0 T) :
    let log := (T.st.opsOf tg.duid).map (·.op)
    (T.st.getOperations tg.duid 1).map (·.op) = log ∧
    (log.map (fun o => (o.id.cuid, o.id.seq))).Nodup ∧
    (∀ o, o ∈ log ↔ ∃ cl ∈ T.clients, o ∈ cl.buf.take (absRec T.st tg.duid cl.cuid).cseq) ∧
    ∀ cl ∈ T.clients,
      log.filter (fun o => o.id.cuid = cl.cuid) = cl.buf.take (absRec T.st tg.duid cl.cuid).cseq ∧
      cl.applied = (log.take cl.cp.sseq).filter (fun o => o.id.cuid ≠ cl.cuid) := by
  obtain ⟨g, h⟩ := store_run_simulates_protocol g0 h0 run
  intro log
  have e : absLog T.st tg.duid = log := g.absLog_eq
  refine ⟨e, ?_, ?_, ?_⟩
  · have := log_ids_nodup h
    rw [← e]; exact this
  · have := log_is_exactly_issued h
    rw [← e]; exact this
  · intro cl hcl
    have := proto_inv_client h cl hcl
    rw [← e]
    exact ⟨this.1, this.2.2.2.2.2⟩

/-- **No spurious refusal, on the store.**  In every state of a run, `processPack` answers any request ever
    sent (a retry, a duplicate, a late one), carried as an ordinary pack, without an error. -/
theorem store_never_refuses {tg : Target} {cuids : List String} {T0 T : SSys}
    (g0 : Good tg T0) (h0 : PReach cuids (T0.abs tg)) (run : SRun tg T0 T)
    {r : PReq} {cl : PClient} {cd : ClientDoc} {p : Pack}
    (hr : r ∈ T.reqs) (hi : T.clients[r.i]? = some cl) (hcu : cd.cuid = cl.cuid) (hv : cd.typ ≠ 2) (hp : PackOf tg r p) :
    (processPack T.st cd tg.col p).resp.error = false := by
  obtain ⟨g, h⟩ := store_run_simulates_protocol g0 h0 run
  obtain ⟨d, hord⟩ := g.ordinary hp hv
  obtain ⟨cp2, docs, hpush⟩ := never_refused h (r := r) (cl := cl) hr hi
  have hpush' : pushOps pDuid pCol ⟨(absLog T.st p.duid).length, (absRec T.st p.duid cd.cuid).cseq⟩ p.ops [] = .ok (cp2, docs) := by
    rw [hp.duid, hcu, hp.ops]; exact hpush
  exact (processPack_is_serve g.inv hord hpush').respOk.1

/-- the initial state: any good store in which the target has no operation and no recorded client yet -/
def SSys.init (st0 : Store) (cuids : List String) : SSys :=
  ⟨st0, cuids.map (fun u => ⟨u, [], ⟨0, 0⟩, []⟩), [], []⟩

theorem abs_init {tg : Target} {st0 : Store} (cuids : List String)
    (hl : absLog st0 tg.duid = []) (hc : absCps st0 tg.duid = []) : (SSys.init st0 cuids).abs tg = PSys.init cuids := by
  show PSys.mk _ (absLog st0 tg.duid) (absCps st0 tg.duid) _ _ = PSys.mk _ _ _ _ _
  rw [hl, hc]
  rfl

theorem store_run_from_fresh {tg : Target} {cuids : List String} {st0 : Store} {T : SSys} (hnd : cuids.Nodup)
    (g0 : Good tg (SSys.init st0 cuids)) (hl : absLog st0 tg.duid = []) (hc : absCps st0 tg.duid = [])
    (run : SRun tg (SSys.init st0 cuids) T) : Good tg T ∧ PReach cuids (T.abs tg) :=
  store_run_simulates_protocol g0 (by rw [abs_init cuids hl hc]; exact PReach.init hnd) run

/-! ### the RPC entry point -/

/-- `processPushPull` with one pack, for a client registered in the collection, is `processPack` -/
theorem processPushPull_single {st : Store} {colName cuid : String} {col : CollectionDoc} {cl : ClientDoc} (p : Pack)
    (hc : st.getCollection colName = some col) (hcl : st.getClient cuid = some cl) (hn : cl.colNum = col.num) :
    (st.processPushPull colName cuid [p]).1 = (processPack st cl col p).store ∧
    (st.processPushPull colName cuid [p]).2.1 = .ok [(processPack st cl col p).resp] := by
  rw [SL.processPushPull_eq, hc, hcl]
  simp [hn, SL.step]

/-- what the client does with the store's answer is what it does with the abstract answer (they are equal) -/
theorem receive_same {st : Store} {cl : ClientDoc} {col : CollectionDoc} {p : Pack} {d : DatatypeDoc}
    (inv : LogInv st) (h : Ordinary st cl col p d) {cp2 : CheckPoint} {docs : List OpDoc}
    (hpush : pushOps pDuid pCol ⟨(absLog st p.duid).length, (absRec st p.duid cl.cuid).cseq⟩ p.ops [] = .ok (cp2, docs))
    (pc : PClient) (i : Nat) :
    pc.receive ⟨i, (processPack st cl col p).resp.ops, (processPack st cl col p).resp.cp⟩ =
      pc.receive ⟨i, (absLog st p.duid).drop p.cp.sseq, cp2⟩ := by
  rw [(processPack_is_serve inv h hpush).respOps, (processPack_is_serve inv h hpush).respCp]

/-! ## Bonus: the SUBSCRIBE request, store level = `JStep.serveSub` of Proofs/ProtocolJoin

`ProtocolJoin`'s header reads the subscribe path off `processPack` informally; this is the theorem: under
the same abstraction, a subscribe request served by `processPack` has exactly the effect of
`JStep.serveSub` — log unchanged, record := ⟨|log|, recorded cseq⟩, answer = the log after the request's
sseq with that checkpoint and the subscribe bit (and it tells the client the stored datatype id). -/

/-- a SUBSCRIBE request (no create bit, read-write, no snapshot bit) of a non-volatile client for a key
    that exists in its collection, with the right type, visible, stored under another id than the one
    the client's fresh datatype object carries, log not cut beyond the request's sseq -/
structure SubscribeReq (st : Store) (cl : ClientDoc) (col : CollectionDoc) (p : Pack) (d : DatatypeDoc) : Prop where
  subscribe : p.subscribe = true
  noCreate : p.create = false
  readWrite : p.readOnly = false
  noSnapshot : p.snapshot = false
  byKey : st.getDatatypeByKey col.num p.key = some d
  sameType : d.typ = p.typ
  visible : d.visible = true
  otherId : d.duid ≠ p.duid
  notVolatile : cl.typ ≠ 2
  logKept : d.sseqBegin ≤ p.cp.sseq + 1

theorem getDatatype_of_mem {st : Store} (inv : LogInv st) {d : DatatypeDoc} (hm : d ∈ st.datatypes) :
    st.getDatatype d.duid = some d := by
  cases hg : st.getDatatype d.duid with
  | none => exact absurd rfl (SL.getDatatype_none hg d hm)
  | some x =>
    obtain ⟨hx, hxd⟩ := SL.getDatatype_some hg
    rw [SL.eq_of_nodup_duid inv.duidNodup hx hm hxd]

theorem processPack_is_serveSub {st : Store} {cl : ClientDoc} {col : CollectionDoc} {p : Pack} {d : DatatypeDoc}
    (inv : LogInv st) (h : SubscribeReq st cl col p d) :
    let r := processPack st cl col p
    let cp2 : CheckPoint := ⟨(absLog st d.duid).length, (absRec st d.duid cl.cuid).cseq⟩
    absLog r.store d.duid = absLog st d.duid ∧
    absCps r.store d.duid = alSet cl.cuid cp2 (absCps st d.duid) ∧
    r.resp.ops = (absLog st d.duid).drop p.cp.sseq ∧
    r.resp.cp = cp2 ∧
    r.resp.error = false ∧ r.resp.subscribe = true ∧ r.resp.duid = d.duid ∧ r.resp.key = p.key ∧
    r.store.operations = st.operations ∧ r.pushed = 0 ∧
    (∀ u, u ≠ d.duid → r.store.getDatatype u = st.getDatatype u) ∧
    LogInv r.store := by
  obtain ⟨hm, hcol⟩ := SL.getDatatypeByKey_some h.byKey
  have hget := getDatatype_of_mem inv hm
  have hs : SL.Served st col p .subscribe d := ⟨by simp [SL.opDuid], hcol, Or.inr hm⟩
  have hlog : (st.opsOf d.duid).map (·.sseq) = List.range' 1 d.sseqEnd := inv.gapless d hm
  have hc0 : SL.cp0 cl p d = absRec st d.duid cl.cuid := by
    unfold SL.cp0 absRec absCps DatatypeDoc.sub
    rw [hget]
    simp only [h.readWrite, Bool.false_eq_true, if_false]
    rw [alFind_map (fun s : SubClient => s.cp)]
    cases alFind cl.cuid d.rw <;> rfl
  have heq := PJ.processPack_subscribe st cl col p d h.subscribe h.noCreate h.readWrite h.byKey h.sameType h.visible h.otherId
  rw [hc0] at heq
  have hpr : SL.pushRes cl col p .subscribe d = .ok (⟨d.sseqEnd, (absRec st d.duid cl.cuid).cseq⟩, []) := by
    unfold SL.pushRes SL.cp1
    simp [h.readWrite, pushOps, hc0]
  intro r cp2
  have hcp2 : cp2 = ⟨d.sseqEnd, (absRec st d.duid cl.cuid).cseq⟩ := by
    show CheckPoint.mk _ _ = _
    rw [absLog_length hlog]
  have hc3 : SL.cp3 st cl p .subscribe d ⟨d.sseqEnd, (absRec st d.duid cl.cuid).cseq⟩ [] = cp2 := by
    rw [hcp2]
    obtain ⟨ha, hb⟩ := SL.cp3_spec (cl := cl) (cp2 := ⟨d.sseqEnd, (absRec st d.duid cl.cuid).cseq⟩) (nd := []) inv hs
    rcases hb with hb | hb
    · generalize SL.cp3 st cl p .subscribe d ⟨d.sseqEnd, (absRec st d.duid cl.cuid).cseq⟩ [] = c3 at ha hb
      cases c3
      simp only [List.length_nil, Nat.add_zero] at ha hb
      rw [ha, hb]
    · exact hb
  have hr : r = SL.okR st cl col p .subscribe d ⟨d.sseqEnd, (absRec st d.duid cl.cuid).cseq⟩ [] := heq
  have inv' : LogInv r.store := by rw [hr]; exact SL.logInv_okR inv hs hpr
  have hops : r.store.operations = st.operations := by rw [hr]; simp [SL.okR]
  have h2du := SL.doc2_duid st cl p .subscribe d ⟨d.sseqEnd, (absRec st d.duid cl.cuid).cseq⟩ []
  have hget' : r.store.getDatatype d.duid
      = some (SL.doc2 st cl p .subscribe d ⟨d.sseqEnd, (absRec st d.duid cl.cuid).cseq⟩ []) := by
    rw [hr]
    show (upsertDatatype _ st.datatypes).find? _ = _
    exact getDatatype_upsert_of_duid _ _ h2du
  have hrw : (SL.doc2 st cl p .subscribe d ⟨d.sseqEnd, (absRec st d.duid cl.cuid).cseq⟩ []).rw
      = alSet cl.cuid ⟨cp2, cl.typ⟩ d.rw := by
    unfold SL.doc2 DatatypeDoc.setSub
    simp [h.notVolatile, h.readWrite, hc3]
  refine ⟨?_, ?_, ?_, ?_, ?_, ?_, ?_, ?_, hops, ?_, ?_, inv'⟩
  · unfold absLog; rw [SL.getOperations_eq, SL.getOperations_eq, hops]
  · unfold absCps
    rw [hget', hget]
    simp only [hrw]
    exact alSet_map (fun s : SubClient => s.cp) cl.cuid ⟨cp2, cl.typ⟩ d.rw
  · rw [hr]
    show (SL.pulled st cl p .subscribe d).map (·.op) = _
    have : SL.pulled st cl p .subscribe d = st.getOperations d.duid (p.cp.sseq + 1) := by
      unfold SL.pulled
      simp [h.notVolatile, h.logKept, h.noSnapshot, SL.opDuid]
    rw [this, getOperations_drop hlog, absLog_eq hlog, List.map_drop]
  · rw [hr]; exact hc3
  · rw [hr]; rfl
  · rw [hr]; simp [SL.okR, SL.resp1]
  · rw [hr]; simp [SL.okR, SL.resp1]
  · rw [hr]; rfl
  · rw [hr]; rfl
  · intro u hu
    rw [hr]
    show (upsertDatatype _ st.datatypes).find? _ = _
    exact getDatatype_upsert_ne _ _ (by rw [h2du]; exact hu)

/-! ## Non-vacuity

A concrete store: collection "c" made, clients "a" and "b" registered, datatype "k" created by a's create
pack (carrying its snapshot operation `a1`), b subscribed (its datatype object has another id, "d2"; the
answer tells it the stored id "d1").  Then ONE ordinary push-pull of b carrying `b1`. -/
namespace Ex

def col : CollectionDoc := ⟨"c", 1⟩
def a1 : Op := ⟨⟨0, 1, "a", 1⟩, .snapshot (.counter 0)⟩
def b1 : Op := ⟨⟨0, 2, "b", 1⟩, .increase 5⟩
def packCreate : Pack := { key := "k", duid := "d1", create := true, cp := ⟨0, 1⟩, typ := .counter, ops := [a1] }
def packSub : Pack := { key := "k", duid := "d2", subscribe := true, cp := ⟨0, 0⟩, typ := .counter, ops := [] }
def packB : Pack := { key := "k", duid := "d1", cp := ⟨1, 1⟩, typ := .counter, ops := [b1] }

def s0 : Store := (({} : Store).makeCollection "c").1
def s1 : Store := (s0.processClient false "c" ⟨"a", "alice", 0, 0, 0⟩).1
def s2 : Store := (s1.processClient false "c" ⟨"b", "bob", 0, 0, 0⟩).1
def cA : ClientDoc := ⟨"a", "alice", 1, 0, 0⟩
def cB : ClientDoc := ⟨"b", "bob", 1, 0, 0⟩
def s3 : Store := (processPack s2 cA col packCreate).store
def s4 : Store := (processPack s3 cB col packSub).store
def s5 : Store := (processPack s4 cB col packB).store

example : s2.getCollection "c" = some col ∧ s2.getClient "a" = some cA ∧ s2.getClient "b" = some cB := ⟨rfl, rfl, rfl⟩

def d4 : DatatypeDoc := ⟨"d1", "k", 1, .counter, 0, 1, 0, true, [("a", ⟨⟨1, 1⟩, 0⟩), ("b", ⟨⟨1, 0⟩, 0⟩)], []⟩

theorem inv4 : LogInv s4 :=
  logInv_processPack _ _ _ _ (logInv_processPack _ _ _ _ (logInv_processClient _ _ _ _
    (logInv_processClient _ _ _ _ (logInv_makeCollection _ _ logInv_empty))))

theorem ord : Ordinary s4 cB col packB d4 := ⟨rfl, rfl, rfl, rfl, rfl, rfl, rfl, by decide, by decide⟩

theorem push : pushOps pDuid pCol ⟨(absLog s4 packB.duid).length, (absRec s4 packB.duid cB.cuid).cseq⟩ packB.ops []
    = .ok (⟨2, 1⟩, [⟨pDuid, pCol, 2, b1⟩]) := rfl

example : absLog s5 "d1" = [a1, b1] := (processPack_is_serve inv4 ord push).log
example : absCps s5 "d1" = [("a", ⟨1, 1⟩), ("b", ⟨2, 1⟩)] := (processPack_is_serve inv4 ord push).cps
example : (processPack s4 cB col packB).resp.ops = [] ∧ (processPack s4 cB col packB).resp.cp = ⟨2, 1⟩ :=
  ⟨(processPack_is_serve inv4 ord push).respOps, (processPack_is_serve inv4 ord push).respCp⟩
example : absLog s4 "d1" = [a1] ∧ absLog s5 "d1" = [a1, b1] := ⟨rfl, rfl⟩

/-! a run -/
def tg : Target := ⟨col, "d1", "k"⟩
def A : PClient := ⟨"a", [a1], ⟨1, 1⟩, []⟩
def reqA : PReq := ⟨0, 0, [a1]⟩
def reqB0 : PReq := ⟨1, 0, []⟩
def respA : PResp := ⟨0, [], ⟨1, 1⟩⟩
def respB0 : PResp := ⟨1, [a1], ⟨1, 0⟩⟩
def reqB1 : PReq := ⟨1, 1, [b1]⟩
def respB1 : PResp := ⟨1, [], ⟨2, 1⟩⟩
def T4 : SSys := ⟨s4, [A, ⟨"b", [], ⟨1, 0⟩, [a1]⟩], [reqA, reqB0], [respA, respB0]⟩
def T5 : SSys := ⟨s5, [A, ⟨"b", [b1], ⟨2, 1⟩, [a1]⟩], [reqA, reqB0, reqB1], [respA, respB0, respB1]⟩

theorem good4 : Good tg T4 := ⟨inv4, d4, rfl, rfl, rfl, by decide⟩

def A0 (buf : List Op) : PClient := ⟨"a", buf, ⟨0, 0⟩, []⟩
def B0 : PClient := ⟨"b", [], ⟨0, 0⟩, []⟩
def B4 : PClient := ⟨"b", [], ⟨1, 0⟩, [a1]⟩
def cpsA : List (String × CheckPoint) := [("a", ⟨1, 1⟩)]
def cpsAB : List (String × CheckPoint) := [("a", ⟨1, 1⟩), ("b", ⟨1, 0⟩)]
def P1 : PSys := ⟨[A0 [a1], B0], [], [], [], []⟩
def P2 : PSys := ⟨[A0 [a1], B0], [], [], [reqA], []⟩
def P3 : PSys := ⟨[A0 [a1], B0], [a1], cpsA, [reqA], [respA]⟩
def P4 : PSys := ⟨[A, B0], [a1], cpsA, [reqA], [respA]⟩
def P5 : PSys := ⟨[A, B0], [a1], cpsA, [reqA, reqB0], [respA]⟩
def P6 : PSys := ⟨[A, B0], [a1], cpsAB, [reqA, reqB0], [respA, respB0]⟩
def P7 : PSys := ⟨[A, B4], [a1], cpsAB, [reqA, reqB0], [respA, respB0]⟩

/-- the abstraction of the store-level state after create and subscribe IS that protocol state -/
theorem abs4 : T4.abs tg = P7 := rfl

theorem reach4 : PReach ["a", "b"] (T4.abs tg) := by
  have h0 : PReach ["a", "b"] (PSys.init ["a", "b"]) := .init (by decide)
  have h1 : PReach ["a", "b"] P1 := .step h0 (.localOp _ 0 (A0 []) a1 rfl rfl rfl)
  have h2 : PReach ["a", "b"] P2 := .step h1 (.send _ 0 (A0 [a1]) rfl)
  have h3 : PReach ["a", "b"] P3 :=
    .step h2 (.serve _ reqA (A0 [a1]) ⟨1, 1⟩ [⟨pDuid, pCol, 1, a1⟩] (by simp [P2]) rfl rfl)
  have h4 : PReach ["a", "b"] P4 := .step h3 (.deliver _ respA (A0 [a1]) (by simp [P3]) rfl)
  have h5 : PReach ["a", "b"] P5 := .step h4 (.send _ 1 B0 rfl)
  have h6 : PReach ["a", "b"] P6 := .step h5 (.serve _ reqB0 B0 ⟨1, 0⟩ [] (by simp [P5]) rfl rfl)
  have h7 : PReach ["a", "b"] P7 := .step h6 (.deliver _ respB0 B0 (by simp [P6]) rfl)
  exact h7

def T4a : SSys := ⟨s4, [A, ⟨"b", [b1], ⟨1, 0⟩, [a1]⟩], [reqA, reqB0], [respA, respB0]⟩
def T4b : SSys := ⟨s4, [A, ⟨"b", [b1], ⟨1, 0⟩, [a1]⟩], [reqA, reqB0, reqB1], [respA, respB0]⟩
def T4c : SSys := ⟨s5, [A, ⟨"b", [b1], ⟨1, 0⟩, [a1]⟩], [reqA, reqB0, reqB1], [respA, respB0, respB1]⟩

theorem run45 : SRun tg T4 T5 := by
  have r1 : SRun tg T4 T4a := .step (.refl T4) (.localOp _ 1 B4 b1 rfl rfl rfl)
  have r2 : SRun tg T4 T4b := .step r1 (.send _ 1 ⟨"b", [b1], ⟨1, 0⟩, [a1]⟩ rfl)
  have r3 : SRun tg T4 T4c := .step r2 (.serve _ reqB1 ⟨"b", [b1], ⟨1, 0⟩, [a1]⟩ cB packB (by simp [T4b]) rfl rfl (by decide)
    ⟨rfl, rfl, rfl, rfl, rfl, rfl, rfl, rfl⟩)
  exact .step r3 (.deliver _ respB1 ⟨"b", [b1], ⟨1, 0⟩, [a1]⟩ (by simp [T4c]) rfl)

example : PReach ["a", "b"] (T5.abs tg) := (store_run_simulates_protocol good4 reach4 run45).2

/-- exactly-once, read off the STORE s5, from the theorem … -/
example : ((s5.opsOf "d1").map (·.op)).filter (fun o => o.id.cuid = "b") = [b1] :=
  ((store_log_exactly_once good4 reach4 run45).2.2.2 ⟨"b", [b1], ⟨2, 1⟩, [a1]⟩ (by simp [T5])).1
/-- … and by evaluation -/
example : (s5.opsOf "d1").map (·.op) = [a1, b1] := rfl

/-! the subscribe request of b (from s3 to s4) satisfies `SubscribeReq`, and `processPack_is_serveSub` gives
    the record ⟨1, 0⟩ and the answer `[a1]` -/
def d3 : DatatypeDoc := ⟨"d1", "k", 1, .counter, 0, 1, 0, true, [("a", ⟨⟨1, 1⟩, 0⟩)], []⟩

theorem inv3 : LogInv s3 :=
  logInv_processPack _ _ _ _ (logInv_processClient _ _ _ _
    (logInv_processClient _ _ _ _ (logInv_makeCollection _ _ logInv_empty)))

theorem subReq : SubscribeReq s3 cB col packSub d3 :=
  ⟨rfl, rfl, rfl, rfl, rfl, rfl, rfl, by decide, by decide, by decide⟩

example : absCps s4 "d1" = [("a", ⟨1, 1⟩), ("b", ⟨1, 0⟩)] ∧ (processPack s3 cB col packSub).resp.ops = [a1] ∧
    (processPack s3 cB col packSub).resp.duid = "d1" :=
  ⟨(processPack_is_serveSub inv3 subReq).2.1, (processPack_is_serveSub inv3 subReq).2.2.1,
   (processPack_is_serveSub inv3 subReq).2.2.2.2.2.2.1⟩

/-! Why the hypotheses of `Ordinary` are there (each `rfl` evaluates `processPack`): a VOLATILE client is
    sent nothing and not recorded although its operation is stored; with the SNAPSHOT bit nothing is
    pulled; the abstract `serve` would answer with `[a1]` from sseq 0 in both cases. -/
example : (processPack s4 ⟨"b", "bob", 1, 2, 0⟩ col { packB with cp := ⟨0, 1⟩ }).resp.ops = [] ∧
    absCps (processPack s4 ⟨"b", "bob", 1, 2, 0⟩ col { packB with cp := ⟨0, 1⟩ }).store "d1" = absCps s4 "d1" ∧
    absLog (processPack s4 ⟨"b", "bob", 1, 2, 0⟩ col { packB with cp := ⟨0, 1⟩ }).store "d1" = [a1, b1] ∧
    (absLog s4 "d1").drop 0 = [a1] := ⟨rfl, rfl, rfl, rfl⟩
example : (processPack s4 cB col { packB with cp := ⟨0, 1⟩, snapshot := true }).resp.ops = [] ∧
    (processPack s4 cB col { packB with cp := ⟨0, 1⟩ }).resp.ops = [a1] := ⟨rfl, rfl⟩

end Ex

end Orda.SRef
