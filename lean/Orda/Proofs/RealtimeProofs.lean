/-
Proofs about the realtime small-step model (Orda/Model/Realtime.lean); core Lean only.

A. `rt_quiescent_converged`   no lost wake-up: reachable ∧ quiescent → converged (inductive invariant `Inv`);
   `rt_quiescent_converged_of_guards`: the same for every setting of the guards with
   `notifySyncTakesSema = false ∧ deliverRechecks = true` (so `ownFilter`, `needPullGuard`, `deliverTryAcquire`
   are irrelevant for this safety property).
B. `rt_progress` (something in flight can always be processed), `rt_measure_decreases` (the measure `μ` strictly
   decreases in every step other than a local operation), `rt_terminates`, `rt_terminates_acc`,
   `rt_no_infinite_run`, `rt_reaches_converged`.
C. explicit traces: `rt_notifySema_lost_wakeup`, `rt_noRecheck_never_pushed`; `rt_noPullGuard_converged`.
D. `rt_nonvacuous`.
-/
import Orda.Model.Realtime
namespace Orda.Rt

/-! ## Lookup helpers -/

theorem get_set_cases {α : Type} {l : List α} {i j : Nat} {a c : α}
    (h : (l.set i a)[j]? = some c) :
    (j = i ∧ c = a ∧ i < l.length) ∨ (j ≠ i ∧ l[j]? = some c) := by
  rw [List.getElem?_set] at h
  by_cases hij : i = j
  · subst hij
    simp at h
    left; exact ⟨rfl, h.2.symm, h.1⟩
  · simp [hij] at h
    right; exact ⟨fun e => hij e.symm, h⟩

theorem get_publish {l : List Client} {src e j : Nat} {c : Client}
    (h : (publish l src e)[j]? = some c) :
    ∃ c0, l[j]? = some c0 ∧ c = { c0 with notifs := c0.notifs ++ [(src, e)] } := by
  unfold publish at h
  rw [List.getElem?_map] at h
  cases h0 : l[j]? with
  | none => simp [h0] at h
  | some c0 => simp [h0] at h; exact ⟨c0, rfl, h.symm⟩

theorem lt_of_get {l : List Client} {i : Nat} {c : Client} (h : l[i]? = some c) : i < l.length := by
  have := List.getElem?_eq_some_iff.mp h
  exact this.1


theorem mem_split_cases {α : Type} {x a : α} {pre post : List α} (h : x ∈ pre ++ a :: post) :
    x = a ∨ x ∈ pre ++ post := by
  rw [List.mem_append, List.mem_cons] at h
  rw [List.mem_append]
  rcases h with h | h | h
  · exact Or.inr (Or.inl h)
  · exact Or.inl h
  · exact Or.inr (Or.inr h)

theorem mem_of_mem_split {α : Type} {x a : α} {pre post : List α} (h : x ∈ pre ++ post) :
    x ∈ pre ++ a :: post := by
  rw [List.mem_append] at h
  rw [List.mem_append, List.mem_cons]
  rcases h with h | h
  · exact Or.inl h
  · exact Or.inr (Or.inr h)

/-! ## The invariant -/

/-- a delivery (holder of the semaphore) of client `i` is in flight -/
def HasDeliver (S : Sys) (i : Nat) : Prop :=
  (∃ r ∈ S.reqs, r.c = i ∧ r.kind = .deliver) ∨ (∃ p ∈ S.resps, p.c = i ∧ p.kind = .deliver)

/-- client `i` is at the end of the log, or something is on its way that will bring it there -/
def PullOk (S : Sys) (i : Nat) (cl : Client) : Prop :=
  cl.sseq = S.logEnd ∨ (∃ m ∈ cl.notifs, m.1 ≠ i ∧ m.2 = S.logEnd) ∨ (∃ r ∈ S.reqs, r.c = i) ∨
    (∃ p ∈ S.resps, p.c = i ∧ p.sseq = S.logEnd)

structure Inv (S : Sys) : Prop where
  len : S.srvCseq.length = S.clients.length
  reqIdx : ∀ r ∈ S.reqs, r.c < S.clients.length
  respIdx : ∀ p ∈ S.resps, p.c < S.clients.length
  srvLe : ∀ (i : Nat) (cl : Client) (h : Nat), S.clients[i]? = some cl → S.srvCseq[i]? = some h → h ≤ cl.issued ∧ cl.acked ≤ h
  sseqLe : ∀ (i : Nat) (cl : Client), S.clients[i]? = some cl → cl.sseq ≤ S.logEnd
  reqLe : ∀ r ∈ S.reqs, ∀ cl : Client, S.clients[r.c]? = some cl → r.upto ≤ cl.issued
  respLe : ∀ p ∈ S.resps, p.sseq ≤ S.logEnd ∧ ∀ h, S.srvCseq[p.c]? = some h → p.cseq ≤ h
  pull : ∀ (i : Nat) (cl : Client), S.clients[i]? = some cl → PullOk S i cl
  push : ∀ (i : Nat) (cl : Client), S.clients[i]? = some cl → cl.acked = cl.issued ∨ 0 < cl.spawned ∨ HasDeliver S i
  sema : ∀ (i : Nat) (cl : Client), S.clients[i]? = some cl → cl.sema = true → HasDeliver S i

theorem HasDeliver.mono {S S' : Sys} {j : Nat} (hr : ∀ r ∈ S.reqs, r ∈ S'.reqs)
    (hp : ∀ p ∈ S.resps, p ∈ S'.resps) : HasDeliver S j → HasDeliver S' j := by
  rintro (⟨r, hm, h⟩ | ⟨p, hm, h⟩)
  · exact Or.inl ⟨r, hr r hm, h⟩
  · exact Or.inr ⟨p, hp p hm, h⟩

theorem inv_init (n : Nat) : Inv (Sys.init n) where
  len := by simp [Sys.init]
  reqIdx := by simp [Sys.init]
  respIdx := by simp [Sys.init]
  srvLe := by
    intro i cl h hi hh
    simp [Sys.init, List.getElem?_replicate] at hi hh
    obtain ⟨_, rfl⟩ := hi
    obtain ⟨_, rfl⟩ := hh
    simp
  sseqLe := by
    intro i cl hi
    simp [Sys.init, List.getElem?_replicate] at hi
    obtain ⟨_, rfl⟩ := hi
    simp [Sys.init]
  reqLe := by simp [Sys.init]
  respLe := by simp [Sys.init]
  pull := by
    intro i cl hi
    simp [Sys.init, List.getElem?_replicate] at hi
    obtain ⟨_, rfl⟩ := hi
    left; simp [Sys.init]
  push := by
    intro i cl hi
    simp [Sys.init, List.getElem?_replicate] at hi
    obtain ⟨_, rfl⟩ := hi
    left; rfl
  sema := by
    intro i cl hi hs
    simp [Sys.init, List.getElem?_replicate] at hi
    obtain ⟨_, rfl⟩ := hi
    simp at hs


theorem PullOk.mono {S S' : Sys} {j : Nat} {c c' : Client} (hl : S'.logEnd = S.logEnd)
    (hs : c.sseq = S.logEnd → c'.sseq = S.logEnd)
    (hn : ∀ m ∈ c.notifs, m.1 ≠ j → m.2 = S.logEnd → (m ∈ c'.notifs ∨ c'.sseq = S.logEnd ∨ ∃ r ∈ S'.reqs, r.c = j))
    (hr : ∀ r ∈ S.reqs, r.c = j → (∃ r' ∈ S'.reqs, r'.c = j) ∨ ∃ p ∈ S'.resps, p.c = j ∧ p.sseq = S.logEnd)
    (hp : ∀ p ∈ S.resps, p.c = j → p.sseq = S.logEnd → p ∈ S'.resps ∨ c'.sseq = S.logEnd) :
    PullOk S j c → PullOk S' j c' := by
  unfold PullOk
  rw [hl]
  rintro (h | ⟨m, hm, h1, h2⟩ | ⟨r, hm, h⟩ | ⟨p, hm, h1, h2⟩)
  · exact Or.inl (hs h)
  · rcases hn m hm h1 h2 with h | h | h
    · exact Or.inr (Or.inl ⟨m, h, h1, h2⟩)
    · exact Or.inl h
    · exact Or.inr (Or.inr (Or.inl h))
  · rcases hr r hm h with h | h
    · exact Or.inr (Or.inr (Or.inl h))
    · exact Or.inr (Or.inr (Or.inr h))
  · rcases hp p hm h1 h2 with h | h
    · exact Or.inr (Or.inr (Or.inr ⟨p, h, h1, h2⟩))
    · exact Or.inl h

/-- frame: a step that touches only fields of client `i` that the invariant of OTHER clients ignores -/
theorem PullOk.frame {S S' : Sys} {j : Nat} {c : Client} (hl : S'.logEnd = S.logEnd)
    (hr : ∀ r ∈ S.reqs, r ∈ S'.reqs) (hp : ∀ p ∈ S.resps, p ∈ S'.resps) :
    PullOk S j c → PullOk S' j c :=
  PullOk.mono hl (fun h => h) (fun _ hm _ _ => Or.inl hm)
    (fun r hm h => Or.inl ⟨r, hr r hm, h⟩) (fun p hm _ _ => Or.inl (hp p hm))

theorem inv_localOp {S : Sys} (I : Inv S) {i : Nat} {cl : Client} (hcl : S.clients[i]? = some cl) :
    Inv (setC S i { cl with issued := cl.issued + 1, spawned := cl.spawned + 1 }) where
  len := by simp [setC, I.len]
  reqIdx := by intro r hr; simpa [setC] using I.reqIdx r hr
  respIdx := by intro r hr; simpa [setC] using I.respIdx r hr
  srvLe := by
    intro j c h hj hh
    rcases get_set_cases hj with ⟨rfl, rfl, _⟩ | ⟨_, hj'⟩
    · have := I.srvLe _ cl h hcl hh
      exact ⟨Nat.le_succ_of_le this.1, this.2⟩
    · exact I.srvLe j c h hj' hh
  sseqLe := by
    intro j c hj
    rcases get_set_cases hj with ⟨rfl, rfl, _⟩ | ⟨_, hj'⟩
    · exact I.sseqLe _ cl hcl
    · exact I.sseqLe j c hj'
  reqLe := by
    intro r hr c hj
    rcases get_set_cases hj with ⟨h1, rfl, _⟩ | ⟨_, hj'⟩
    · exact Nat.le_succ_of_le (I.reqLe r hr cl (h1 ▸ hcl))
    · exact I.reqLe r hr c hj'
  respLe := I.respLe
  pull := by
    intro j c hj
    rcases get_set_cases hj with ⟨rfl, rfl, _⟩ | ⟨_, hj'⟩
    · exact PullOk.mono (S := S) rfl (fun h => h) (fun m hm _ _ => Or.inl hm)
        (fun r hm h => Or.inl ⟨r, hm, h⟩) (fun p hm _ _ => Or.inl hm) (I.pull _ cl hcl)
    · exact I.pull j c hj'
  push := by
    intro j c hj
    rcases get_set_cases hj with ⟨rfl, rfl, _⟩ | ⟨_, hj'⟩
    · exact Or.inr (Or.inl (Nat.succ_pos _))
    · exact I.push j c hj'
  sema := by
    intro j c hj hs
    rcases get_set_cases hj with ⟨rfl, rfl, _⟩ | ⟨_, hj'⟩
    · exact I.sema _ cl hcl hs
    · exact I.sema j c hj' hs

theorem inv_deliverBusy {S : Sys} (I : Inv S) {i : Nat} {cl : Client} (hcl : S.clients[i]? = some cl)
    (hsema : cl.sema = true) :
    Inv (setC S i { cl with spawned := cl.spawned - 1 }) where
  len := by simp [setC, I.len]
  reqIdx := by intro r hr; simpa [setC] using I.reqIdx r hr
  respIdx := by intro r hr; simpa [setC] using I.respIdx r hr
  srvLe := by
    intro j c h hj hh
    rcases get_set_cases hj with ⟨rfl, rfl, _⟩ | ⟨_, hj'⟩
    · exact I.srvLe _ cl h hcl hh
    · exact I.srvLe j c h hj' hh
  sseqLe := by
    intro j c hj
    rcases get_set_cases hj with ⟨rfl, rfl, _⟩ | ⟨_, hj'⟩
    · exact I.sseqLe _ cl hcl
    · exact I.sseqLe j c hj'
  reqLe := by
    intro r hr c hj
    rcases get_set_cases hj with ⟨h1, rfl, _⟩ | ⟨_, hj'⟩
    · exact I.reqLe r hr cl (h1 ▸ hcl)
    · exact I.reqLe r hr c hj'
  respLe := I.respLe
  pull := by
    intro j c hj
    rcases get_set_cases hj with ⟨rfl, rfl, _⟩ | ⟨_, hj'⟩
    · exact PullOk.mono (S := S) rfl (fun h => h) (fun m hm _ _ => Or.inl hm)
        (fun r hm h => Or.inl ⟨r, hm, h⟩) (fun p hm _ _ => Or.inl hm) (I.pull _ cl hcl)
    · exact I.pull j c hj'
  push := by
    intro j c hj
    rcases get_set_cases hj with ⟨rfl, rfl, _⟩ | ⟨_, hj'⟩
    · exact Or.inr (Or.inr (I.sema _ cl hcl hsema))
    · exact I.push j c hj'
  sema := by
    intro j c hj hs
    rcases get_set_cases hj with ⟨rfl, rfl, _⟩ | ⟨_, hj'⟩
    · exact I.sema _ cl hcl hs
    · exact I.sema j c hj' hs

theorem inv_deliverGo {S : Sys} (I : Inv S) {i : Nat} {cl : Client} (hcl : S.clients[i]? = some cl) :
    Inv { (setC S i { cl with spawned := cl.spawned - 1, sema := true }) with
            reqs := S.reqs ++ [⟨i, .deliver, cl.issued⟩] } where
  len := by simp [setC, I.len]
  reqIdx := by
    intro r hr
    simp only [setC, List.mem_append, List.mem_singleton, List.length_set] at hr ⊢
    rcases hr with hr | rfl
    · exact I.reqIdx r hr
    · exact lt_of_get hcl
  respIdx := by intro r hr; simpa [setC] using I.respIdx r hr
  srvLe := by
    intro j c h hj hh
    rcases get_set_cases hj with ⟨rfl, rfl, _⟩ | ⟨_, hj'⟩
    · exact I.srvLe _ cl h hcl hh
    · exact I.srvLe j c h hj' hh
  sseqLe := by
    intro j c hj
    rcases get_set_cases hj with ⟨rfl, rfl, _⟩ | ⟨_, hj'⟩
    · exact I.sseqLe _ cl hcl
    · exact I.sseqLe j c hj'
  reqLe := by
    intro r hr c hj
    simp only [List.mem_append, List.mem_singleton] at hr
    rcases hr with hr | rfl
    · rcases get_set_cases hj with ⟨h1, rfl, _⟩ | ⟨_, hj'⟩
      · exact I.reqLe r hr cl (h1 ▸ hcl)
      · exact I.reqLe r hr c hj'
    · rcases get_set_cases hj with ⟨_, rfl, _⟩ | ⟨h1, _⟩
      · exact Nat.le_refl _
      · exact absurd rfl h1
  respLe := I.respLe
  pull := by
    intro j c hj
    rcases get_set_cases hj with ⟨rfl, rfl, _⟩ | ⟨_, hj'⟩
    · exact PullOk.mono (S := S) rfl (fun h => h) (fun m hm _ _ => Or.inl hm)
        (fun r hm h => Or.inl ⟨r, List.mem_append_left _ hm, h⟩) (fun p hm _ _ => Or.inl hm)
        (I.pull _ cl hcl)
    · exact PullOk.frame (S := S) rfl (fun r hm => List.mem_append_left _ hm) (fun p hm => hm) (I.pull j c hj')
  push := by
    intro j c hj
    rcases get_set_cases hj with ⟨rfl, rfl, _⟩ | ⟨_, hj'⟩
    · exact Or.inr (Or.inr (Or.inl ⟨⟨j, .deliver, cl.issued⟩, by simp, rfl, rfl⟩))
    · rcases I.push j c hj' with h | h | h
      · exact Or.inl h
      · exact Or.inr (Or.inl h)
      · exact Or.inr (Or.inr (h.mono (fun r hm => List.mem_append_left _ hm) (fun p hm => hm)))
  sema := by
    intro j c hj hs
    rcases get_set_cases hj with ⟨rfl, rfl, _⟩ | ⟨_, hj'⟩
    · exact Or.inl ⟨⟨j, .deliver, cl.issued⟩, by simp, rfl, rfl⟩
    · exact (I.sema j c hj' hs).mono (fun r hm => List.mem_append_left _ hm) (fun p hm => hm)


/-! ### serve -/

/-- the target state of `Step.serve`, without `let` -/
def serveResult (S : Sys) (r : Req) (pre post : List Req) (hv : Nat) : Sys :=
  { S with reqs := pre ++ post, logEnd := S.logEnd + (r.upto - hv),
           srvCseq := S.srvCseq.set r.c (max hv r.upto),
           clients := if r.upto - hv = 0 then S.clients
                      else publish S.clients r.c (S.logEnd + (r.upto - hv)),
           resps := S.resps ++ [⟨r.c, r.kind, S.logEnd + (r.upto - hv), max hv r.upto⟩] }

theorem serve_client {S : Sys} {r : Req} {pre post : List Req} {hv j : Nat} {c' : Client}
    (hj : (serveResult S r pre post hv).clients[j]? = some c') :
    ∃ c, S.clients[j]? = some c ∧
      ((r.upto - hv = 0 ∧ c' = c) ∨
       (r.upto - hv ≠ 0 ∧ c' = { c with notifs := c.notifs ++ [(r.c, S.logEnd + (r.upto - hv))] })) := by
  unfold serveResult at hj
  by_cases h0 : r.upto - hv = 0
  · simp only [h0, if_true] at hj
    exact ⟨c', hj, Or.inl ⟨h0, rfl⟩⟩
  · simp only [h0, if_false] at hj
    obtain ⟨c, h1, h2⟩ := get_publish hj
    exact ⟨c, h1, Or.inr ⟨h0, h2⟩⟩

theorem serve_len (S : Sys) (r : Req) (pre post : List Req) (hv : Nat) :
    (serveResult S r pre post hv).clients.length = S.clients.length := by
  unfold serveResult publish
  by_cases h0 : r.upto - hv = 0 <;> simp [h0]

theorem serve_hasDeliver {S : Sys} {r : Req} {pre post : List Req} {hv j : Nat}
    (hreqs : S.reqs = pre ++ r :: post) :
    HasDeliver S j → HasDeliver (serveResult S r pre post hv) j := by
  rintro (⟨r', hm, h1, h2⟩ | ⟨p, hm, h⟩)
  · rw [hreqs] at hm
    rcases mem_split_cases hm with rfl | hm'
    · exact Or.inr ⟨⟨r'.c, r'.kind, S.logEnd + (r'.upto - hv), max hv r'.upto⟩, by simp [serveResult], h1, h2⟩
    · exact Or.inl ⟨r', hm', h1, h2⟩
  · exact Or.inr ⟨p, List.mem_append_left _ hm, h⟩

theorem inv_serve {S : Sys} (I : Inv S) {r : Req} {pre post : List Req} {hv : Nat}
    (hreqs : S.reqs = pre ++ r :: post) (hsrv : S.srvCseq[r.c]? = some hv) :
    Inv (serveResult S r pre post hv) := by
  have hrmem : r ∈ S.reqs := by rw [hreqs]; simp
  have hsub : ∀ r' ∈ pre ++ post, r' ∈ S.reqs := fun r' h => hreqs ▸ mem_of_mem_split h
  exact
  { len := by rw [serve_len]; simp [serveResult, I.len]
    reqIdx := by
      intro r' hr'
      rw [serve_len]
      exact I.reqIdx r' (hsub r' hr')
    respIdx := by
      intro p hp
      rw [serve_len]
      simp only [serveResult, List.mem_append, List.mem_singleton] at hp
      rcases hp with hp | rfl
      · exact I.respIdx p hp
      · exact I.reqIdx r hrmem
    srvLe := by
      intro j c' h hj hh
      obtain ⟨c, hc, hcc⟩ := serve_client hj
      have hia : c'.issued = c.issued ∧ c'.acked = c.acked := by
        rcases hcc with ⟨_, rfl⟩ | ⟨_, rfl⟩ <;> exact ⟨rfl, rfl⟩
      rw [hia.1, hia.2]
      rcases get_set_cases hh with ⟨rfl, rfl, _⟩ | ⟨_, hh'⟩
      · have b := I.srvLe _ c hv hc hsrv
        have b2 := I.reqLe r hrmem c hc
        omega
      · exact I.srvLe j c h hc hh'
    sseqLe := by
      intro j c' hj
      obtain ⟨c, hc, hcc⟩ := serve_client hj
      have hs : c'.sseq = c.sseq := by
        rcases hcc with ⟨_, rfl⟩ | ⟨_, rfl⟩ <;> rfl
      rw [hs]
      exact Nat.le_trans (I.sseqLe j c hc) (Nat.le_add_right _ _)
    reqLe := by
      intro r' hr' c' hj
      obtain ⟨c, hc, hcc⟩ := serve_client hj
      have hs : c'.issued = c.issued := by
        rcases hcc with ⟨_, rfl⟩ | ⟨_, rfl⟩ <;> rfl
      rw [hs]
      exact I.reqLe r' (hsub r' hr') c hc
    respLe := by
      intro p hp
      simp only [serveResult, List.mem_append, List.mem_singleton] at hp
      rcases hp with hp | rfl
      · refine ⟨Nat.le_trans (I.respLe p hp).1 (Nat.le_add_right _ _), ?_⟩
        intro h hh
        rcases get_set_cases hh with ⟨h1, rfl, _⟩ | ⟨_, hh'⟩
        · have := (I.respLe p hp).2 hv (h1 ▸ hsrv)
          omega
        · exact (I.respLe p hp).2 h hh'
      · refine ⟨Nat.le_refl _, ?_⟩
        intro h hh
        rcases get_set_cases hh with ⟨_, rfl, _⟩ | ⟨h1, _⟩
        · exact Nat.le_refl _
        · exact absurd rfl h1
    pull := by
      intro j c' hj
      obtain ⟨c, hc, hcc⟩ := serve_client hj
      rcases hcc with ⟨h0, rfl⟩ | ⟨h0, rfl⟩
      · refine PullOk.mono (S := S) (by simp [serveResult, h0]) (fun h => h) (fun m hm _ _ => Or.inl hm)
          ?_ (fun p hm _ _ => Or.inl (List.mem_append_left _ hm)) (I.pull j c' hc)
        intro r' hm h
        rw [hreqs] at hm
        rcases mem_split_cases hm with rfl | hm'
        · exact Or.inr ⟨⟨r'.c, r'.kind, S.logEnd + (r'.upto - hv), max hv r'.upto⟩,
            by simp [serveResult], h, by simp [h0]⟩
        · exact Or.inl ⟨r', hm', h⟩
      · by_cases hjr : j = r.c
        · exact Or.inr (Or.inr (Or.inr ⟨⟨r.c, r.kind, S.logEnd + (r.upto - hv), max hv r.upto⟩,
            by simp [serveResult], hjr.symm, rfl⟩))
        · exact Or.inr (Or.inl ⟨(r.c, S.logEnd + (r.upto - hv)), by simp, fun e => hjr e.symm, rfl⟩)
    push := by
      intro j c' hj
      obtain ⟨c, hc, hcc⟩ := serve_client hj
      have hs : c'.issued = c.issued ∧ c'.acked = c.acked ∧ c'.spawned = c.spawned := by
        rcases hcc with ⟨_, rfl⟩ | ⟨_, rfl⟩ <;> exact ⟨rfl, rfl, rfl⟩
      rw [hs.1, hs.2.1, hs.2.2]
      rcases I.push j c hc with h | h | h
      · exact Or.inl h
      · exact Or.inr (Or.inl h)
      · exact Or.inr (Or.inr (serve_hasDeliver hreqs h))
    sema := by
      intro j c' hj hsm
      obtain ⟨c, hc, hcc⟩ := serve_client hj
      have hs : c'.sema = c.sema := by
        rcases hcc with ⟨_, rfl⟩ | ⟨_, rfl⟩ <;> rfl
      rw [hs] at hsm
      exact serve_hasDeliver hreqs (I.sema j c hc hsm) }


/-! ### respond -/

/-- the client after `Step.respond`, without `let` -/
def respondClient (f : RtFacts) (cl : Client) (p : Resp) : Client :=
  if p.kind = .notify then { cl with acked := max cl.acked p.cseq, sseq := max cl.sseq p.sseq }
  else { cl with acked := max cl.acked p.cseq, sseq := max cl.sseq p.sseq, sema := false,
                 spawned := if p.kind = .deliver ∧ f.deliverRechecks = true ∧ max cl.acked p.cseq < cl.issued
                            then cl.spawned + 1 else cl.spawned }

def respondResult (f : RtFacts) (S : Sys) (p : Resp) (pre post : List Resp) (cl : Client) : Sys :=
  { (setC S p.c (respondClient f cl p)) with resps := pre ++ post }

theorem respondClient_issued (f : RtFacts) (cl : Client) (p : Resp) :
    (respondClient f cl p).issued = cl.issued := by
  unfold respondClient; split <;> rfl

theorem respondClient_acked (f : RtFacts) (cl : Client) (p : Resp) :
    (respondClient f cl p).acked = max cl.acked p.cseq := by
  unfold respondClient; split <;> rfl

theorem respondClient_sseq (f : RtFacts) (cl : Client) (p : Resp) :
    (respondClient f cl p).sseq = max cl.sseq p.sseq := by
  unfold respondClient; split <;> rfl

theorem respondClient_notifs (f : RtFacts) (cl : Client) (p : Resp) :
    (respondClient f cl p).notifs = cl.notifs := by
  unfold respondClient; split <;> rfl

theorem respondClient_sema {f : RtFacts} {cl : Client} {p : Resp}
    (h : (respondClient f cl p).sema = true) : cl.sema = true ∧ p.kind = .notify := by
  unfold respondClient at h
  split at h
  · exact ⟨h, by assumption⟩
  · simp at h

theorem respondClient_spawned_ge (f : RtFacts) (cl : Client) (p : Resp) :
    cl.spawned ≤ (respondClient f cl p).spawned := by
  unfold respondClient
  split
  · exact Nat.le_refl _
  · simp only; split
    · exact Nat.le_succ _
    · exact Nat.le_refl _

theorem respondClient_respawn {f : RtFacts} {cl : Client} {p : Resp} (hk : p.kind = .deliver)
    (hr : f.deliverRechecks = true) (hlt : max cl.acked p.cseq < cl.issued) :
    0 < (respondClient f cl p).spawned := by
  unfold respondClient
  simp [hk, hr, hlt]

theorem inv_respond {f : RtFacts} (hr : f.deliverRechecks = true) {S : Sys} (I : Inv S) {p : Resp}
    {pre post : List Resp} {cl : Client}
    (hresps : S.resps = pre ++ p :: post) (hcl : S.clients[p.c]? = some cl) :
    Inv (respondResult f S p pre post cl) := by
  have hpmem : p ∈ S.resps := by rw [hresps]; simp
  have hsub : ∀ p' ∈ pre ++ post, p' ∈ S.resps := fun p' h => hresps ▸ mem_of_mem_split h
  have hrest : ∀ p' ∈ S.resps, p' = p ∨ p' ∈ pre ++ post := fun p' h => mem_split_cases (hresps ▸ h)
  have hlen := I.len
  obtain ⟨hv, hhv⟩ : ∃ hv, S.srvCseq[p.c]? = some hv := by
    have : p.c < S.srvCseq.length := by rw [hlen]; exact lt_of_get hcl
    exact ⟨S.srvCseq[p.c], List.getElem?_eq_getElem this⟩
  have hb := I.srvLe p.c cl hv hcl hhv
  have hpb := I.respLe p hpmem
  have hpc := hpb.2 hv hhv
  have hsq := I.sseqLe p.c cl hcl
  have hdel : ∀ j, j ≠ p.c ∨ p.kind ≠ .deliver → HasDeliver S j → HasDeliver (respondResult f S p pre post cl) j := by
    intro j hne
    rintro (⟨r, hm, h⟩ | ⟨p', hm, h1, h2⟩)
    · exact Or.inl ⟨r, hm, h⟩
    · rcases hrest p' hm with rfl | hm'
      · rcases hne with hne | hne
        · exact absurd h1.symm hne
        · exact absurd h2 hne
      · exact Or.inr ⟨p', hm', h1, h2⟩
  exact
  { len := by simp [respondResult, setC, I.len]
    reqIdx := by intro r hr; simpa [respondResult, setC] using I.reqIdx r hr
    respIdx := by
      intro p' hp'
      have := I.respIdx p' (hsub p' hp')
      simpa [respondResult, setC] using this
    srvLe := by
      intro j c h hj hh
      rcases get_set_cases hj with ⟨rfl, rfl, _⟩ | ⟨_, hj'⟩
      · rw [respondClient_issued, respondClient_acked]
        have := I.srvLe _ cl h hcl hh
        have e : h = hv := by
          have hh' : S.srvCseq[p.c]? = some h := hh
          rw [hhv] at hh'; exact (Option.some.inj hh').symm
        omega
      · exact I.srvLe j c h hj' hh
    sseqLe := by
      intro j c hj
      rcases get_set_cases hj with ⟨rfl, rfl, _⟩ | ⟨_, hj'⟩
      · rw [respondClient_sseq]
        have := hpb.1
        show max cl.sseq p.sseq ≤ S.logEnd
        omega
      · exact I.sseqLe j c hj'
    reqLe := by
      intro r hrm c hj
      rcases get_set_cases hj with ⟨h1, rfl, _⟩ | ⟨_, hj'⟩
      · rw [respondClient_issued]
        exact I.reqLe r hrm cl (h1 ▸ hcl)
      · exact I.reqLe r hrm c hj'
    respLe := by
      intro p' hp'
      exact I.respLe p' (hsub p' hp')
    pull := by
      intro j c hj
      rcases get_set_cases hj with ⟨rfl, rfl, _⟩ | ⟨hne, hj'⟩
      · refine PullOk.mono (S := S) rfl ?_ ?_ (fun r hm h => Or.inl ⟨r, hm, h⟩) ?_ (I.pull _ cl hcl)
        · intro h
          rw [respondClient_sseq]
          have := hpb.1
          omega
        · intro m hm _ _
          left; rw [respondClient_notifs]; exact hm
        · intro p' hm _ h2
          rcases hrest p' hm with rfl | hm'
          · right
            rw [respondClient_sseq]
            omega
          · exact Or.inl hm'
      · refine PullOk.mono (S := S) rfl (fun h => h) (fun m hm _ _ => Or.inl hm)
          (fun r hm h => Or.inl ⟨r, hm, h⟩) ?_ (I.pull j c hj')
        intro p' hm h1 _
        rcases hrest p' hm with rfl | hm'
        · exact absurd h1.symm hne
        · exact Or.inl hm'
    push := by
      intro j c hj
      rcases get_set_cases hj with ⟨rfl, rfl, _⟩ | ⟨hne, hj'⟩
      · rw [respondClient_issued, respondClient_acked]
        by_cases hlt : max cl.acked p.cseq < cl.issued
        · by_cases hk : p.kind = .deliver
          · exact Or.inr (Or.inl (respondClient_respawn hk hr hlt))
          · rcases I.push _ cl hcl with h | h | h
            · omega
            · exact Or.inr (Or.inl (Nat.lt_of_lt_of_le h (respondClient_spawned_ge f cl p)))
            · exact Or.inr (Or.inr (hdel _ (Or.inr hk) h))
        · left; omega
      · rcases I.push j c hj' with h | h | h
        · exact Or.inl h
        · exact Or.inr (Or.inl h)
        · exact Or.inr (Or.inr (hdel j (Or.inl hne) h))
    sema := by
      intro j c hj hs
      rcases get_set_cases hj with ⟨rfl, rfl, _⟩ | ⟨hne, hj'⟩
      · obtain ⟨h1, h2⟩ := respondClient_sema hs
        exact hdel _ (Or.inr (by rw [h2]; decide)) (I.sema _ cl hcl h1)
      · exact hdel j (Or.inl hne) (I.sema j c hj' hs) }


/-! ### notified -/

/-- the target state of `Step.notified`, without `let` -/
def notifiedResult (f : RtFacts) (S : Sys) (i : Nat) (cl : Client) (n : Nat × Nat)
    (pre post : List (Nat × Nat)) : Sys :=
  if f.ownFilter = true ∧ n.1 = i then setC S i { cl with notifs := pre ++ post }
  else if f.needPullGuard = true ∧ ¬ (cl.sseq < n.2) then setC S i { cl with notifs := pre ++ post }
  else if f.notifySyncTakesSema = true then
    (if cl.sema = true then setC S i { cl with notifs := pre ++ post }
     else { (setC S i { cl with notifs := pre ++ post, sema := true }) with
              reqs := S.reqs ++ [⟨i, .notifySema, cl.issued⟩] })
  else { (setC S i { cl with notifs := pre ++ post }) with reqs := S.reqs ++ [⟨i, .notify, cl.issued⟩] }

theorem notified_cases {f : RtFacts} (hns : f.notifySyncTakesSema = false) (S : Sys) (i : Nat) (cl : Client)
    (n : Nat × Nat) (pre post : List (Nat × Nat)) :
    (notifiedResult f S i cl n pre post = setC S i { cl with notifs := pre ++ post } ∧
        (n.1 = i ∨ ¬ cl.sseq < n.2)) ∨
    notifiedResult f S i cl n pre post =
      { (setC S i { cl with notifs := pre ++ post }) with reqs := S.reqs ++ [⟨i, .notify, cl.issued⟩] } := by
  unfold notifiedResult
  by_cases h1 : f.ownFilter = true ∧ n.1 = i
  · left; rw [if_pos h1]; exact ⟨rfl, Or.inl h1.2⟩
  · rw [if_neg h1]
    by_cases h2 : f.needPullGuard = true ∧ ¬ (cl.sseq < n.2)
    · left; rw [if_pos h2]; exact ⟨rfl, Or.inr h2.2⟩
    · rw [if_neg h2]
      right
      simp [hns]

/-- a notification is dropped because it is the client's own or because the client is already there -/
theorem inv_notifDrop {S : Sys} (I : Inv S) {i : Nat} {cl : Client} {n : Nat × Nat} {pre post : List (Nat × Nat)}
    (hcl : S.clients[i]? = some cl) (hn : cl.notifs = pre ++ n :: post) (hd : n.1 = i ∨ ¬ cl.sseq < n.2) :
    Inv (setC S i { cl with notifs := pre ++ post }) where
  len := by simp [setC, I.len]
  reqIdx := by intro r hr; simpa [setC] using I.reqIdx r hr
  respIdx := by intro r hr; simpa [setC] using I.respIdx r hr
  srvLe := by
    intro j c h hj hh
    rcases get_set_cases hj with ⟨rfl, rfl, _⟩ | ⟨_, hj'⟩
    · exact I.srvLe _ cl h hcl hh
    · exact I.srvLe j c h hj' hh
  sseqLe := by
    intro j c hj
    rcases get_set_cases hj with ⟨rfl, rfl, _⟩ | ⟨_, hj'⟩
    · exact I.sseqLe _ cl hcl
    · exact I.sseqLe j c hj'
  reqLe := by
    intro r hr c hj
    rcases get_set_cases hj with ⟨h1, rfl, _⟩ | ⟨_, hj'⟩
    · exact I.reqLe r hr cl (h1 ▸ hcl)
    · exact I.reqLe r hr c hj'
  respLe := I.respLe
  pull := by
    intro j c hj
    rcases get_set_cases hj with ⟨rfl, rfl, _⟩ | ⟨_, hj'⟩
    · refine PullOk.mono (S := S) (c := cl) rfl (fun h => h) ?_
        (fun r hm h => Or.inl ⟨r, hm, h⟩) (fun p hm _ _ => Or.inl hm) (I.pull _ cl hcl)
      intro m hm h1 h2
      rw [hn] at hm
      rcases mem_split_cases hm with rfl | hm'
      · right; left
        have := I.sseqLe _ cl hcl
        rcases hd with hd | hd
        · exact absurd hd h1
        · show cl.sseq = S.logEnd
          omega
      · exact Or.inl hm'
    · exact I.pull j c hj'
  push := by
    intro j c hj
    rcases get_set_cases hj with ⟨rfl, rfl, _⟩ | ⟨_, hj'⟩
    · exact I.push _ cl hcl
    · exact I.push j c hj'
  sema := by
    intro j c hj hs
    rcases get_set_cases hj with ⟨rfl, rfl, _⟩ | ⟨_, hj'⟩
    · exact I.sema _ cl hcl hs
    · exact I.sema j c hj' hs

/-- a notification starts a sync (without the semaphore) -/
theorem inv_notifReq {S : Sys} (I : Inv S) {i : Nat} {cl : Client} {pre post : List (Nat × Nat)}
    (hcl : S.clients[i]? = some cl) :
    Inv { (setC S i { cl with notifs := pre ++ post }) with reqs := S.reqs ++ [⟨i, .notify, cl.issued⟩] } where
  len := by simp [setC, I.len]
  reqIdx := by
    intro r hr
    simp only [setC, List.mem_append, List.mem_singleton, List.length_set] at hr ⊢
    rcases hr with hr | rfl
    · exact I.reqIdx r hr
    · exact lt_of_get hcl
  respIdx := by intro r hr; simpa [setC] using I.respIdx r hr
  srvLe := by
    intro j c h hj hh
    rcases get_set_cases hj with ⟨rfl, rfl, _⟩ | ⟨_, hj'⟩
    · exact I.srvLe _ cl h hcl hh
    · exact I.srvLe j c h hj' hh
  sseqLe := by
    intro j c hj
    rcases get_set_cases hj with ⟨rfl, rfl, _⟩ | ⟨_, hj'⟩
    · exact I.sseqLe _ cl hcl
    · exact I.sseqLe j c hj'
  reqLe := by
    intro r hr c hj
    simp only [List.mem_append, List.mem_singleton] at hr
    rcases hr with hr | rfl
    · rcases get_set_cases hj with ⟨h1, rfl, _⟩ | ⟨_, hj'⟩
      · exact I.reqLe r hr cl (h1 ▸ hcl)
      · exact I.reqLe r hr c hj'
    · rcases get_set_cases hj with ⟨_, rfl, _⟩ | ⟨h1, _⟩
      · exact Nat.le_refl _
      · exact absurd rfl h1
  respLe := I.respLe
  pull := by
    intro j c hj
    rcases get_set_cases hj with ⟨rfl, rfl, _⟩ | ⟨_, hj'⟩
    · exact Or.inr (Or.inr (Or.inl ⟨⟨j, .notify, cl.issued⟩, by simp, rfl⟩))
    · exact PullOk.frame (S := S) rfl (fun r hm => List.mem_append_left _ hm) (fun p hm => hm) (I.pull j c hj')
  push := by
    intro j c hj
    have hmono : ∀ j, HasDeliver S j → HasDeliver { (setC S i { cl with notifs := pre ++ post }) with
        reqs := S.reqs ++ [⟨i, .notify, cl.issued⟩] } j :=
      fun j h => h.mono (fun r hm => List.mem_append_left _ hm) (fun p hm => hm)
    rcases get_set_cases hj with ⟨rfl, rfl, _⟩ | ⟨_, hj'⟩
    · rcases I.push _ cl hcl with h | h | h
      · exact Or.inl h
      · exact Or.inr (Or.inl h)
      · exact Or.inr (Or.inr (hmono _ h))
    · rcases I.push j c hj' with h | h | h
      · exact Or.inl h
      · exact Or.inr (Or.inl h)
      · exact Or.inr (Or.inr (hmono _ h))
  sema := by
    intro j c hj hs
    rcases get_set_cases hj with ⟨rfl, rfl, _⟩ | ⟨_, hj'⟩
    · exact (I.sema _ cl hcl hs).mono (fun r hm => List.mem_append_left _ hm) (fun p hm => hm)
    · exact (I.sema j c hj' hs).mono (fun r hm => List.mem_append_left _ hm) (fun p hm => hm)

/-! ### the invariant is inductive; theorem A -/

/-- The invariant is preserved by every step, for ANY setting of the guards in which a notification-triggered
sync does not compete for the semaphore and a delivery re-checks `NeedPush` after releasing it
(in particular for the current source). `ownFilter`, `needPullGuard`, `deliverTryAcquire` do not matter. -/
theorem inv_step {f : RtFacts} (hns : f.notifySyncTakesSema = false) (hr : f.deliverRechecks = true)
    {S S' : Sys} (I : Inv S) (h : Step f S S') : Inv S' := by
  cases h with
  | localOp i cl hcl => exact inv_localOp I hcl
  | deliverBusy i cl hcl _ _ hs => exact inv_deliverBusy I hcl hs
  | deliverGo i cl hcl _ _ => exact inv_deliverGo I hcl
  | serve r pre post hv hreqs hsrv => exact inv_serve I hreqs hsrv
  | respond p pre post cl hresps hcl => exact inv_respond hr I hresps hcl
  | notified i cl n pre post hcl hn =>
    show Inv (notifiedResult f S i cl n pre post)
    rcases notified_cases hns S i cl n pre post with ⟨e, hd⟩ | e
    · rw [e]; exact inv_notifDrop I hcl hn hd
    · rw [e]; exact inv_notifReq I hcl

theorem inv_reach {f : RtFacts} (hns : f.notifySyncTakesSema = false) (hr : f.deliverRechecks = true)
    {n : Nat} {S : Sys} (h : Reach f n S) : Inv S := by
  induction h with
  | init => exact inv_init n
  | step _ hs ih => exact inv_step hns hr ih hs

theorem inv_quiescent_converged {S : Sys} (I : Inv S) (hq : Quiescent S) : Converged S := by
  obtain ⟨hreqs, hresps, hcls⟩ := hq
  intro i cl hcl
  have hmem : cl ∈ S.clients := List.mem_of_getElem? hcl
  obtain ⟨hn, hsp⟩ := hcls cl hmem
  have hnd : ¬ HasDeliver S i := by
    rintro (⟨r, hm, _⟩ | ⟨p, hm, _⟩)
    · rw [hreqs] at hm; simp at hm
    · rw [hresps] at hm; simp at hm
  have hack : cl.acked = cl.issued := by
    rcases I.push i cl hcl with h | h | h
    · exact h
    · omega
    · exact absurd h hnd
  have hpull : cl.sseq = S.logEnd := by
    rcases I.pull i cl hcl with h | ⟨m, hm, _⟩ | ⟨r, hm, _⟩ | ⟨p, hm, _⟩
    · exact h
    · rw [hn] at hm; simp at hm
    · rw [hreqs] at hm; simp at hm
    · rw [hresps] at hm; simp at hm
  obtain ⟨hv, hhv⟩ : ∃ hv, S.srvCseq[i]? = some hv := by
    have : i < S.srvCseq.length := by rw [I.len]; exact lt_of_get hcl
    exact ⟨S.srvCseq[i], List.getElem?_eq_getElem this⟩
  have hb := I.srvLe i cl hv hcl hhv
  refine ⟨hack, hpull, ?_⟩
  rw [hhv]
  congr 1
  omega

/-- **A. No lost wake-up.** Whenever everything in flight has drained, every client has converged by itself. -/
theorem rt_quiescent_converged (n : Nat) (S : Sys) (h : Reach currentFacts n S) (hq : Quiescent S) :
    Converged S :=
  inv_quiescent_converged (inv_reach rfl rfl h) hq

/-- C(3): the same for any guards with `notifySyncTakesSema = false` and `deliverRechecks = true`;
in particular with `needPullGuard := false` (every foreign notification starts a sync). -/
theorem rt_quiescent_converged_of_guards {f : RtFacts} (hns : f.notifySyncTakesSema = false)
    (hr : f.deliverRechecks = true) (n : Nat) (S : Sys) (h : Reach f n S) (hq : Quiescent S) :
    Converged S :=
  inv_quiescent_converged (inv_reach hns hr h) hq


/-! ## B. Progress and termination -/

/-- `S → S'` is a local operation of some client -/
def IsLocalOp (S S' : Sys) : Prop :=
  ∃ i cl, S.clients[i]? = some cl ∧
    S' = setC S i { cl with issued := cl.issued + 1, spawned := cl.spawned + 1 }

/-- a processing step: any step other than a local operation (no user activity, no further Sync call) -/
def PStep (f : RtFacts) (S S' : Sys) : Prop := Step f S S' ∧ ¬ IsLocalOp S S'

/-- the clients' `issued` counters -/
def issuedL (S : Sys) : List Nat := S.clients.map (·.issued)

theorem issuedL_getD {S : Sys} {i : Nat} {cl : Client} (h : S.clients[i]? = some cl) :
    (issuedL S).getD i 0 = cl.issued := by
  simp [issuedL, List.getD_eq_getElem?_getD, List.getElem?_map, h]

theorem issued_set {l : List Client} {i : Nat} {cl a : Client} (h : l[i]? = some cl)
    (ha : a.issued = cl.issued) : (l.set i a).map (·.issued) = l.map (·.issued) := by
  induction l generalizing i with
  | nil => rfl
  | cons x xs ih =>
    cases i with
    | zero =>
      simp at h
      subst h
      simp [ha]
    | succ k =>
      simp at h
      simp [ih h]

theorem issued_publish (l : List Client) (src e : Nat) :
    (publish l src e).map (·.issued) = l.map (·.issued) := by
  simp [publish]

theorem not_localOp_of_issued {S S' : Sys} (h : issuedL S' = issuedL S) : ¬ IsLocalOp S S' := by
  rintro ⟨i, cl, hcl, rfl⟩
  have h1 : (issuedL S)[i]? = some cl.issued := by simp [issuedL, List.getElem?_map, hcl]
  have h2 : (issuedL (setC S i { cl with issued := cl.issued + 1, spawned := cl.spawned + 1 }))[i]?
      = some (cl.issued + 1) := by
    have := lt_of_get hcl
    simp [issuedL, setC, this]
  rw [h, h1] at h2
  have := Option.some.inj h2
  omega

/-! ### the measure -/

def sumBy {α : Type} (w : α → Nat) : List α → Nat
  | [] => 0
  | a :: l => w a + sumBy w l

theorem sumBy_append {α : Type} (w : α → Nat) (l1 l2 : List α) :
    sumBy w (l1 ++ l2) = sumBy w l1 + sumBy w l2 := by
  induction l1 with
  | nil => simp [sumBy]
  | cons a l ih => simp [sumBy, ih, Nat.add_assoc]

theorem sumBy_split {α : Type} (w : α → Nat) (pre post : List α) (a : α) :
    sumBy w (pre ++ a :: post) = sumBy w (pre ++ post) + w a := by
  simp only [sumBy_append, sumBy]; omega

theorem sumBy_set {α : Type} {w : α → Nat} {l : List α} {i : Nat} {c a : α} (h : l[i]? = some c) :
    sumBy w (l.set i a) + w c = sumBy w l + w a := by
  induction l generalizing i with
  | nil => simp at h
  | cons x xs ih =>
    cases i with
    | zero =>
      simp at h
      subst h
      simp only [List.set_cons_zero, sumBy]; omega
    | succ k =>
      simp at h
      have := ih h
      simp only [List.set_cons_succ, sumBy]; omega

/-- operations issued but not yet stored by the server -/
def unstored : List Nat → List Nat → Nat
  | a :: as, b :: bs => (a - b) + unstored as bs
  | _, _ => 0

theorem unstored_set {iss srv : List Nat} {k h h' m : Nat} (hs : srv[k]? = some h) (hi : iss[k]? = some m)
    (h1 : h ≤ h') (h2 : h' ≤ m) : unstored iss (srv.set k h') + (h' - h) = unstored iss srv := by
  induction iss generalizing srv k with
  | nil => simp at hi
  | cons a as ih =>
    cases srv with
    | nil => simp at hs
    | cons b bs =>
      cases k with
      | zero =>
        simp at hs hi
        subst hs; subst hi
        simp only [List.set_cons_zero, unstored]; omega
      | succ k =>
        simp at hs hi
        have := ih hs hi
        simp only [List.set_cons_succ, unstored]; omega

/-- weight of a request: 2, plus 3 if it was sent before the client's latest operation
(only the response to such a request can start another delivery) -/
def wReq (iss : List Nat) (r : Req) : Nat := 2 + if r.upto < iss.getD r.c 0 then 3 else 0
def wResp (iss : List Nat) (p : Resp) : Nat := 1 + if p.cseq < iss.getD p.c 0 then 3 else 0
def wClient (cl : Client) : Nat := 3 * cl.spawned + 3 * cl.notifs.length

/-- The termination measure: every unstored operation pays for the notifications its storing will create. -/
def μ (S : Sys) : Nat :=
  unstored (issuedL S) S.srvCseq * (3 * S.clients.length + 1) + sumBy (wReq (issuedL S)) S.reqs
    + sumBy (wResp (issuedL S)) S.resps + sumBy wClient S.clients

theorem sumBy_publish (l : List Client) (src e : Nat) :
    sumBy wClient (publish l src e) = sumBy wClient l + 3 * l.length := by
  induction l with
  | nil => rfl
  | cons x xs ih =>
    have : publish (x :: xs) src e = { x with notifs := x.notifs ++ [(src, e)] } :: publish xs src e := rfl
    rw [this]
    simp only [sumBy, ih, wClient, List.length_append, List.length_cons, List.length_nil]
    omega

theorem wReq_fresh {iss : List Nat} {r : Req} (h : iss.getD r.c 0 ≤ r.upto) : wReq iss r = 2 := by
  unfold wReq
  rw [if_neg (by omega)]

theorem wResp_pos (iss : List Nat) (p : Resp) : 1 ≤ wResp iss p := by
  unfold wResp; omega

theorem wResp_stale {iss : List Nat} {p : Resp} (h : p.cseq < iss.getD p.c 0) : wResp iss p = 4 := by
  unfold wResp
  rw [if_pos h]

theorem wResp_lt_wReq {iss : List Nat} {r : Req} {p : Resp} (hc : p.c = r.c) (h : r.upto ≤ p.cseq) :
    wResp iss p + 1 ≤ wReq iss r := by
  unfold wResp wReq
  rw [hc]
  by_cases h1 : p.cseq < iss.getD r.c 0
  · rw [if_pos h1, if_pos (by omega)]; omega
  · rw [if_neg h1]
    split <;> omega


/-! ### every processing step keeps `issued` and decreases the measure -/

theorem mu_deliverBusy {S : Sys} {i : Nat} {cl : Client} (hcl : S.clients[i]? = some cl)
    (hsp : 0 < cl.spawned) :
    issuedL (setC S i { cl with spawned := cl.spawned - 1 }) = issuedL S ∧
    μ (setC S i { cl with spawned := cl.spawned - 1 }) < μ S := by
  have hiss : issuedL (setC S i { cl with spawned := cl.spawned - 1 }) = issuedL S := issued_set hcl rfl
  refine ⟨hiss, ?_⟩
  have hc := sumBy_set (w := wClient) (a := { cl with spawned := cl.spawned - 1 }) hcl
  unfold μ
  rw [hiss]
  simp only [setC, List.length_set]
  simp only [wClient] at hc
  omega

theorem mu_deliverGo {S : Sys} {i : Nat} {cl : Client} (hcl : S.clients[i]? = some cl)
    (hsp : 0 < cl.spawned) :
    issuedL { (setC S i { cl with spawned := cl.spawned - 1, sema := true }) with
            reqs := S.reqs ++ [⟨i, .deliver, cl.issued⟩] } = issuedL S ∧
    μ { (setC S i { cl with spawned := cl.spawned - 1, sema := true }) with
            reqs := S.reqs ++ [⟨i, .deliver, cl.issued⟩] } < μ S := by
  have hiss : issuedL { (setC S i { cl with spawned := cl.spawned - 1, sema := true }) with
            reqs := S.reqs ++ [⟨i, .deliver, cl.issued⟩] } = issuedL S := issued_set hcl rfl
  refine ⟨hiss, ?_⟩
  have hc := sumBy_set (w := wClient) (a := { cl with spawned := cl.spawned - 1, sema := true }) hcl
  have hw : wReq (issuedL S) ⟨i, .deliver, cl.issued⟩ = 2 :=
    wReq_fresh (by rw [issuedL_getD hcl]; exact Nat.le_refl _)
  unfold μ
  rw [hiss]
  simp only [setC, List.length_set, sumBy_append, sumBy, hw]
  simp only [wClient] at hc
  omega

theorem mu_serve {S : Sys} (I : Inv S) {r : Req} {pre post : List Req} {hv : Nat}
    (hreqs : S.reqs = pre ++ r :: post) (hsrv : S.srvCseq[r.c]? = some hv) :
    issuedL (serveResult S r pre post hv) = issuedL S ∧ μ (serveResult S r pre post hv) < μ S := by
  have hrmem : r ∈ S.reqs := by rw [hreqs]; simp
  obtain ⟨clr, hclr⟩ : ∃ clr, S.clients[r.c]? = some clr :=
    ⟨S.clients[r.c]'(I.reqIdx r hrmem), List.getElem?_eq_getElem _⟩
  have hb := I.srvLe r.c clr hv hclr hsrv
  have hb2 := I.reqLe r hrmem clr hclr
  have hiss : issuedL (serveResult S r pre post hv) = issuedL S := by
    unfold issuedL serveResult
    by_cases h0 : r.upto - hv = 0
    · simp only [h0, if_true]
    · simp only [h0, if_false]; exact issued_publish _ _ _
  refine ⟨hiss, ?_⟩
  have hi : (issuedL S)[r.c]? = some clr.issued := by simp [issuedL, List.getElem?_map, hclr]
  have hu := unstored_set (h' := max hv r.upto) hsrv hi (by omega) (by omega)
  have hw := wResp_lt_wReq (iss := issuedL S) (r := r)
    (p := ⟨r.c, r.kind, S.logEnd + (r.upto - hv), max hv r.upto⟩) rfl (by show r.upto ≤ max hv r.upto; omega)
  have hlen := serve_len S r pre post hv
  unfold μ
  rw [hiss, hlen, hreqs, sumBy_split]
  have e1 : (serveResult S r pre post hv).srvCseq = S.srvCseq.set r.c (max hv r.upto) := rfl
  have e2 : (serveResult S r pre post hv).reqs = pre ++ post := rfl
  have e3 : (serveResult S r pre post hv).resps
      = S.resps ++ [⟨r.c, r.kind, S.logEnd + (r.upto - hv), max hv r.upto⟩] := rfl
  rw [e1, e2, e3, sumBy_append _ S.resps]
  simp only [sumBy]
  rw [← hu, Nat.add_mul]
  generalize unstored (issuedL S) (S.srvCseq.set r.c (max hv r.upto)) * (3 * S.clients.length + 1) = A
  by_cases h0 : r.upto - hv = 0
  · have e4 : (serveResult S r pre post hv).clients = S.clients := by simp [serveResult, h0]
    rw [e4]
    have : max hv r.upto - hv = 0 := by omega
    rw [this, Nat.zero_mul]
    omega
  · have e4 : (serveResult S r pre post hv).clients = publish S.clients r.c (S.logEnd + (r.upto - hv)) := by
      simp [serveResult, h0]
    rw [e4, sumBy_publish]
    have h1 : 1 ≤ max hv r.upto - hv := by omega
    have := Nat.mul_le_mul_right (3 * S.clients.length + 1) h1
    generalize (max hv r.upto - hv) * (3 * S.clients.length + 1) = B at this
    omega

theorem respondClient_weight (f : RtFacts) (cl : Client) (p : Resp) :
    wClient (respondClient f cl p) = wClient cl ∨
    (wClient (respondClient f cl p) = wClient cl + 3 ∧ p.cseq < cl.issued) := by
  unfold respondClient wClient
  split
  · left; rfl
  · simp only
    split
    · rename_i h
      right
      refine ⟨by omega, ?_⟩
      have := h.2.2
      omega
    · left; rfl

theorem mu_respond {f : RtFacts} {S : Sys} {p : Resp} {pre post : List Resp} {cl : Client}
    (hresps : S.resps = pre ++ p :: post) (hcl : S.clients[p.c]? = some cl) :
    issuedL (respondResult f S p pre post cl) = issuedL S ∧ μ (respondResult f S p pre post cl) < μ S := by
  have hiss : issuedL (respondResult f S p pre post cl) = issuedL S :=
    issued_set hcl (respondClient_issued f cl p)
  refine ⟨hiss, ?_⟩
  have hc := sumBy_set (w := wClient) (a := respondClient f cl p) hcl
  have hw := respondClient_weight f cl p
  have hg := issuedL_getD hcl
  have hpos := wResp_pos (issuedL S) p
  unfold μ
  rw [hiss, hresps, sumBy_split]
  simp only [respondResult, setC, List.length_set]
  rcases hw with hw | ⟨hw, hlt⟩
  · omega
  · have := wResp_stale (iss := issuedL S) (p := p) (by rw [hg]; exact hlt)
    omega

theorem mu_notified (f : RtFacts) {S : Sys} {i : Nat} {cl : Client} {n : Nat × Nat} {pre post : List (Nat × Nat)}
    (hcl : S.clients[i]? = some cl) (hn : cl.notifs = pre ++ n :: post) :
    issuedL (notifiedResult f S i cl n pre post) = issuedL S ∧ μ (notifiedResult f S i cl n pre post) < μ S := by
  have hlen : cl.notifs.length = (pre ++ post).length + 1 := by
    rw [hn]; simp only [List.length_append, List.length_cons]; omega
  have hw : ∀ k, wReq (issuedL S) ⟨i, k, cl.issued⟩ = 2 :=
    fun k => wReq_fresh (by rw [issuedL_getD hcl]; exact Nat.le_refl _)
  -- the four possible shapes of the result
  have key : ∀ (a : Client) (rs : List Req), a.issued = cl.issued → wClient a + 3 = wClient cl →
      (rs = S.reqs ∨ ∃ k, rs = S.reqs ++ [⟨i, k, cl.issued⟩]) →
      issuedL { (setC S i a) with reqs := rs } = issuedL S ∧ μ { (setC S i a) with reqs := rs } < μ S := by
    intro a rs ha hwa hrs
    have hiss : issuedL { (setC S i a) with reqs := rs } = issuedL S := issued_set hcl ha
    refine ⟨hiss, ?_⟩
    have hc := sumBy_set (w := wClient) (a := a) hcl
    unfold μ
    rw [hiss]
    simp only [setC, List.length_set]
    rcases hrs with rfl | ⟨k, rfl⟩
    · omega
    · simp only [sumBy_append, sumBy, hw]
      omega
  have hwa : wClient { cl with notifs := pre ++ post } + 3 = wClient cl := by
    simp only [wClient]; omega
  have hwb : wClient { cl with notifs := pre ++ post, sema := true } + 3 = wClient cl := by
    simp only [wClient]; omega
  unfold notifiedResult
  split
  · exact key _ S.reqs rfl hwa (Or.inl rfl)
  · split
    · exact key _ S.reqs rfl hwa (Or.inl rfl)
    · split
      · split
        · exact key _ S.reqs rfl hwa (Or.inl rfl)
        · exact key _ _ rfl hwb (Or.inr ⟨_, rfl⟩)
      · exact key _ _ rfl hwa (Or.inr ⟨_, rfl⟩)

/-- every step other than a local operation strictly decreases the measure (on states satisfying the invariant) -/
theorem step_cases_mu {f : RtFacts} {S S' : Sys} (I : Inv S) (h : Step f S S') :
    IsLocalOp S S' ∨ (issuedL S' = issuedL S ∧ μ S' < μ S) := by
  cases h with
  | localOp i cl hcl => exact Or.inl ⟨i, cl, hcl, rfl⟩
  | deliverBusy i cl hcl hsp _ _ => exact Or.inr (mu_deliverBusy hcl hsp)
  | deliverGo i cl hcl hsp _ => exact Or.inr (mu_deliverGo hcl hsp)
  | serve r pre post hv hreqs hsrv => exact Or.inr (mu_serve I hreqs hsrv)
  | respond p pre post cl hresps hcl => exact Or.inr (mu_respond hresps hcl)
  | notified i cl n pre post hcl hn => exact Or.inr (mu_notified f hcl hn)


/-- **B(2), measure.** Every step other than a local operation strictly decreases `μ` (on reachable states;
what is used of reachability is the invariant). -/
theorem measure_decreases {f : RtFacts} {S S' : Sys} (I : Inv S) (h : PStep f S S') : μ S' < μ S := by
  rcases step_cases_mu I h.1 with hl | ⟨_, hlt⟩
  · exact absurd hl h.2
  · exact hlt

theorem rt_measure_decreases {n : Nat} {S S' : Sys} (h : Reach currentFacts n S) (hs : Step currentFacts S S')
    (hnl : ¬ IsLocalOp S S') : μ S' < μ S :=
  measure_decreases (inv_reach rfl rfl h) ⟨hs, hnl⟩

/-- anything in flight can be processed (needs only the shape part of the invariant, and `TryAcquire`
rather than a blocking `Acquire` in `DeliverTransaction`) -/
theorem progress_of_inv {f : RtFacts} (hta : f.deliverTryAcquire = true) {S : Sys} (I : Inv S)
    (hq : ¬ Quiescent S) : ∃ S', PStep f S S' := by
  cases hreqs : S.reqs with
  | cons r post =>
    have hrmem : r ∈ S.reqs := by rw [hreqs]; simp
    have hlt : r.c < S.srvCseq.length := by rw [I.len]; exact I.reqIdx r hrmem
    have hsrv : S.srvCseq[r.c]? = some S.srvCseq[r.c] := List.getElem?_eq_getElem hlt
    have hreqs' : S.reqs = [] ++ r :: post := by simp [hreqs]
    exact ⟨_, Step.serve S r [] post _ hreqs' hsrv, not_localOp_of_issued (mu_serve I hreqs' hsrv).1⟩
  | nil =>
    cases hresps : S.resps with
    | cons p post =>
      have hpmem : p ∈ S.resps := by rw [hresps]; simp
      have hlt : p.c < S.clients.length := I.respIdx p hpmem
      have hcl : S.clients[p.c]? = some S.clients[p.c] := List.getElem?_eq_getElem hlt
      have hresps' : S.resps = [] ++ p :: post := by simp [hresps]
      exact ⟨_, Step.respond S p [] post _ hresps' hcl,
        not_localOp_of_issued (mu_respond (f := f) hresps' hcl).1⟩
    | nil =>
      by_cases hex : ∃ cl ∈ S.clients, cl.notifs ≠ [] ∨ cl.spawned ≠ 0
      · obtain ⟨cl, hm, h⟩ := hex
        obtain ⟨i, hi⟩ := List.getElem?_of_mem hm
        cases hnot : cl.notifs with
        | cons m post =>
          have hn : cl.notifs = [] ++ m :: post := by simp [hnot]
          exact ⟨_, Step.notified S i cl m [] post hi hn, not_localOp_of_issued (mu_notified f hi hn).1⟩
        | nil =>
          have hsp : 0 < cl.spawned := by
            rcases h with h | h
            · exact absurd hnot h
            · omega
          cases hs : cl.sema with
          | false =>
            exact ⟨_, Step.deliverGo S i cl hi hsp hs, not_localOp_of_issued (mu_deliverGo hi hsp).1⟩
          | true =>
            exact ⟨_, Step.deliverBusy S i cl hi hsp hta hs, not_localOp_of_issued (mu_deliverBusy hi hsp).1⟩
      · exfalso
        apply hq
        refine ⟨hreqs, hresps, fun cl hm => ?_⟩
        by_cases h1 : cl.notifs = []
        · by_cases h2 : cl.spawned = 0
          · exact ⟨h1, h2⟩
          · exact absurd ⟨cl, hm, Or.inr h2⟩ hex
        · exact absurd ⟨cl, hm, Or.inl h1⟩ hex

/-- **B(1), progress.** In a reachable state that is not quiescent, something in flight can be processed:
there is a step that is not a local operation. -/
theorem rt_progress {n : Nat} {S : Sys} (h : Reach currentFacts n S) (hq : ¬ Quiescent S) :
    ∃ S', Step currentFacts S S' ∧ ¬ IsLocalOp S S' :=
  progress_of_inv rfl (inv_reach rfl rfl h) hq

/-- conversely, in a quiescent state nothing but a local operation can happen (any guards) -/
theorem quiescent_only_localOp {f : RtFacts} {S S' : Sys} (hq : Quiescent S) (h : Step f S S') :
    IsLocalOp S S' := by
  obtain ⟨hreqs, hresps, hcls⟩ := hq
  cases h with
  | localOp i cl hcl => exact ⟨i, cl, hcl, rfl⟩
  | deliverBusy i cl hcl hsp _ _ =>
    have := (hcls cl (List.mem_of_getElem? hcl)).2; omega
  | deliverGo i cl hcl hsp _ =>
    have := (hcls cl (List.mem_of_getElem? hcl)).2; omega
  | serve r pre post hv hr _ => rw [hreqs] at hr; simp at hr
  | respond p pre post cl hr _ => rw [hresps] at hr; simp at hr
  | notified i cl n pre post hcl hn =>
    have := (hcls cl (List.mem_of_getElem? hcl)).1
    rw [this] at hn; simp at hn

/-- a schedule of `k` processing steps -/
inductive PRun (f : RtFacts) : Nat → Sys → Sys → Prop
  | nil (S : Sys) : PRun f 0 S S
  | cons {k : Nat} {S S' S'' : Sys} : PStep f S S' → PRun f k S' S'' → PRun f (k + 1) S S''

theorem prun_snoc {f : RtFacts} {k : Nat} {S S' S'' : Sys} (hr : PRun f k S S') (hs : PStep f S' S'') :
    PRun f (k + 1) S S'' := by
  induction hr with
  | nil => exact PRun.cons hs (PRun.nil _)
  | cons hst _ ih => exact PRun.cons hst (ih hs)

theorem prun_reach {f : RtFacts} {n k : Nat} {S S' : Sys} (h : Reach f n S) (hr : PRun f k S S') :
    Reach f n S' := by
  induction hr with
  | nil => exact h
  | cons hs _ ih => exact ih (Reach.step h hs.1)

theorem prun_bound {n k : Nat} {S S' : Sys} (h : Reach currentFacts n S) (hr : PRun currentFacts k S S') :
    k + μ S' ≤ μ S := by
  induction hr with
  | nil => omega
  | cons hs _ ih =>
    have h1 := measure_decreases (inv_reach rfl rfl h) hs
    have h2 := ih (Reach.step h hs.1)
    omega

/-- **B(2), termination.** Once the users stop issuing operations: (i) no schedule of processing steps from a
reachable state `S` is longer than `μ S`; (ii) wherever such a schedule stands, either it can go on or the
state is quiescent and (by A) converged.  Hence EVERY maximal schedule ends, after at most `μ S` steps, in a
quiescent converged state — without any further `Sync` call. -/
theorem rt_terminates {n : Nat} {S : Sys} (h : Reach currentFacts n S) :
    (∀ k S', PRun currentFacts k S S' → k ≤ μ S) ∧
    (∀ k S', PRun currentFacts k S S' →
        (∃ S'', PStep currentFacts S' S'') ∨ (Quiescent S' ∧ Converged S')) := by
  refine ⟨fun k S' hr => ?_, fun k S' hr => ?_⟩
  · have := prun_bound h hr; omega
  · have h' := prun_reach h hr
    by_cases hq : Quiescent S'
    · exact Or.inr ⟨hq, rt_quiescent_converged n S' h' hq⟩
    · exact Or.inl (rt_progress h' hq)

/-- the same as well-foundedness: no infinite schedule of processing steps from a reachable state -/
theorem rt_terminates_acc {n : Nat} {S : Sys} (h : Reach currentFacts n S) :
    Acc (fun S'' S' => PStep currentFacts S' S'') S := by
  generalize hm : μ S = m
  induction m using Nat.strongRecOn generalizing S with
  | _ m ih =>
    refine Acc.intro S fun S' hs => ?_
    have hlt := measure_decreases (inv_reach rfl rfl h) hs
    exact ih (μ S') (hm ▸ hlt) (Reach.step h hs.1) rfl

theorem rt_no_infinite_run {n : Nat} {S : Sys} (h : Reach currentFacts n S) :
    ¬ ∃ σ : Nat → Sys, σ 0 = S ∧ ∀ k, PStep currentFacts (σ k) (σ (k + 1)) := by
  rintro ⟨σ, h0, hs⟩
  have hr : ∀ k, PRun currentFacts k (σ 0) (σ k) ∧ Reach currentFacts n (σ k) := by
    intro k
    induction k with
    | zero => exact ⟨PRun.nil _, h0 ▸ h⟩
    | succ k ih =>
      refine ⟨?_, Reach.step ih.2 (hs k).1⟩
      exact prun_snoc ih.1 (hs k)
  have := (rt_terminates h).1 (μ S + 1) (σ (μ S + 1)) (h0 ▸ (hr (μ S + 1)).1)
  omega

/-- and some (indeed every maximal) schedule does reach a quiescent, converged state -/
theorem rt_reaches_converged {n : Nat} {S : Sys} (h : Reach currentFacts n S) :
    ∃ k S', PRun currentFacts k S S' ∧ k ≤ μ S ∧ Quiescent S' ∧ Converged S' := by
  generalize hm : μ S = m
  induction m using Nat.strongRecOn generalizing S with
  | _ m ih =>
    by_cases hq : Quiescent S
    · exact ⟨0, S, PRun.nil S, Nat.zero_le _, hq, rt_quiescent_converged n S h hq⟩
    · obtain ⟨S1, hs⟩ := rt_progress h hq
      have hlt := measure_decreases (inv_reach rfl rfl h) hs
      obtain ⟨k, S', hr, hk, hq', hc⟩ := ih (μ S1) (hm ▸ hlt) (Reach.step h hs.1) rfl
      exact ⟨k + 1, S', PRun.cons hs hr, by omega, hq', hc⟩


/-! ## C. The guards matter: explicit counterexample traces

Notation in the concrete states: a client is `⟨issued, acked, sseq, sema, spawned, notifs⟩`,
a system is `⟨clients, logEnd, srvCseq, reqs, resps⟩`. -/

/-! ### C(1): a notification-triggered sync that competes for the semaphore loses a wake-up -/

def factsNotifySema : RtFacts := { currentFacts with notifySyncTakesSema := true }

namespace C1
def a0 : Sys := ⟨[⟨0,0,0,false,0,[]⟩, ⟨0,0,0,false,0,[]⟩], 0, [0,0], [], []⟩
/-- client 1 issues an operation … -/
def a1 : Sys := ⟨[⟨0,0,0,false,0,[]⟩, ⟨1,0,0,false,1,[]⟩], 0, [0,0], [], []⟩
/-- … and delivers it (takes the semaphore) -/
def a2 : Sys := ⟨[⟨0,0,0,false,0,[]⟩, ⟨1,0,0,true,0,[]⟩], 0, [0,0], [⟨1,.deliver,1⟩], []⟩
/-- the server stores it (log end 1) and publishes; the response to client 1 (sseq 1) is delayed -/
def a3 : Sys := ⟨[⟨0,0,0,false,0,[(1,1)]⟩, ⟨1,0,0,true,0,[(1,1)]⟩], 1, [0,1], [], [⟨1,.deliver,1,1⟩]⟩
/-- client 0 issues an operation and delivers it -/
def a4 : Sys := ⟨[⟨1,0,0,false,1,[(1,1)]⟩, ⟨1,0,0,true,0,[(1,1)]⟩], 1, [0,1], [], [⟨1,.deliver,1,1⟩]⟩
def a5 : Sys := ⟨[⟨1,0,0,true,0,[(1,1)]⟩, ⟨1,0,0,true,0,[(1,1)]⟩], 1, [0,1], [⟨0,.deliver,1⟩], [⟨1,.deliver,1,1⟩]⟩
/-- the server stores it (log end 2) and publishes (0,2) -/
def a6 : Sys := ⟨[⟨1,0,0,true,0,[(1,1),(0,2)]⟩, ⟨1,0,0,true,0,[(1,1),(0,2)]⟩], 2, [1,1], [],
  [⟨1,.deliver,1,1⟩, ⟨0,.deliver,2,1⟩]⟩
/-- client 1 receives (0,2) while its own delivery still holds the semaphore: DROPPED — the lost wake-up -/
def a7 : Sys := ⟨[⟨1,0,0,true,0,[(1,1),(0,2)]⟩, ⟨1,0,0,true,0,[(1,1)]⟩], 2, [1,1], [],
  [⟨1,.deliver,1,1⟩, ⟨0,.deliver,2,1⟩]⟩
/-- client 1 drops its own notification -/
def a8 : Sys := ⟨[⟨1,0,0,true,0,[(1,1),(0,2)]⟩, ⟨1,0,0,true,0,[]⟩], 2, [1,1], [],
  [⟨1,.deliver,1,1⟩, ⟨0,.deliver,2,1⟩]⟩
/-- the delayed response reaches client 1: sseq 1, everything pushed, nothing to re-deliver -/
def a9 : Sys := ⟨[⟨1,0,0,true,0,[(1,1),(0,2)]⟩, ⟨1,1,1,false,0,[]⟩], 2, [1,1], [], [⟨0,.deliver,2,1⟩]⟩
/-- client 0 gets its response and drops its two notifications (already there / own) -/
def a10 : Sys := ⟨[⟨1,1,2,false,0,[(1,1),(0,2)]⟩, ⟨1,1,1,false,0,[]⟩], 2, [1,1], [], []⟩
def a11 : Sys := ⟨[⟨1,1,2,false,0,[(0,2)]⟩, ⟨1,1,1,false,0,[]⟩], 2, [1,1], [], []⟩
def a12 : Sys := ⟨[⟨1,1,2,false,0,[]⟩, ⟨1,1,1,false,0,[]⟩], 2, [1,1], [], []⟩

theorem s1 : Step factsNotifySema a0 a1 := Step.localOp a0 1 ⟨0,0,0,false,0,[]⟩ rfl
theorem s2 : Step factsNotifySema a1 a2 := Step.deliverGo a1 1 ⟨1,0,0,false,1,[]⟩ rfl (by decide) rfl
theorem s3 : Step factsNotifySema a2 a3 := Step.serve a2 ⟨1,.deliver,1⟩ [] [] 0 rfl rfl
theorem s4 : Step factsNotifySema a3 a4 := Step.localOp a3 0 ⟨0,0,0,false,0,[(1,1)]⟩ rfl
theorem s5 : Step factsNotifySema a4 a5 := Step.deliverGo a4 0 ⟨1,0,0,false,1,[(1,1)]⟩ rfl (by decide) rfl
theorem s6 : Step factsNotifySema a5 a6 := Step.serve a5 ⟨0,.deliver,1⟩ [] [] 0 rfl rfl
theorem s7 : Step factsNotifySema a6 a7 :=
  Step.notified a6 1 ⟨1,0,0,true,0,[(1,1),(0,2)]⟩ (0,2) [(1,1)] [] rfl rfl
theorem s8 : Step factsNotifySema a7 a8 := Step.notified a7 1 ⟨1,0,0,true,0,[(1,1)]⟩ (1,1) [] [] rfl rfl
theorem s9 : Step factsNotifySema a8 a9 :=
  Step.respond a8 ⟨1,.deliver,1,1⟩ [] [⟨0,.deliver,2,1⟩] ⟨1,0,0,true,0,[]⟩ rfl rfl
theorem s10 : Step factsNotifySema a9 a10 :=
  Step.respond a9 ⟨0,.deliver,2,1⟩ [] [] ⟨1,0,0,true,0,[(1,1),(0,2)]⟩ rfl rfl
theorem s11 : Step factsNotifySema a10 a11 :=
  Step.notified a10 0 ⟨1,1,2,false,0,[(1,1),(0,2)]⟩ (1,1) [] [(0,2)] rfl rfl
theorem s12 : Step factsNotifySema a11 a12 := Step.notified a11 0 ⟨1,1,2,false,0,[(0,2)]⟩ (0,2) [] [] rfl rfl

theorem reach : Reach factsNotifySema 2 a12 :=
  (((((((((((Reach.init.step s1).step s2).step s3).step s4).step s5).step s6).step s7).step s8).step s9).step
    s10).step s11).step s12
end C1

/-- **C(1).** If the notification-triggered sync tried the semaphore (and gave up when busy), there would be a
reachable QUIESCENT state that is not converged: client 1 stays at sseq 1 while the log ends at 2, and nothing
is left to wake it up. -/
theorem rt_notifySema_lost_wakeup :
    ∃ S, Reach factsNotifySema 2 S ∧ Quiescent S ∧ ¬ Converged S ∧
      S.clients[1]? = some ⟨1,1,1,false,0,[]⟩ ∧ S.logEnd = 2 := by
  refine ⟨C1.a12, C1.reach, ⟨rfl, rfl, by decide⟩, ?_, rfl, rfl⟩
  intro h
  have := (h 1 ⟨1,1,1,false,0,[]⟩ rfl).2.1
  exact absurd this (by decide)

/-! ### C(2): without the re-check after releasing the semaphore an operation is never pushed -/

def factsNoRecheck : RtFacts := { currentFacts with deliverRechecks := false }

namespace C2
def b0 : Sys := ⟨[⟨0,0,0,false,0,[]⟩], 0, [0], [], []⟩
/-- first operation, delivery started -/
def b1 : Sys := ⟨[⟨1,0,0,false,1,[]⟩], 0, [0], [], []⟩
def b2 : Sys := ⟨[⟨1,0,0,true,0,[]⟩], 0, [0], [⟨0,.deliver,1⟩], []⟩
/-- second operation while the delivery is in flight: its goroutine finds the semaphore busy and returns -/
def b3 : Sys := ⟨[⟨2,0,0,true,1,[]⟩], 0, [0], [⟨0,.deliver,1⟩], []⟩
def b4 : Sys := ⟨[⟨2,0,0,true,0,[]⟩], 0, [0], [⟨0,.deliver,1⟩], []⟩
/-- the server stores operation 1 -/
def b5 : Sys := ⟨[⟨2,0,0,true,0,[(0,1)]⟩], 1, [1], [], [⟨0,.deliver,1,1⟩]⟩
/-- the response releases the semaphore; NO re-check of NeedPush -/
def b6 : Sys := ⟨[⟨2,1,1,false,0,[(0,1)]⟩], 1, [1], [], []⟩
/-- own notification dropped -/
def b7 : Sys := ⟨[⟨2,1,1,false,0,[]⟩], 1, [1], [], []⟩

theorem s1 : Step factsNoRecheck b0 b1 := Step.localOp b0 0 ⟨0,0,0,false,0,[]⟩ rfl
theorem s2 : Step factsNoRecheck b1 b2 := Step.deliverGo b1 0 ⟨1,0,0,false,1,[]⟩ rfl (by decide) rfl
theorem s3 : Step factsNoRecheck b2 b3 := Step.localOp b2 0 ⟨1,0,0,true,0,[]⟩ rfl
theorem s4 : Step factsNoRecheck b3 b4 := Step.deliverBusy b3 0 ⟨2,0,0,true,1,[]⟩ rfl (by decide) rfl rfl
theorem s5 : Step factsNoRecheck b4 b5 := Step.serve b4 ⟨0,.deliver,1⟩ [] [] 0 rfl rfl
theorem s6 : Step factsNoRecheck b5 b6 :=
  Step.respond b5 ⟨0,.deliver,1,1⟩ [] [] ⟨2,0,0,true,0,[(0,1)]⟩ rfl rfl
theorem s7 : Step factsNoRecheck b6 b7 := Step.notified b6 0 ⟨2,1,1,false,0,[(0,1)]⟩ (0,1) [] [] rfl rfl

theorem reach : Reach factsNoRecheck 1 b7 :=
  ((((((Reach.init.step s1).step s2).step s3).step s4).step s5).step s6).step s7
end C2

/-- **C(2).** Without the re-check of `NeedPush` after releasing the semaphore there is a reachable quiescent
state in which the client has issued 2 operations and the server has 1: the second operation is not pushed, and
(by `quiescent_only_localOp`) nothing will push it unless the user issues yet another operation. -/
theorem rt_noRecheck_never_pushed :
    ∃ S, Reach factsNoRecheck 1 S ∧ Quiescent S ∧ ¬ Converged S ∧
      S.clients[0]? = some ⟨2,1,1,false,0,[]⟩ ∧ S.srvCseq = [1] ∧
      ∀ S', Step factsNoRecheck S S' → IsLocalOp S S' := by
  have hq : Quiescent C2.b7 := ⟨rfl, rfl, by decide⟩
  refine ⟨C2.b7, C2.reach, hq, ?_, rfl, rfl, fun S' h => quiescent_only_localOp hq h⟩
  intro h
  have := (h 0 ⟨2,1,1,false,0,[]⟩ rfl).1
  exact absurd this (by decide)

/-! ### C(3): `needPullGuard := false`
Convergence still holds: `rt_quiescent_converged_of_guards` above covers every setting of the guards with
`notifySyncTakesSema = false ∧ deliverRechecks = true`; instance: -/

def factsNoPullGuard : RtFacts := { currentFacts with needPullGuard := false }

theorem rt_noPullGuard_converged (n : Nat) (S : Sys) (h : Reach factsNoPullGuard n S) (hq : Quiescent S) :
    Converged S :=
  rt_quiescent_converged_of_guards rfl rfl n S h hq

/-! ## D. Non-vacuity: 2 clients, 3 operations, reachable, quiescent, converged -/

namespace D
def d0 : Sys := ⟨[⟨0,0,0,false,0,[]⟩, ⟨0,0,0,false,0,[]⟩], 0, [0,0], [], []⟩
/-- client 0 issues two operations; the first goroutine delivers both, the second finds the semaphore busy -/
def d1 : Sys := ⟨[⟨1,0,0,false,1,[]⟩, ⟨0,0,0,false,0,[]⟩], 0, [0,0], [], []⟩
def d2 : Sys := ⟨[⟨2,0,0,false,2,[]⟩, ⟨0,0,0,false,0,[]⟩], 0, [0,0], [], []⟩
def d3 : Sys := ⟨[⟨2,0,0,true,1,[]⟩, ⟨0,0,0,false,0,[]⟩], 0, [0,0], [⟨0,.deliver,2⟩], []⟩
def d4 : Sys := ⟨[⟨2,0,0,true,0,[]⟩, ⟨0,0,0,false,0,[]⟩], 0, [0,0], [⟨0,.deliver,2⟩], []⟩
/-- client 1 issues one operation and delivers it -/
def d5 : Sys := ⟨[⟨2,0,0,true,0,[]⟩, ⟨1,0,0,false,1,[]⟩], 0, [0,0], [⟨0,.deliver,2⟩], []⟩
def d6 : Sys := ⟨[⟨2,0,0,true,0,[]⟩, ⟨1,0,0,true,0,[]⟩], 0, [0,0], [⟨0,.deliver,2⟩, ⟨1,.deliver,1⟩], []⟩
/-- the server serves both pushes -/
def d7 : Sys := ⟨[⟨2,0,0,true,0,[(0,2)]⟩, ⟨1,0,0,true,0,[(0,2)]⟩], 2, [2,0], [⟨1,.deliver,1⟩],
  [⟨0,.deliver,2,2⟩]⟩
def d8 : Sys := ⟨[⟨2,0,0,true,0,[(0,2),(1,3)]⟩, ⟨1,0,0,true,0,[(0,2),(1,3)]⟩], 3, [2,1], [],
  [⟨0,.deliver,2,2⟩, ⟨1,.deliver,3,1⟩]⟩
/-- the responses arrive -/
def d9 : Sys := ⟨[⟨2,2,2,false,0,[(0,2),(1,3)]⟩, ⟨1,0,0,true,0,[(0,2),(1,3)]⟩], 3, [2,1], [],
  [⟨1,.deliver,3,1⟩]⟩
def d10 : Sys := ⟨[⟨2,2,2,false,0,[(0,2),(1,3)]⟩, ⟨1,1,3,false,0,[(0,2),(1,3)]⟩], 3, [2,1], [], []⟩
/-- client 0: own notification dropped, the one of client 1 starts a sync (sseq 2 < 3) -/
def d11 : Sys := ⟨[⟨2,2,2,false,0,[(1,3)]⟩, ⟨1,1,3,false,0,[(0,2),(1,3)]⟩], 3, [2,1], [], []⟩
def d12 : Sys := ⟨[⟨2,2,2,false,0,[]⟩, ⟨1,1,3,false,0,[(0,2),(1,3)]⟩], 3, [2,1], [⟨0,.notify,2⟩], []⟩
/-- client 1: already at 3 / own -/
def d13 : Sys := ⟨[⟨2,2,2,false,0,[]⟩, ⟨1,1,3,false,0,[(1,3)]⟩], 3, [2,1], [⟨0,.notify,2⟩], []⟩
def d14 : Sys := ⟨[⟨2,2,2,false,0,[]⟩, ⟨1,1,3,false,0,[]⟩], 3, [2,1], [⟨0,.notify,2⟩], []⟩
/-- the notification-triggered sync of client 0 -/
def d15 : Sys := ⟨[⟨2,2,2,false,0,[]⟩, ⟨1,1,3,false,0,[]⟩], 3, [2,1], [], [⟨0,.notify,3,2⟩]⟩
def d16 : Sys := ⟨[⟨2,2,3,false,0,[]⟩, ⟨1,1,3,false,0,[]⟩], 3, [2,1], [], []⟩

theorem s1 : Step currentFacts d0 d1 := Step.localOp d0 0 ⟨0,0,0,false,0,[]⟩ rfl
theorem s2 : Step currentFacts d1 d2 := Step.localOp d1 0 ⟨1,0,0,false,1,[]⟩ rfl
theorem s3 : Step currentFacts d2 d3 := Step.deliverGo d2 0 ⟨2,0,0,false,2,[]⟩ rfl (by decide) rfl
theorem s4 : Step currentFacts d3 d4 := Step.deliverBusy d3 0 ⟨2,0,0,true,1,[]⟩ rfl (by decide) rfl rfl
theorem s5 : Step currentFacts d4 d5 := Step.localOp d4 1 ⟨0,0,0,false,0,[]⟩ rfl
theorem s6 : Step currentFacts d5 d6 := Step.deliverGo d5 1 ⟨1,0,0,false,1,[]⟩ rfl (by decide) rfl
theorem s7 : Step currentFacts d6 d7 := Step.serve d6 ⟨0,.deliver,2⟩ [] [⟨1,.deliver,1⟩] 0 rfl rfl
theorem s8 : Step currentFacts d7 d8 := Step.serve d7 ⟨1,.deliver,1⟩ [] [] 0 rfl rfl
theorem s9 : Step currentFacts d8 d9 :=
  Step.respond d8 ⟨0,.deliver,2,2⟩ [] [⟨1,.deliver,3,1⟩] ⟨2,0,0,true,0,[(0,2),(1,3)]⟩ rfl rfl
theorem s10 : Step currentFacts d9 d10 :=
  Step.respond d9 ⟨1,.deliver,3,1⟩ [] [] ⟨1,0,0,true,0,[(0,2),(1,3)]⟩ rfl rfl
theorem s11 : Step currentFacts d10 d11 :=
  Step.notified d10 0 ⟨2,2,2,false,0,[(0,2),(1,3)]⟩ (0,2) [] [(1,3)] rfl rfl
theorem s12 : Step currentFacts d11 d12 := Step.notified d11 0 ⟨2,2,2,false,0,[(1,3)]⟩ (1,3) [] [] rfl rfl
theorem s13 : Step currentFacts d12 d13 :=
  Step.notified d12 1 ⟨1,1,3,false,0,[(0,2),(1,3)]⟩ (0,2) [] [(1,3)] rfl rfl
theorem s14 : Step currentFacts d13 d14 := Step.notified d13 1 ⟨1,1,3,false,0,[(1,3)]⟩ (1,3) [] [] rfl rfl
theorem s15 : Step currentFacts d14 d15 := Step.serve d14 ⟨0,.notify,2⟩ [] [] 2 rfl rfl
theorem s16 : Step currentFacts d15 d16 := Step.respond d15 ⟨0,.notify,3,2⟩ [] [] ⟨2,2,2,false,0,[]⟩ rfl rfl

theorem reach : Reach currentFacts 2 d16 :=
  (((((((((((((((Reach.init.step s1).step s2).step s3).step s4).step s5).step s6).step s7).step s8).step
    s9).step s10).step s11).step s12).step s13).step s14).step s15).step s16
end D

/-- **D. Non-vacuity.** A reachable, quiescent, converged state of the current source with 2 clients and
3 operations (client 0: two, client 1: one; the log ends at 3 and both clients are at 3). -/
theorem rt_nonvacuous :
    ∃ S, Reach currentFacts 2 S ∧ Quiescent S ∧ Converged S ∧
      S.clients = [⟨2,2,3,false,0,[]⟩, ⟨1,1,3,false,0,[]⟩] ∧ S.logEnd = 3 ∧ S.srvCseq = [2,1] := by
  refine ⟨D.d16, D.reach, ⟨rfl, rfl, by decide⟩, ?_, rfl, rfl, rfl⟩
  intro i cl h
  match i, h with
  | 0, h => cases h; decide
  | 1, h => cases h; decide
  | i + 2, h => simp [D.d16] at h

end Orda.Rt
