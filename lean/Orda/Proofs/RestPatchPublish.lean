/-
C19 / C11: the USER-FACING document after the REST patch endpoint.
The driver runs, after `Store.patchDocument`, the snapshot jobs it returned (`runJobs`, the text of Driver.lean, "patch" step).
Namespace `Orda.RestP`; continues `RestPatch` / `RestPatchCreate`.

HOW `userDocs` IS KEYED, WHAT "REPLACE" MEANS (Model/Server.lean, `Store.updateSnapshot duid colName`): the user collection is
the list `st.userDocs` of `⟨col, key, ver, value⟩`; an entry is addressed by the pair (collection NAME `col`, `key`).  The job
looks the datatype record up by id, rebuilds `Store.latest` = `(r, ver)`, and
  * if a snapshot record with this id and version `ver` exists already: writes NOTHING (`updateSnapshot_skips`) — neither a
    snapshot nor the user document;
  * otherwise appends the snapshot `⟨colNum, duid, ver, r.opId, key, r.state⟩` and REPLACES the user document: ALL entries with
    (col = colName ∧ key = doc.key) are filtered out and ONE entry `⟨colName, key, ver, r.state⟩` is appended.
The collection name is found from the job's collection NUMBER (`collections.find? (·.num = colNum)`).

* `publish_job`, `published_of_job`: one job on a store whose latest state is known.
* `patchDocument_pushes`: the existing-document case of the endpoint with ALL components of its result written out.
* (1) `patch_then_snapshot_job_publishes_target`, (2) `patch_create_then_snapshot_job_publishes_target`,
  (3) `patch_same_starts_no_job`; `updateSnapshot_skips` (why "no snapshot at the new version yet" is needed; it is DERIVED
  from the bound `hsnapb`, which follows from `Store.SnapInv`: `snap_bound_of_snapInv`).
* `ExP`: non-vacuity on the stores of `Ex` / `ExC`.
-/
import Orda.Proofs.RestPatch
import Orda.Proofs.RestPatchCreate
import Orda.Proofs.SnapReplay
namespace Orda.RestP
open Orda

/-- the driver's "patch" step after the endpoint: run the returned snapshot jobs (text of Driver.lean) -/
def runJobs (st1 : Store) (jobs : List (String × Nat)) : Store :=
  jobs.foldl (fun acc (duid, colNum) =>
    match acc.collections.find? (fun c => c.num = colNum) with
    | some cd => acc.updateSnapshot duid cd.name
    | none => acc) st1

/-- what the user sees afterwards: exactly ONE user document for (collection name, key), at version `n`, whose state is a
    document with the target as canonical view; a snapshot record of that datatype at version `n` with the same state; and
    `n` is the end of the log of the datatype record found under the key -/
def Published (st2 : Store) (col : CollectionDoc) (key duid : String) (n : Nat) (target : JVal) : Prop :=
  ∃ (s : DState) (dd : Doc), s = .doc dd ∧ dd.view.canon = target.canon ∧
    st2.userDocs.filter (fun u => u.col = col.name ∧ u.key = key) = [⟨col.name, key, n, s⟩] ∧
    (∃ sn ∈ st2.snapshots, sn.duid = duid ∧ sn.sseq = n ∧ sn.key = key ∧ sn.snap = s) ∧
    (∃ d', st2.getDatatypeByKey col.num key = some d' ∧ d'.duid = duid ∧ d'.sseqEnd = n)

/-! ## one job -/

/-- a job that finds a snapshot of the version it reaches writes nothing (duplicate `_id`): the user document stays as it is -/
theorem updateSnapshot_skips {st : Store} {duid colName : String} {doc : DatatypeDoc} {r : Replica} {n : Nat}
    (hg : st.getDatatype duid = some doc) (hl : st.latest doc = some (r, n))
    (hex : st.snapshots.any (fun s => s.duid = duid ∧ s.sseq = n) = true) : st.updateSnapshot duid colName = st := by
  unfold Store.updateSnapshot
  simp only [hg, hl, hex, if_true]

theorem publish_job {st1 : Store} {col : CollectionDoc} {duid : String} {doc : DatatypeDoc} {r : Replica} {n : Nat}
    (hnum : st1.collections.find? (fun c => c.num = col.num) = some col)
    (hg : st1.getDatatype duid = some doc) (hl : st1.latest doc = some (r, n))
    (hno : ∀ s ∈ st1.snapshots, s.duid = duid → s.sseq ≠ n) :
    runJobs st1 [(duid, col.num)] =
      { st1 with snapshots := st1.snapshots ++ [⟨doc.colNum, duid, n, r.opId, doc.key, r.state⟩],
                 userDocs := (st1.userDocs.filter (fun u => !(u.col = col.name ∧ u.key = doc.key))) ++
                             [⟨col.name, doc.key, n, r.state⟩] } := by
  have hany : st1.snapshots.any (fun s => s.duid = duid ∧ s.sseq = n) = false := by
    rw [Bool.eq_false_iff]
    intro h
    rw [List.any_eq_true] at h
    obtain ⟨s, hs, hp⟩ := h
    simp only [decide_eq_true_eq] at hp
    exact hno s hs hp.1 hp.2
  unfold runJobs
  simp only [List.foldl_cons, List.foldl_nil, hnum]
  unfold Store.updateSnapshot
  simp only [hg, hl, hany, Bool.false_eq_true, if_false]

theorem filter_replace (c k : String) (l : List UserDoc) (u : UserDoc) (hu : u.col = c ∧ u.key = k) :
    ((l.filter (fun u => !(u.col = c ∧ u.key = k))) ++ [u]).filter (fun u => u.col = c ∧ u.key = k) = [u] := by
  rw [List.filter_append, List.filter_filter]
  have h1 : l.filter (fun a => (decide (a.col = c ∧ a.key = k)) && !(decide (a.col = c ∧ a.key = k))) = [] := by
    apply List.filter_eq_nil_iff.2
    intro a _
    simp
  rw [h1]
  simp [hu]

theorem published_of_job {st1 : Store} {col : CollectionDoc} {key duid : String} {doc : DatatypeDoc} {r : Replica} {n : Nat}
    {target : JVal} {dd : Doc}
    (hnum : st1.collections.find? (fun c => c.num = col.num) = some col)
    (hk : st1.getDatatypeByKey col.num key = some doc) (hdu : doc.duid = duid) (hend : doc.sseqEnd = n)
    (hg : st1.getDatatype duid = some doc) (hl : st1.latest doc = some (r, n))
    (hno : ∀ s ∈ st1.snapshots, s.duid = duid → s.sseq ≠ n)
    (hs : r.state = .doc dd) (hv : dd.view.canon = target.canon) :
    Published (runJobs st1 [(duid, col.num)]) col key duid n target := by
  have hkey : doc.key = key := getDatatypeByKey_key hk
  rw [publish_job hnum hg hl hno, hkey]
  refine ⟨r.state, dd, hs, hv, ?_, ?_, ?_⟩
  · exact filter_replace col.name key _ _ ⟨rfl, rfl⟩
  · exact ⟨⟨doc.colNum, duid, n, r.opId, key, r.state⟩, by simp, rfl, rfl, rfl, rfl⟩
  · exact ⟨doc, hk, hdu, hend⟩

/-! ## the endpoint never touches snapshots, user documents, collections; it keeps the log invariant -/

section frame
open SL SN

theorem pp_frame (st : Store) (cl : ClientDoc) (col : CollectionDoc) (p : Pack) (hlog : LogInv st) :
    (processPack st cl col p).store.snapshots = st.snapshots ∧ (processPack st cl col p).store.userDocs = st.userDocs ∧
    (processPack st cl col p).store.collections = st.collections ∧ LogInv (processPack st cl col p).store := by
  obtain ⟨h1, h2, _⟩ := processPack_store st cl col p hlog
  refine ⟨h1, h2, ?_, logInv_processPack st cl col p hlog⟩
  rcases processPack_shape st cl col p with ⟨resp, he, _⟩ | ⟨d, doc, cp2, nd, he, _, _⟩
  · rw [he]
  · rw [he]; rfl

theorem run_frame (st : Store) (col : CollectionDoc) (w : WDt) (target : JVal) (hlog : LogInv st) :
    (run st col w target).1.snapshots = st.snapshots ∧ (run st col w target).1.userDocs = st.userDocs ∧
    (run st col w target).1.collections = st.collections ∧ LogInv (run st col w target).1 := by
  unfold run
  rcases w.rep.patchByJSON target with ⟨r2, ops, o⟩
  cases o with
  | err c => exact ⟨rfl, rfl, rfl, hlog⟩
  | panic s => exact ⟨rfl, rfl, rfl, hlog⟩
  | ok u =>
    cases u
    simp only
    split
    · exact ⟨rfl, rfl, rfl, hlog⟩
    · exact pp_frame st _ col _ hlog

theorem patchDocument_frame (st : Store) (colName key : String) (target : JVal) (tmpDuid tmpCuid : String) (hlog : LogInv st) :
    (st.patchDocument colName key target tmpDuid tmpCuid).1.snapshots = st.snapshots ∧
    (st.patchDocument colName key target tmpDuid tmpCuid).1.userDocs = st.userDocs ∧
    (st.patchDocument colName key target tmpDuid tmpCuid).1.collections = st.collections ∧
    LogInv (st.patchDocument colName key target tmpDuid tmpCuid).1 := by
  rw [patchDocument_eq]
  split
  · exact ⟨rfl, rfl, rfl, hlog⟩
  · split
    · split
      · exact ⟨rfl, rfl, rfl, hlog⟩
      · split
        · exact ⟨rfl, rfl, rfl, hlog⟩
        · exact run_frame st _ _ _ hlog
    · exact run_frame st _ _ _ hlog

/-- a snapshot's version never exceeds the end of the log: from `Store.SnapInv` -/
theorem snap_bound_of_snapInv {st : Store} {d : DatatypeDoc} (hs : st.SnapInv) (hd : d ∈ st.datatypes) :
    ∀ s ∈ st.snapshots, s.duid = d.duid → s.sseq ≤ d.sseqEnd :=
  fun s hsm e => (hs s hsm d hd e.symm).1

/-! ## the existing-document case, every component of the result -/

/-- `processPack_admin` with the notification and the answer's id as well -/
theorem processPack_admin_full (st : Store) (col : CollectionDoc) (d : DatatypeDoc) (p : Pack) (hlog : LogInv st)
    (hd : d ∈ st.datatypes) (hcol : d.colNum = col.num) (hkey : d.key = p.key) (hduid : p.duid = d.duid)
    (hc : p.create = false) (hsu : p.subscribe = false) (hro : p.readOnly = false)
    (hadmin : d.sub patchApiCuid false = none) (hseq : SeqFrom 1 p.ops) (hne : p.ops ≠ []) :
    (processPack st ⟨patchApiCuid, "ordaPatchAPI", col.num, 2, 0⟩ col p).store = pushed st col d p.ops ∧
    (processPack st ⟨patchApiCuid, "ordaPatchAPI", col.num, 2, 0⟩ col p).notif =
      some ⟨col.name ++ "/" ++ d.key, patchApiCuid, d.duid, d.sseqEnd + p.ops.length⟩ ∧
    (processPack st ⟨patchApiCuid, "ordaPatchAPI", col.num, 2, 0⟩ col p).pushed = p.ops.length ∧
    (processPack st ⟨patchApiCuid, "ordaPatchAPI", col.num, 2, 0⟩ col p).resp.duid = p.duid := by
  have hget : st.getDatatype p.duid = some d := by rw [hduid]; exact getDatatype_of_mem hlog hd
  have hev : evalCase st col patchApiCuid p = (.usedDUID, some d) := by
    unfold evalCase
    simp [hc, hsu, hget, hcol, hkey]
  have hdsp : dsp st ⟨patchApiCuid, "ordaPatchAPI", col.num, 2, 0⟩ col p = .normal := by
    have hdis : dispatch PPCase.usedDUID false false true = .normal := by decide
    unfold dsp
    simp [hev, hc, hsu, sameDuid, hduid, hdis]
  have hpush : pushRes ⟨patchApiCuid, "ordaPatchAPI", col.num, 2, 0⟩ col p .normal d =
      .ok (⟨d.sseqEnd + p.ops.length, 0 + p.ops.length⟩, [] ++ mkDocs d.duid col.num d.sseqEnd p.ops) := by
    unfold pushRes
    simp only [hro, Bool.false_eq_true, if_false, opDuid, cp1, cp0, hadmin, reduceCtorEq, hduid]
    exact pushOps_accept d.duid col.num p.ops ⟨d.sseqEnd, 0⟩ [] hseq
  have hemp : (mkDocs d.duid col.num d.sseqEnd p.ops).isEmpty = false := by
    cases hp : p.ops with
    | nil => exact absurd hp hne
    | cons o os => rfl
  rw [processPack_eq]
  simp only [hro, Bool.false_and, Bool.false_eq_true, if_false, hdsp, hev, docOf, finish, hpush]
  refine ⟨?_, ?_, ?_, ?_⟩
  · simp only [okR, doc2, cp3, pulled, if_true, List.getLast?_nil, hro, Bool.false_eq_true, if_false, List.nil_append, pushed]
  · simp only [okR, cp3, pulled, if_true, List.getLast?_nil, List.nil_append, hemp, Bool.false_eq_true, if_false]
  · simp only [okR, List.nil_append, mkDocs_length]
  · simp [okR, resp1, resp0]

theorem find_upsert_duid (d2 : DatatypeDoc) : ∀ l : List DatatypeDoc,
    (upsertDatatype d2 l).find? (fun x => x.duid = d2.duid) = some d2
  | [] => by simp [upsertDatatype]
  | x :: xs => by
    unfold upsertDatatype
    by_cases hx : x.duid = d2.duid
    · rw [if_pos hx]; simp
    · rw [if_neg hx, List.find?_cons]
      simp only [hx, decide_false]
      exact find_upsert_duid d2 xs

end frame

/-- **the existing-document case, all components**: under the hypotheses of `patchDocument_stores_target` and a target that
    differs from the current value (`hchg`), the endpoint pushes a non-empty list `ops` of operations: the store is
    `pushed st col d ops`, ONE notification with the new end of the log, ONE snapshot job for the document's id; the latest
    state of the new datatype record is at the new end of the log and has the target as value -/
theorem patchDocument_pushes
    (st : Store) (colName key tmpDuid tmpCuid : String) (col : CollectionDoc) (d : DatatypeDoc) (r0 : Replica) (ver : Nat)
    (hc : st.getCollection colName = some col) (hd : st.getDatatypeByKey col.num key = some d) (ht : d.typ = .document)
    (hl : st.latest d = some (r0, ver))
    (hinv : DP.DocInv { r0 with opId := { r0.opId with cuid := tmpCuid }, cp := ⟨ver, 0⟩ })
    (hlog : LogInv st) (hend : ver = d.sseqEnd) (hpos : 0 < ver)
    (hadmin : d.sub patchApiCuid false = none)
    (hhist : ∀ d0, r0.state = .doc d0 → DLR.HistOK d0)
    (tgt : List (String × JVal)) (hn : (JVal.obj tgt).hasNull = false) (hk : DC.JKeysND (.obj tgt))
    (hchg : ∀ d0, r0.state = .doc d0 → d0.view.canon ≠ (JVal.obj tgt).canon) :
    ∃ (ops : List Op) (v : JVal) (q1 : Replica) (d1 : Doc), ops ≠ [] ∧
      st.patchDocument colName key (.obj tgt) tmpDuid tmpCuid =
        (pushed st col d ops, .ok v, [⟨col.name ++ "/" ++ key, patchApiCuid, d.duid, d.sseqEnd + ops.length⟩],
         [(d.duid, col.num)]) ∧
      v.canon = (JVal.obj tgt).canon ∧
      (pushed st col d ops).latest { d with sseqEnd := d.sseqEnd + ops.length } = some (q1, d.sseqEnd + ops.length) ∧
      q1.state = .doc d1 ∧ d1.view.canon = (JVal.obj tgt).canon := by
  have _ := hk
  rw [patchDocument_eq]
  simp only [hc, hd, ht, hl, ne_eq, not_true_eq_false, if_false]
  obtain ⟨d0, hs, I, hkeys⟩ := id hinv
  have hs1 : (tmpRep r0 ver tmpCuid).state = .doc d0 := hs
  have hq : r0.state = .doc d0 := hs
  obtain ⟨happ, hgood⟩ := DPatch.script_ok I hkeys tgt hn
  have hpe := DPatch.patchByJSON_eq hs1 (.obj tgt)
  obtain ⟨hbuf0, hseq0, _, _⟩ := latest_fresh hl
  have hnil : jsonDiff d0.view.canon (JVal.obj tgt).canon ≠ [] := by
    intro h
    rw [h] at happ
    simp only [applyPatch, Option.some.injEq] at happ
    exact hchg d0 hq happ
  obtain ⟨d1, q1, p1, p2, p3, p4, p5, p6, p7, p8⟩ :=
    patch_remote (q := r0) hs1 hq I hkeys (hhist d0 hq) hbuf0 happ hgood hnil
  have h1 : ((tmpRep r0 ver tmpCuid).patchByJSON (.obj tgt)).2.2 = .ok () := by rw [hpe]; exact p1
  have h2 : ((tmpRep r0 ver tmpCuid).patchByJSON (.obj tgt)).2.1 ≠ [] := by rw [hpe]; exact hnil
  rw [run_full h1 h2]
  have hr2 : ((tmpRep r0 ver tmpCuid).patchByJSON (.obj tgt)).1 =
      ((tmpRep r0 ver tmpCuid).patch (jsonDiff d0.view.canon (JVal.obj tgt).canon)).1 := by rw [hpe]
  rw [hr2]
  generalize ((tmpRep r0 ver tmpCuid).patch (jsonDiff d0.view.canon (JVal.obj tgt).canon)).1 = r2 at p2 p4 p5 p6 p7
  have hseq1 : SeqFrom (0 + 1) r2.buffer := by
    have : (tmpRep r0 ver tmpCuid).opId.seq = 0 := hseq0
    rw [this] at p4; exact p4
  have hpend : r2.pending = r2.buffer := pending_eq p5 hseq1 (by rw [p6]; rfl)
  obtain ⟨hdm, hcol⟩ := SL.getDatatypeByKey_some hd
  have hkey := getDatatypeByKey_key hd
  subst hend
  have hops : (({ rep := r2, key := key, duid := d.duid, dstate := if d.sseqEnd > 0 then .subscribed else .dueToCreate } : WDt).createPack).ops = r2.buffer := hpend
  obtain ⟨hst, hnot, hpu, hdu⟩ := processPack_admin_full st col d
    ({ rep := r2, key := key, duid := d.duid, dstate := if d.sseqEnd > 0 then .subscribed else .dueToCreate } : WDt).createPack
    hlog hdm hcol hkey rfl (by simp [WDt.createPack, hpos]) (by simp [WDt.createPack, hpos]) rfl hadmin
    (by rw [hops]; exact hseq1) (by rw [hops]; exact p5)
  rw [hst, hnot, hpu, hdu, hops]
  have hpos' : r2.buffer.length > 0 := by
    cases hb : r2.buffer with
    | nil => exact absurd hb p5
    | cons a tl => simp
  refine ⟨r2.buffer, viewOf r2, q1, d1, p5, ?_, ?_, ?_, p8, p3⟩
  · simp only [hpos', if_true, Option.toList, hkey]
    rfl
  · simp only [viewOf, p2]
    exact p3
  · have h := latest_pushed (col := col) hlog hdm hl r2.buffer
    rw [p7] at h
    simp only [ht] at h
    exact h

/-! ## the theorems -/

/-- (1) EXISTING document, target different from the current value: after the returned snapshot job has run, the user
    collection holds exactly ONE document for (col.name, key); its version is the new end of the log; its state is a document
    whose canonical view is the target; a snapshot record of that version with the same state exists.
    Beyond `patchDocument_stores_target`: `hnum` (the collection is found under its NUMBER), `hsnapb` (no stored snapshot of
    the document is beyond the end of its log — from `Store.SnapInv`, `snap_bound_of_snapInv`; it gives "no snapshot at the new
    version yet"), `hchg` (the target differs from the current value; otherwise see `patch_same_starts_no_job`). -/
theorem patch_then_snapshot_job_publishes_target
    (st : Store) (colName key tmpDuid tmpCuid : String) (col : CollectionDoc) (d : DatatypeDoc) (r0 : Replica) (ver : Nat)
    (hc : st.getCollection colName = some col) (hd : st.getDatatypeByKey col.num key = some d) (ht : d.typ = .document)
    (hl : st.latest d = some (r0, ver))
    (hinv : DP.DocInv { r0 with opId := { r0.opId with cuid := tmpCuid }, cp := ⟨ver, 0⟩ })
    (hlog : LogInv st) (hend : ver = d.sseqEnd) (hpos : 0 < ver)
    (hadmin : d.sub patchApiCuid false = none)
    (hhist : ∀ d0, r0.state = .doc d0 → DLR.HistOK d0)
    (hnum : st.collections.find? (fun c => c.num = col.num) = some col)
    (hsnapb : ∀ s ∈ st.snapshots, s.duid = d.duid → s.sseq ≤ d.sseqEnd)
    (tgt : List (String × JVal)) (hn : (JVal.obj tgt).hasNull = false) (hk : DC.JKeysND (.obj tgt))
    (hchg : ∀ d0, r0.state = .doc d0 → d0.view.canon ≠ (JVal.obj tgt).canon) :
    ∃ n, d.sseqEnd < n ∧
      Published (runJobs (st.patchDocument colName key (.obj tgt) tmpDuid tmpCuid).1
                         (st.patchDocument colName key (.obj tgt) tmpDuid tmpCuid).2.2.2) col key d.duid n (.obj tgt) := by
  obtain ⟨ops, v, q1, d1, hne, heq, _, hlat, hq1, hv⟩ := patchDocument_pushes st colName key tmpDuid tmpCuid col d r0 ver
    hc hd ht hl hinv hlog hend hpos hadmin hhist tgt hn hk hchg
  have hlen : 0 < ops.length := by
    cases ops with
    | nil => exact absurd rfl hne
    | cons a tl => simp
  rw [heq]
  refine ⟨d.sseqEnd + ops.length, by omega, ?_⟩
  show Published (runJobs (pushed st col d ops) [(d.duid, col.num)]) col key d.duid _ _
  apply published_of_job (doc := { d with sseqEnd := d.sseqEnd + ops.length }) (r := q1) (dd := d1)
  · exact hnum
  · exact find_upsert hlog.duidNodup col.num key hd rfl rfl rfl
  · rfl
  · rfl
  · exact find_upsert_duid { d with sseqEnd := d.sseqEnd + ops.length } st.datatypes
  · exact hlat
  · intro s hs e
    have := hsnapb s hs e
    omega
  · exact hq1
  · exact hv

/-- (2) CREATED document (the key did not exist, the target is a non-empty object): after the returned snapshot job has run,
    the user collection holds exactly ONE document for (col.name, key), at the end of the new log, with the target as value,
    and the snapshot record exists.  Beyond `patchDocument_creates_and_stores_target`: `hnum`. -/
theorem patch_create_then_snapshot_job_publishes_target
    (st : Store) (colName key tmpDuid tmpCuid : String) (col : CollectionDoc)
    (hc : st.getCollection colName = some col) (hd : st.getDatatypeByKey col.num key = none)
    (hlog : LogInv st) (hfresh : st.getDatatype tmpDuid = none) (hsnap : ∀ s ∈ st.snapshots, s.duid ≠ tmpDuid)
    (hnum : st.collections.find? (fun c => c.num = col.num) = some col)
    (tgt : List (String × JVal)) (hn : (JVal.obj tgt).hasNull = false) (hk : DC.JKeysND (.obj tgt)) (hne : tgt ≠ []) :
    ∃ n, 2 ≤ n ∧
      Published (runJobs (st.patchDocument colName key (.obj tgt) tmpDuid tmpCuid).1
                         (st.patchDocument colName key (.obj tgt) tmpDuid tmpCuid).2.2.2) col key tmpDuid n (.obj tgt) := by
  obtain ⟨f1, _, f3, f4⟩ := patchDocument_frame st colName key (.obj tgt) tmpDuid tmpCuid hlog
  obtain ⟨st', v, n, nd, r', heq, _, hn2, _, _, _, _, hget, hlat, dd, hst, hview⟩ :=
    patchDocument_creates_and_stores_target st colName key tmpDuid tmpCuid col hc hd hlog hfresh hsnap tgt hn hk hne
  rw [heq] at f1 f3 f4 ⊢
  simp only at f1 f3 f4
  refine ⟨n, hn2, ?_⟩
  show Published (runJobs st' [(tmpDuid, col.num)]) col key tmpDuid n _
  apply published_of_job (doc := { duid := tmpDuid, key := key, colNum := col.num, typ := .document, sseqEnd := n })
    (r := r') (dd := dd)
  · rw [f3]; exact hnum
  · exact hget
  · rfl
  · rfl
  · exact getDatatype_of_mem f4 (SL.getDatatypeByKey_some hget).1
  · exact hlat
  · intro s hs e
    rw [f1] at hs
    exact absurd e (hsnap s hs)
  · exact hst
  · exact hview

/-- (3) the no-op patch (the target IS the current value) returns no job: nothing runs, the store — in particular the user
    document — is left exactly as it is -/
theorem patch_same_starts_no_job
    (st : Store) (colName key tmpDuid tmpCuid : String) (col : CollectionDoc) (d : DatatypeDoc) (r0 : Replica) (ver : Nat)
    (dd : Doc)
    (hc : st.getCollection colName = some col) (hd : st.getDatatypeByKey col.num key = some d) (ht : d.typ = .document)
    (hl : st.latest d = some (r0, ver)) (hs : r0.state = .doc dd)
    (hinv : DP.DocInv { r0 with opId := { r0.opId with cuid := tmpCuid }, cp := ⟨ver, 0⟩ }) :
    (st.patchDocument colName key dd.view tmpDuid tmpCuid).2.2.2 = [] ∧
    runJobs (st.patchDocument colName key dd.view tmpDuid tmpCuid).1
            (st.patchDocument colName key dd.view tmpDuid tmpCuid).2.2.2 = st := by
  rw [patchDocument_same_eq st colName key tmpDuid tmpCuid col d r0 ver dd hc hd ht hl hs hinv]
  exact ⟨rfl, rfl⟩

/-! ## non-vacuity: the stores of `Ex` (existing document "k") and `ExC` (new key "n") -/

namespace ExP
open Ex ExC

theorem hnumP : st3.collections.find? (fun c => c.num = col.num) = some col := by decide +kernel

theorem hsnapbP : ∀ s ∈ st3.snapshots, s.duid = d.duid → s.sseq ≤ d.sseqEnd := by
  have h : st3.snapshots = [] := List.isEmpty_iff.1 (by decide +kernel)
  intro s hs
  rw [h] at hs
  cases hs

/-- the current value of "k" is not the target -/
theorem hview0 : (docOf? r0.state).map (fun x => decide (x.view.canon = (JVal.obj tgt).canon)) = some false := by
  decide +kernel

theorem hchgP : ∀ d0, r0.state = .doc d0 → d0.view.canon ≠ (JVal.obj tgt).canon := by
  intro d0 h
  have h0 := hview0
  rw [h] at h0
  simpa [docOf?] using h0

/-- (1) instantiated on the existing document "k" of `Ex.st3`: all hypotheses discharged -/
example : ∃ n, d.sseqEnd < n ∧
    Published (runJobs (st3.patchDocument "col" "k" (.obj tgt) "dX" "tmp").1
                       (st3.patchDocument "col" "k" (.obj tgt) "dX" "tmp").2.2.2) col "k" d.duid n (.obj tgt) :=
  patch_then_snapshot_job_publishes_target st3 "col" "k" "dX" "tmp" col d r0 3 hc hd ht hl hinv hlog hend (by decide) hadmin
    hhist hnumP hsnapbP tgt tgt_nonull tgt_keys hchgP

/-- (2) instantiated on the new key "n" -/
example : ∃ n, 2 ≤ n ∧
    Published (runJobs (st3.patchDocument "col" "n" (.obj tgtC) "dX" "tmp").1
                       (st3.patchDocument "col" "n" (.obj tgtC) "dX" "tmp").2.2.2) col "n" "dX" n (.obj tgtC) :=
  patch_create_then_snapshot_job_publishes_target st3 "col" "n" "dX" "tmp" col hc hdC hlog hfreshC hsnapC hnumP
    tgtC tgtC_nonull tgtC_keys (by simp [tgtC])

/-- (2) kernel-evaluated: the user collection after the job — ONE document ("col", "n") at version 4 with the target as value -/
example : (runJobs (st3.patchDocument "col" "n" (.obj tgtC) "dX" "tmp").1
                  (st3.patchDocument "col" "n" (.obj tgtC) "dX" "tmp").2.2.2).userDocs.map
      (fun u => (u.col, u.key, u.ver, (docOf? u.value).map (fun x => x.view.canon))) =
    [("col", "n", 4, some (.obj [("b", .bool true), ("m", .arr [.arr [.num 1, .num 2], .obj [("y", .str "z")], .num 7])]))] := by
  decide +kernel

/-- … and the snapshot record at that version -/
example : (runJobs (st3.patchDocument "col" "n" (.obj tgtC) "dX" "tmp").1
                  (st3.patchDocument "col" "n" (.obj tgtC) "dX" "tmp").2.2.2).snapshots.map
      (fun s => (s.colNum, s.duid, s.sseq, s.key, (docOf? s.snap).map (fun x => x.view.canon))) =
    [(1, "dX", 4, "n", some (.obj [("b", .bool true), ("m", .arr [.arr [.num 1, .num 2], .obj [("y", .str "z")], .num 7])]))] := by
  decide +kernel

/-- the job run a SECOND time finds its snapshot and writes nothing (`updateSnapshot_skips`): still one snapshot, one user
    document -/
example : ((runJobs (st3.patchDocument "col" "n" (.obj tgtC) "dX" "tmp").1
                  ((st3.patchDocument "col" "n" (.obj tgtC) "dX" "tmp").2.2.2 ++
                   (st3.patchDocument "col" "n" (.obj tgtC) "dX" "tmp").2.2.2)).snapshots.map (fun s => (s.duid, s.sseq)),
           (runJobs (st3.patchDocument "col" "n" (.obj tgtC) "dX" "tmp").1
                  ((st3.patchDocument "col" "n" (.obj tgtC) "dX" "tmp").2.2.2 ++
                   (st3.patchDocument "col" "n" (.obj tgtC) "dX" "tmp").2.2.2)).userDocs.map (fun u => (u.col, u.key, u.ver))) =
    ([("dX", 4)], [("col", "n", 4)]) := by
  decide +kernel

/-- (3) instantiated: patching "k" to its current value starts no job, the store is as before -/
example : ∃ dd, r0.state = .doc dd ∧ (st3.patchDocument "col" "k" dd.view "dX" "tmp").2.2.2 = [] ∧
    runJobs (st3.patchDocument "col" "k" dd.view "dX" "tmp").1 (st3.patchDocument "col" "k" dd.view "dX" "tmp").2.2.2 = st3 := by
  obtain ⟨dd, hs⟩ := docInv_tmp_state (r0 := r0) (tmpCuid := "tmp") (ver := 3) hinv
  exact ⟨dd, hs, patch_same_starts_no_job st3 "col" "k" "dX" "tmp" col d r0 3 dd hc hd ht hl hs hinv⟩

end ExP

end Orda.RestP
