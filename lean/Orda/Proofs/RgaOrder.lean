/-
Abstract part of the RGA convergence argument (generic linear order of keys).

* `plt`: the path order (ancestors first, siblings by DESCENDING key) is a strict total order;
* `skipIns`: "skip while the next node is newer, then insert";
* `TInv`: the forest invariant (sorted by `plt`, prefix-closed, keys non-decreasing along a path);
* `skip_inv`: the RGA insert step preserves `TInv` (anchor path `ap`, `[]` for the head);
* `insAfter_inv`, `insHead_inv`: the two instances; `chain_inv`: a batch, each node child of the previous.

Carried over from design-notes/rga_invariant_prototype.lean and generalised to the head anchor.
-/
import Mathlib.Order.Defs.LinearOrder
import Mathlib.Tactic.Set
import Mathlib.Tactic.Tauto

namespace Orda.PathOrder

variable {K : Type} [LinearOrder K]

def plt : List K → List K → Prop
  | [], [] => False
  | [], _ :: _ => True
  | _ :: _, [] => False
  | a :: as, b :: bs => b < a ∨ (a = b ∧ plt as bs)

theorem plt_irrefl : ∀ p : List K, ¬ plt p p
  | [] => by simp [plt]
  | a :: as => by
      simp only [plt, true_and]
      rintro (h | h)
      · exact lt_irrefl a h
      · exact plt_irrefl as h

theorem plt_trans : ∀ {p q r : List K}, plt p q → plt q r → plt p r
  | [], [], _ => by simp [plt]
  | [], _ :: _, [] => by simp [plt]
  | [], _ :: _, _ :: _ => by simp [plt]
  | _ :: _, [], _ => by simp [plt]
  | _ :: _, _ :: _, [] => by simp [plt]
  | a :: as, b :: bs, c :: cs => by
      intro h1 h2
      simp only [plt] at *
      rcases h1 with h1 | ⟨rfl, h1⟩
      · rcases h2 with h2 | ⟨rfl, h2⟩
        · left; exact lt_trans h2 h1
        · left; exact h1
      · rcases h2 with h2 | ⟨rfl, h2⟩
        · left; exact h2
        · right; exact ⟨rfl, plt_trans h1 h2⟩

theorem plt_tri : ∀ (p q : List K), plt p q ∨ p = q ∨ plt q p
  | [], [] => by simp
  | [], _ :: _ => by simp [plt]
  | _ :: _, [] => by simp [plt]
  | a :: as, b :: bs => by
      simp only [plt]
      rcases lt_trichotomy a b with h | rfl | h
      · right; right; left; exact h
      · rcases plt_tri as bs with h | rfl | h
        · left; right; exact ⟨rfl, h⟩
        · right; left; rfl
        · right; right; right; exact ⟨rfl, h⟩
      · left; left; exact h

theorem plt_asymm {p q : List K} (h1 : plt p q) (h2 : plt q p) : False :=
  plt_irrefl p (plt_trans h1 h2)

/-- a proper prefix is smaller -/
theorem plt_prefix : ∀ (p : List K) (k : K) (r : List K), plt p (p ++ k :: r)
  | [], k, r => by simp [plt]
  | a :: as, k, r => by
      simp only [List.cons_append, plt, true_and]
      right; exact plt_prefix as k r

/-- common prefix cancels -/
theorem plt_append_left : ∀ (p x y : List K), plt (p ++ x) (p ++ y) ↔ plt x y
  | [], x, y => by simp
  | a :: as, x, y => by
      simp only [List.cons_append, plt, true_and, lt_irrefl, false_or]
      exact plt_append_left as x y

/-- structure of the order -/
theorem plt_cases : ∀ {p q : List K}, plt p q →
    (∃ k r, q = p ++ k :: r) ∨
    (∃ c u v r1 r2, p = c ++ u :: r1 ∧ q = c ++ v :: r2 ∧ v < u)
  | [], [], h => by simp [plt] at h
  | [], b :: bs, _ => Or.inl ⟨b, bs, rfl⟩
  | _ :: _, [], h => by simp [plt] at h
  | a :: as, b :: bs, h => by
      simp only [plt] at h
      rcases h with h | ⟨rfl, h⟩
      · exact Or.inr ⟨[], a, b, as, bs, rfl, rfl, h⟩
      · rcases plt_cases h with ⟨k, r, rfl⟩ | ⟨c, u, v, r1, r2, rfl, rfl, hv⟩
        · exact Or.inl ⟨k, r, rfl⟩
        · exact Or.inr ⟨a :: c, u, v, r1, r2, rfl, rfl, hv⟩

/-- siblings: the newer one comes first -/
theorem plt_sibling (p : List K) {u v : K} (h : v < u) : plt (p ++ [u]) (p ++ [v]) := by
  rw [plt_append_left]; simp only [plt]; exact Or.inl h

structure Nd (K : Type) where
  pre : List K
  key : K

def Nd.path (n : Nd K) : List K := n.pre ++ [n.key]

def nlt (x y : Nd K) : Prop := plt x.path y.path

def skipIns (n : Nd K) : List (Nd K) → List (Nd K)
  | [] => [n]
  | x :: xs => if n.key < x.key then x :: skipIns n xs else n :: x :: xs

theorem mem_skipIns (n : Nd K) : ∀ (l : List (Nd K)) (y : Nd K), y ∈ skipIns n l ↔ y = n ∨ y ∈ l
  | [], y => by simp [skipIns]
  | x :: xs, y => by
      unfold skipIns
      split
      · simp only [List.mem_cons, mem_skipIns n xs y]
        constructor
        · rintro (h | h | h) <;> simp [h]
        · rintro (h | h | h) <;> simp [h]
      · simp only [List.mem_cons]

/-- the loop as a split of the list -/
theorem skipIns_eq (n : Nd K) : ∀ (sk rest : List (Nd K)),
    (∀ x ∈ sk, n.key < x.key) → (∀ y, rest.head? = some y → ¬ n.key < y.key) →
    skipIns n (sk ++ rest) = sk ++ n :: rest
  | [], [], _, _ => by simp [skipIns]
  | [], y :: ys, _, h2 => by
      have := h2 y rfl
      simp [skipIns, this]
  | x :: xs, rest, h1, h2 => by
      have hx := h1 x (by simp)
      simp only [List.cons_append, skipIns, hx, if_true]
      rw [skipIns_eq n xs rest (fun y hy => h1 y (by simp [hy])) h2]

theorem skip_sorted (n : Nd K) : ∀ (post : List (Nd K)),
    post.Pairwise nlt →
    (∀ x ∈ post, nlt n x → ∃ x' ∈ post, x'.key < n.key ∧ (x' = x ∨ nlt x' x)) →
    (∀ x ∈ post, nlt x n → n.key < x.key) →
    (∀ x ∈ post, x.path ≠ n.path) →
    (skipIns n post).Pairwise nlt
  | [], _, _, _, _ => by simp [skipIns]
  | x :: xs, hs, hroot, hA, hne => by
      have hsx := List.pairwise_cons.mp hs
      unfold skipIns
      split
      next hlt =>
        have hxn : nlt x n := by
          rcases plt_tri x.path n.path with h | h | h
          · exact h
          · exact absurd h (hne x (by simp))
          · obtain ⟨x', hx'm, hx'k, hx'⟩ := hroot x (by simp) h
            rcases hx' with rfl | hx'
            · exact absurd hlt (lt_asymm hx'k)
            · rcases List.mem_cons.mp hx'm with rfl | hm
              · exact absurd hx' (plt_irrefl _)
              · exact absurd (hsx.1 x' hm) (fun h2 => plt_asymm hx' h2)
        have ih := skip_sorted n xs hsx.2
          (by
            intro y hy hny
            obtain ⟨y', hy'm, hy'k, hy'⟩ := hroot y (by simp [hy]) hny
            rcases List.mem_cons.mp hy'm with rfl | hm
            · exact absurd hlt (lt_asymm hy'k)
            · exact ⟨y', hm, hy'k, hy'⟩)
          (fun y hy => hA y (by simp [hy]))
          (fun y hy => hne y (by simp [hy]))
        refine List.pairwise_cons.mpr ⟨?_, ih⟩
        intro y hy
        rcases (mem_skipIns n xs y).mp hy with rfl | hy
        · exact hxn
        · exact hsx.1 y hy
      next hnlt =>
        have hnx : nlt n x := by
          rcases plt_tri x.path n.path with h | h | h
          · exact absurd (hA x (by simp) h) hnlt
          · exact absurd h (hne x (by simp))
          · exact h
        refine List.pairwise_cons.mpr ⟨?_, hs⟩
        intro y hy
        rcases List.mem_cons.mp hy with rfl | hy
        · exact hnx
        · exact plt_trans hnx (hsx.1 y hy)

/-! ## the forest invariant -/

structure TInv (l : List (Nd K)) : Prop where
  sorted : l.Pairwise nlt
  closed : ∀ x ∈ l, x.pre ≠ [] → ∃ y ∈ l, y.path = x.pre
  mono : ∀ x ∈ l, ∀ k ∈ x.pre, k ≤ x.key

theorem TInv.nil : TInv ([] : List (Nd K)) :=
  ⟨List.Pairwise.nil, by simp, by simp⟩

theorem mem_path_le {l : List (Nd K)} (h : TInv l) {x : Nd K} (hx : x ∈ l) {k : K}
    (hk : k ∈ x.path) : k ≤ x.key := by
  unfold Nd.path at hk
  rcases List.mem_append.mp hk with hk | hk
  · exact h.mono x hx k hk
  · simp at hk; exact le_of_eq hk

/-- every non-empty prefix of a node's path is the path of a node in the list -/
theorem closed_prefix {l : List (Nd K)} (h : TInv l) :
    ∀ (m : Nat) (x : Nd K), x ∈ l → x.path.length = m →
      ∀ p : List K, p ≠ [] → p <+: x.path → ∃ y ∈ l, y.path = p := by
  intro m
  induction m using Nat.strongRecOn with
  | ind m ih =>
    intro x hx hlen p hp hpre
    obtain ⟨s, hs⟩ := hpre
    rcases List.eq_nil_or_concat s with rfl | ⟨s', z, rfl⟩
    · exact ⟨x, hx, by simpa using hs.symm⟩
    · have hs' : p ++ s' ++ [z] = x.pre ++ [x.key] := by
        simpa [Nd.path, List.concat_eq_append, List.append_assoc] using hs
      have hpre' : p ++ s' = x.pre := (List.append_inj' hs' rfl).1
      have hne : x.pre ≠ [] := by
        intro h0; rw [h0] at hpre'
        exact hp (List.append_eq_nil_iff.mp hpre').1
      obtain ⟨y, hy, hyp⟩ := h.closed x hx hne
      have hylen : y.path.length < m := by
        rw [hyp, ← hlen]; simp [Nd.path]
      exact ih _ hylen y hy rfl p hp ⟨s', by rw [hyp, hpre']⟩

omit [LinearOrder K] in
theorem path_inj {x y : Nd K} (h : x.path = y.path) : x = y := by
  cases x; cases y
  simp only [Nd.path] at h
  obtain ⟨h1, h2⟩ := List.append_inj' h rfl
  simp at h2
  subst h1; subst h2; rfl

/-- The insert step of RGA preserves the forest invariant.  `ap` is the path of the anchor
    (`[]` for the head), `pre` the nodes up to and including the anchor, `post` those after it. -/
theorem skip_inv {l : List (Nd K)} (h : TInv l) (ap : List K) (t : K) (pre post : List (Nd K))
    (hl : l = pre ++ post)
    (hpre : ∀ x ∈ pre, x.path = ap ∨ plt x.path ap)
    (hpost : ∀ x ∈ post, plt ap x.path)
    (hap : ap ≠ [] → ∃ y ∈ l, y.path = ap)
    (hk : ∀ k ∈ ap, k ≤ t)
    (hfresh : ∀ x ∈ l, x.key ≠ t) :
    TInv (pre ++ skipIns ⟨ap, t⟩ post) := by
  set n : Nd K := ⟨ap, t⟩ with hn
  have hnpath : n.path = ap ++ [t] := rfl
  have hsorted := h.sorted
  rw [hl] at hsorted
  obtain ⟨hpreS, hpostS, hcross⟩ := List.pairwise_append.mp hsorted
  have hpost_mem : ∀ y ∈ l, plt ap y.path → y ∈ post := by
    intro y hy hay
    rw [hl] at hy
    rcases List.mem_append.mp hy with hy | hy
    · rcases hpre y hy with h1 | h1
      · rw [h1] at hay; exact absurd hay (plt_irrefl _)
      · exact absurd hay (fun h2 => plt_asymm h1 h2)
    · exact hy
  have hpostl : ∀ y ∈ post, y ∈ l := by
    intro y hy; rw [hl]; simp [hy]
  have hne : ∀ x ∈ l, x.path ≠ n.path := by
    intro x hx hxp
    have hkey : x.key = t := by
      have := path_inj (x := x) (y := n) hxp
      rw [this]
    exact hfresh x hx hkey
  have hA : ∀ x ∈ post, nlt x n → n.key < x.key := by
    intro x hx hxn
    have hax := hpost x hx
    rcases plt_cases hax with ⟨k, r, hxr⟩ | ⟨c, u, v, r1, r2, hap', hxp, hvu⟩
    · have : plt (ap ++ k :: r) (ap ++ [t]) := by
        have := hxn; unfold nlt at this; rwa [hxr, hnpath] at this
      rw [plt_append_left] at this
      simp only [plt] at this
      rcases this with h1 | ⟨_, h1⟩
      · have hkx : k ∈ x.path := by rw [hxr]; simp
        exact lt_of_lt_of_le h1 (mem_path_le h (hpostl x hx) hkx)
      · cases r <;> simp [plt] at h1
    · exfalso
      have : plt (c ++ v :: r2) (c ++ u :: (r1 ++ [t])) := by
        have := hxn; unfold nlt at this
        rw [hxp, hnpath, hap'] at this
        simpa [List.append_assoc] using this
      rw [plt_append_left] at this
      simp only [plt] at this
      rcases this with h1 | ⟨h1, _⟩
      · exact lt_asymm h1 hvu
      · subst h1; exact lt_irrefl _ hvu
  have hroot : ∀ x ∈ post, nlt n x → ∃ x' ∈ post, x'.key < n.key ∧ (x' = x ∨ nlt x' x) := by
    intro x hx hnx
    have hax := hpost x hx
    have hxl := hpostl x hx
    rcases plt_cases hax with ⟨k, r, hxr⟩ | ⟨c, u, v, r1, r2, hap', hxp, hvu⟩
    · have hcmp : plt [t] (k :: r) := by
        have := hnx; unfold nlt at this
        rw [hxr, hnpath, plt_append_left] at this; exact this
      obtain ⟨y, hy, hyp⟩ := closed_prefix h _ x hxl rfl (ap ++ [k]) (by simp)
        ⟨r, by rw [hxr]; simp⟩
      have hyk : y.key = k := by
        have := path_inj (x := y) (y := ⟨ap, k⟩) (by rw [hyp]; rfl)
        rw [this]
      simp only [plt] at hcmp
      rcases hcmp with h1 | ⟨h1, _⟩
      · have hay : plt ap y.path := by
          rw [hyp]; exact plt_prefix ap k []
        refine ⟨y, hpost_mem y hy hay, by rw [hyk]; exact h1, ?_⟩
        cases r with
        | nil => left; exact path_inj (by rw [hyp, hxr])
        | cons z zs =>
          right; show plt y.path x.path
          rw [hyp, hxr]
          have := plt_prefix (ap ++ [k]) z zs
          simpa [List.append_assoc] using this
      · exfalso
        exact hfresh y hy (by rw [hyk, h1])
    · obtain ⟨y, hy, hyp⟩ := closed_prefix h _ x hxl rfl (c ++ [v]) (by simp)
        ⟨r2, by rw [hxp]; simp⟩
      have hyk : y.key = v := by
        have := path_inj (x := y) (y := ⟨c, v⟩) (by rw [hyp]; rfl)
        rw [this]
      have hut : u ≤ t := hk u (by rw [hap']; simp)
      have hay : plt ap y.path := by
        rw [hyp, hap', plt_append_left]
        simp only [plt]; left; exact hvu
      refine ⟨y, hpost_mem y hy hay, ?_, ?_⟩
      · rw [hyk]; exact lt_of_lt_of_le hvu hut
      · cases r2 with
        | nil => left; exact path_inj (by rw [hyp, hxp])
        | cons z zs =>
          right; show plt y.path x.path
          rw [hyp, hxp]
          have := plt_prefix (c ++ [v]) z zs
          simpa [List.append_assoc] using this
  have hS := skip_sorted n post hpostS hroot hA (fun x hx => hne x (hpostl x hx))
  have hmem : ∀ x, x ∈ pre ++ skipIns n post ↔ x = n ∨ x ∈ l := by
    intro x
    rw [hl]
    simp only [List.mem_append, mem_skipIns]
    tauto
  refine ⟨?_, ?_, ?_⟩
  · refine List.pairwise_append.mpr ⟨hpreS, hS, ?_⟩
    intro x hx y hy
    rcases (mem_skipIns n post y).mp hy with rfl | hy
    · show plt x.path n.path
      rw [hnpath]
      rcases hpre x hx with h1 | h1
      · rw [h1]; exact plt_prefix ap t []
      · exact plt_trans h1 (plt_prefix ap t [])
    · exact hcross x hx y hy
  · intro x hx hxpre
    rcases (hmem x).mp hx with rfl | hx'
    · obtain ⟨y, hy, hyp⟩ := hap hxpre
      exact ⟨y, (hmem y).mpr (Or.inr hy), hyp⟩
    · obtain ⟨y, hy, hyp⟩ := h.closed x hx' hxpre
      exact ⟨y, (hmem y).mpr (Or.inr hy), hyp⟩
  · intro x hx k hkx
    rcases (hmem x).mp hx with rfl | hx'
    · exact hk k hkx
    · exact h.mono x hx' k hkx

/-- anchor = an existing node -/
theorem insAfter_inv {pre post : List (Nd K)} {a : Nd K} (h : TInv (pre ++ a :: post)) (t : K)
    (hk : a.key ≤ t) (hfresh : ∀ x ∈ pre ++ a :: post, x.key ≠ t) :
    TInv (pre ++ a :: skipIns ⟨a.path, t⟩ post) := by
  have hs := h.sorted
  obtain ⟨_, hapost, hcross⟩ := List.pairwise_append.mp hs
  obtain ⟨hapost1, _⟩ := List.pairwise_cons.mp hapost
  have := skip_inv h a.path t (pre ++ [a]) post (by simp)
    (by
      intro x hx
      rcases List.mem_append.mp hx with hx | hx
      · right; exact hcross x hx a (by simp)
      · simp at hx; left; rw [hx])
    (fun x hx => hapost1 x hx)
    (fun _ => ⟨a, by simp, rfl⟩)
    (fun k hk' => le_trans (mem_path_le h (x := a) (by simp) hk') hk)
    hfresh
  simpa [List.append_assoc] using this

/-- anchor = the head -/
theorem insHead_inv {l : List (Nd K)} (h : TInv l) (t : K) (hfresh : ∀ x ∈ l, x.key ≠ t) :
    TInv (skipIns ⟨[], t⟩ l) := by
  have := skip_inv h [] t [] l (by simp) (by simp)
    (by
      intro x _
      cases hx : x.path with
      | nil => simp [Nd.path] at hx
      | cons a as => simp [plt])
    (by simp) (by simp) hfresh
  simpa using this

/-! ## batches: each further node is the child of the previous one -/

def chainNodes : List K → List K → List (Nd K)
  | _, [] => []
  | ap, t :: ts => ⟨ap, t⟩ :: chainNodes (ap ++ [t]) ts

omit [LinearOrder K] in
theorem chainNodes_keys : ∀ (ap ts : List K), (chainNodes ap ts).map Nd.key = ts
  | _, [] => rfl
  | ap, t :: ts => by simp [chainNodes, chainNodes_keys (ap ++ [t]) ts]

theorem chain_inv : ∀ (ts : List K) (pre : List (Nd K)) (a : Nd K) (rest : List (Nd K)),
    TInv (pre ++ a :: rest) → (∀ y, rest.head? = some y → y.key ≤ a.key) →
    (a.key :: ts).Pairwise (· < ·) →
    (∀ x ∈ pre ++ a :: rest, ∀ t ∈ ts, x.key ≠ t) →
    TInv (pre ++ a :: (chainNodes a.path ts ++ rest))
  | [], pre, a, rest, h, _, _, _ => by simpa [chainNodes] using h
  | t :: ts, pre, a, rest, h, hhead, hasc, hfresh => by
      have hasc' := List.pairwise_cons.mp hasc
      have hat : a.key < t := hasc'.1 t (by simp)
      have hskip : skipIns ⟨a.path, t⟩ rest = ⟨a.path, t⟩ :: rest := by
        have := skipIns_eq (⟨a.path, t⟩ : Nd K) [] rest (by simp)
          (fun y hy => not_lt.mpr (le_trans (hhead y hy) (le_of_lt hat)))
        simpa using this
      have h1 := insAfter_inv h t (le_of_lt hat) (fun x hx => hfresh x hx t (by simp))
      rw [hskip] at h1
      have h2 : TInv ((pre ++ [a]) ++ (⟨a.path, t⟩ : Nd K) :: rest) := by
        simpa [List.append_assoc] using h1
      have := chain_inv ts (pre ++ [a]) ⟨a.path, t⟩ rest h2
        (fun y hy => le_trans (hhead y hy) (le_of_lt hat))
        hasc'.2
        (by
          intro x hx t' ht'
          have hne : t ≠ t' := ne_of_lt ((List.pairwise_cons.mp hasc'.2).1 t' ht')
          have hx' : x = ⟨a.path, t⟩ ∨ x ∈ pre ++ a :: rest := by
            simp only [List.mem_append, List.mem_cons, List.not_mem_nil, or_false] at hx ⊢
            tauto
          rcases hx' with hx | hx
          · rw [hx]; exact hne
          · exact hfresh x hx t' (by simp [ht']))
      simpa [chainNodes, Nd.path, List.append_assoc] using this

end Orda.PathOrder
