/-
C12 on the per-key lock model (Model/SrvLock): mutual exclusion, serialisability, liveness of replies,
refusals change nothing; requests on different datatypes commute.
-/
import Orda.Model.SrvLock
import Orda.Proofs.ServerLog
import Orda.Proofs.ServerContract
namespace Orda.SrvLock

namespace H

theorem get_set {l : List HPc} {i : Nat} {u : HPc} (v : HPc) (h : l[i]? = some u) (j : Nat) :
    (l.set i v)[j]? = if j = i then some v else l[j]? := by
  have hi : i < l.length := (List.getElem?_eq_some_iff.1 h).1
  by_cases hj : j = i
  · subst hj; simp [hi]
  · rw [List.getElem?_set_ne (Ne.symm hj)]; simp [hj]

/-- the inductive invariant of the lock model -/
structure Inv (c : Cfg) (s : HSt) : Prop where
  hold : ∀ i, s.pcs[i]? = some .holding ↔ s.holder = some i
  nodup : s.order.Nodup
  ord : ∀ i, i ∈ s.order ↔ (s.pcs[i]? = some .holding ∨ s.pcs[i]? = some .served)
  rep : ∀ i, (i ∈ s.replies.map (·.1)) ↔ (s.pcs[i]? = some .served ∨ s.pcs[i]? = some .refused)
  repNodup : (s.replies.map (·.1)).Nodup
  len : s.pcs.length = c.n
  last : ∀ i, s.holder = some i → ∃ l, s.order = l ++ [i]

theorem inv_init (st : Store) (c : Cfg) : Inv c (init st c) := by
  refine ⟨?_, ?_, ?_, ?_, ?_, ?_, ?_⟩ <;> simp [init, List.getElem?_replicate]

theorem inv_step {c : Cfg} {s s' : HSt} (inv : Inv c s) (h : Step c s s') : Inv c s' := by
  cases h with
  | arrive i h =>
    have hnh : s.holder ≠ some i := fun hh => by
      have := (inv.hold i).2 hh; rw [h] at this; cases this
    have hno : i ∉ s.order := fun hh => by
      rcases (inv.ord i).1 hh with h' | h' <;> rw [h] at h' <;> cases h'
    have hnr : i ∉ s.replies.map (·.1) := fun hh => by
      rcases (inv.rep i).1 hh with h' | h' <;> rw [h] at h' <;> cases h'
    refine ⟨?_, inv.nodup, ?_, ?_, inv.repNodup, ?_, inv.last⟩
    · intro j
      show (s.pcs.set i .waiting)[j]? = _ ↔ s.holder = some j
      rw [get_set _ h j]
      by_cases hj : j = i
      · subst hj; simp [hnh]
      · simp [hj, inv.hold j]
    · intro j
      show j ∈ s.order ↔ ((s.pcs.set i .waiting)[j]? = _ ∨ (s.pcs.set i .waiting)[j]? = _)
      rw [get_set _ h j]
      by_cases hj : j = i
      · subst hj; simp [hno]
      · simp [hj, inv.ord j]
    · intro j
      show j ∈ s.replies.map (·.1) ↔ ((s.pcs.set i .waiting)[j]? = _ ∨ (s.pcs.set i .waiting)[j]? = _)
      rw [get_set _ h j]
      by_cases hj : j = i
      · subst hj; simp only [if_true]; constructor
        · intro hh; exact absurd hh hnr
        · intro hh; rcases hh with hh | hh <;> cases hh
      · simp only [hj, if_false]; exact inv.rep j
    · show (s.pcs.set i .waiting).length = c.n
      rw [List.length_set]; exact inv.len
  | acquire i h hf =>
    have hno : i ∉ s.order := fun hh => by
      rcases (inv.ord i).1 hh with h' | h' <;> rw [h] at h' <;> cases h'
    have hnr : i ∉ s.replies.map (·.1) := fun hh => by
      rcases (inv.rep i).1 hh with h' | h' <;> rw [h] at h' <;> cases h'
    have hnoh : ∀ j, s.pcs[j]? ≠ some HPc.holding := fun j hh => by
      have := (inv.hold j).1 hh; rw [hf] at this; cases this
    refine ⟨?_, ?_, ?_, ?_, inv.repNodup, ?_, ?_⟩
    · intro j
      show (s.pcs.set i .holding)[j]? = _ ↔ some i = some j
      rw [get_set _ h j]
      by_cases hj : j = i
      · subst hj; simp
      · simp only [hj, if_false]
        constructor
        · intro hh; exact absurd hh (hnoh j)
        · intro hh; cases hh; exact absurd rfl hj
    · show (s.order ++ [i]).Nodup
      rw [List.nodup_append]
      refine ⟨inv.nodup, by simp, ?_⟩
      intro a ha b hb
      simp at hb; subst hb
      intro hab; subst hab; exact hno ha
    · intro j
      show j ∈ s.order ++ [i] ↔ ((s.pcs.set i .holding)[j]? = _ ∨ (s.pcs.set i .holding)[j]? = _)
      rw [get_set _ h j]
      by_cases hj : j = i
      · subst hj; simp
      · simp [hj, inv.ord j]
    · intro j
      show j ∈ s.replies.map (·.1) ↔ ((s.pcs.set i .holding)[j]? = _ ∨ (s.pcs.set i .holding)[j]? = _)
      rw [get_set _ h j]
      by_cases hj : j = i
      · subst hj; simp only [if_true]; constructor
        · intro hh; exact absurd hh hnr
        · intro hh; rcases hh with hh | hh <;> cases hh
      · simp only [hj, if_false]; exact inv.rep j
    · show (s.pcs.set i .holding).length = c.n
      rw [List.length_set]; exact inv.len
    · intro j hj
      have : some i = some j := hj
      cases this
      exact ⟨s.order, rfl⟩
  | giveUp i h =>
    have hnh : s.holder ≠ some i := fun hh => by
      have := (inv.hold i).2 hh; rw [h] at this; cases this
    have hno : i ∉ s.order := fun hh => by
      rcases (inv.ord i).1 hh with h' | h' <;> rw [h] at h' <;> cases h'
    have hnr : i ∉ s.replies.map (·.1) := fun hh => by
      rcases (inv.rep i).1 hh with h' | h' <;> rw [h] at h' <;> cases h'
    refine ⟨?_, inv.nodup, ?_, ?_, ?_, ?_, inv.last⟩
    · intro j
      show (s.pcs.set i .refused)[j]? = _ ↔ s.holder = some j
      rw [get_set _ h j]
      by_cases hj : j = i
      · subst hj; simp [hnh]
      · simp [hj, inv.hold j]
    · intro j
      show j ∈ s.order ↔ ((s.pcs.set i .refused)[j]? = _ ∨ (s.pcs.set i .refused)[j]? = _)
      rw [get_set _ h j]
      by_cases hj : j = i
      · subst hj; simp [hno]
      · simp [hj, inv.ord j]
    · intro j
      show j ∈ (s.replies ++ [(i, true)]).map (·.1) ↔
        ((s.pcs.set i .refused)[j]? = _ ∨ (s.pcs.set i .refused)[j]? = _)
      rw [get_set _ h j, List.map_append, List.mem_append]
      by_cases hj : j = i
      · subst hj; simp
      · simp only [hj, if_false, ← inv.rep j]; simp [hj]
    · show ((s.replies ++ [(i, true)]).map (·.1)).Nodup
      rw [List.map_append, List.nodup_append]
      refine ⟨inv.repNodup, by simp, ?_⟩
      intro a ha b hb
      simp at hb; subst hb
      intro hab; subst hab; exact hnr ha
    · show (s.pcs.set i .refused).length = c.n
      rw [List.length_set]; exact inv.len
  | serve i h cl p hc hp =>
    have hh : s.holder = some i := (inv.hold i).1 h
    have hio : i ∈ s.order := (inv.ord i).2 (Or.inl h)
    have hnr : i ∉ s.replies.map (·.1) := fun hh => by
      rcases (inv.rep i).1 hh with h' | h' <;> rw [h] at h' <;> cases h'
    refine ⟨?_, inv.nodup, ?_, ?_, ?_, ?_, ?_⟩
    · intro j
      show (s.pcs.set i .served)[j]? = _ ↔ none = some j
      rw [get_set _ h j]
      by_cases hj : j = i
      · subst hj; simp
      · simp only [hj, if_false]
        constructor
        · intro h'
          have := (inv.hold j).1 h'
          rw [hh] at this; cases this; exact absurd rfl hj
        · intro h'; cases h'
    · intro j
      show j ∈ s.order ↔ ((s.pcs.set i .served)[j]? = _ ∨ (s.pcs.set i .served)[j]? = _)
      rw [get_set _ h j]
      by_cases hj : j = i
      · subst hj; simp [hio]
      · simp [hj, inv.ord j]
    · intro j
      show j ∈ (s.replies ++ [(i, (processPack s.store cl c.col p).resp.error)]).map (·.1) ↔
        ((s.pcs.set i .served)[j]? = _ ∨ (s.pcs.set i .served)[j]? = _)
      rw [get_set _ h j, List.map_append, List.mem_append]
      by_cases hj : j = i
      · subst hj; simp
      · simp only [hj, if_false, ← inv.rep j]; simp [hj]
    · show ((s.replies ++ [(i, (processPack s.store cl c.col p).resp.error)]).map (·.1)).Nodup
      rw [List.map_append, List.nodup_append]
      refine ⟨inv.repNodup, by simp, ?_⟩
      intro a ha b hb
      simp at hb; subst hb
      intro hab; subst hab; exact hnr ha
    · show (s.pcs.set i .served).length = c.n
      rw [List.length_set]; exact inv.len
    · intro j hj
      have : (none : Option Nat) = some j := hj
      cases this

theorem inv_reach {st : Store} {c : Cfg} {s : HSt} (h : Reach st c s) : Inv c s := by
  induction h with
  | init => exact inv_init st c
  | step _ hs ih => exact inv_step ih hs

theorem serial_snoc (c : Cfg) (l : List Nat) (i : Nat) :
    ∀ st, serial c st (l ++ [i]) = serial c (serial c st l) [i] := by
  induction l with
  | nil => intro st; rfl
  | cons j l ih =>
    intro st
    have e1 : ∀ l', serial c st (j :: l') =
        match c.cls[j]?, c.packs[j]? with
        | some cl, some p => serial c (processPack st cl c.col p).store l'
        | _, _ => serial c st l' := fun _ => rfl
    rw [List.cons_append, e1, e1]
    split
    · exact ih _
    · exact ih _

theorem serial_single (c : Cfg) (st : Store) (i : Nat) (cl : ClientDoc) (p : Pack)
    (hc : c.cls[i]? = some cl) (hp : c.packs[i]? = some p) :
    serial c st [i] = (processPack st cl c.col p).store := by
  simp [serial, hc, hp]

theorem filter_served_set {pcs : List HPc} {i : Nat} {u : HPc} (v : HPc) (h : pcs[i]? = some u) (l : List Nat)
    (hi : i ∉ l ∨ (u ≠ .served ∧ v ≠ .served)) :
    l.filter (fun j => decide ((pcs.set i v)[j]? = some .served)) =
      l.filter (fun j => decide (pcs[j]? = some .served)) := by
  apply List.filter_congr
  intro j hj
  rw [get_set v h j]
  by_cases hji : j = i
  · subst hji
    rcases hi with hi | ⟨h1, h2⟩
    · exact absurd hj hi
    · simp [h, h1, h2]
  · simp [hji]

def Ser (st : Store) (c : Cfg) (s : HSt) : Prop :=
  s.store = serial c st (s.order.filter (fun i => decide (s.pcs[i]? = some .served)))

theorem ser_step {st : Store} {c : Cfg} {s s' : HSt} (inv : Inv c s) (hs : Ser st c s) (h : Step c s s') :
    Ser st c s' := by
  unfold Ser at hs ⊢
  cases h with
  | arrive i h =>
    show s.store = serial c st (s.order.filter (fun j => decide ((s.pcs.set i .waiting)[j]? = some .served)))
    rw [filter_served_set _ h _ (Or.inr ⟨by decide, by decide⟩)]; exact hs
  | acquire i h hf =>
    show s.store = serial c st ((s.order ++ [i]).filter (fun j => decide ((s.pcs.set i .holding)[j]? = some .served)))
    rw [List.filter_append, filter_served_set _ h _ (Or.inr ⟨by decide, by decide⟩)]
    have : [i].filter (fun j => decide ((s.pcs.set i .holding)[j]? = some .served)) = [] := by
      simp [get_set _ h i]
    rw [this, List.append_nil]; exact hs
  | giveUp i h =>
    show s.store = serial c st (s.order.filter (fun j => decide ((s.pcs.set i .refused)[j]? = some .served)))
    rw [filter_served_set _ h _ (Or.inr ⟨by decide, by decide⟩)]; exact hs
  | serve i h cl p hc hp =>
    show (processPack s.store cl c.col p).store =
      serial c st (s.order.filter (fun j => decide ((s.pcs.set i .served)[j]? = some .served)))
    obtain ⟨l, hl⟩ := inv.last i ((inv.hold i).1 h)
    have hnd := inv.nodup
    rw [hl] at hs hnd ⊢
    have hil : i ∉ l := by
      rw [List.nodup_append] at hnd
      intro hh; exact hnd.2.2 i hh i (by simp) rfl
    rw [List.filter_append] at hs ⊢
    rw [filter_served_set _ h _ (Or.inl hil)]
    have h1 : [i].filter (fun j => decide ((s.pcs.set i .served)[j]? = some .served)) = [i] := by
      simp [get_set _ h i]
    have h2 : [i].filter (fun j => decide (s.pcs[j]? = some .served)) = [] := by
      simp [h]
    rw [h2, List.append_nil] at hs
    rw [h1, serial_snoc, ← hs, serial_single c _ i cl p hc hp]

theorem ser_reach {st : Store} {c : Cfg} {s : HSt} (h : Reach st c s) : Ser st c s := by
  induction h with
  | init => simp [Ser, init, serial]
  | step hr hs ih => exact ser_step (inv_reach hr) ih hs

end H

/-- C12, mutual exclusion and bookkeeping, for ANY number of handlers and ANY schedule: at most one handler
    holds the lock, the holder is exactly the handler at `holding`, `order` lists the handlers that ever
    acquired it (each once), every handler that is `served` or `refused` has exactly one reply -/
theorem mutual_exclusion (st : Store) (c : Cfg) (s : HSt) (h : Reach st c s) :
    (∀ i, s.pcs[i]? = some .holding ↔ s.holder = some i) ∧
    s.order.Nodup ∧
    (∀ i, i ∈ s.order ↔ (s.pcs[i]? = some .holding ∨ s.pcs[i]? = some .served)) ∧
    (∀ i, (i ∈ s.replies.map (·.1)) ↔ (s.pcs[i]? = some .served ∨ s.pcs[i]? = some .refused)) ∧
    (s.replies.map (·.1)).Nodup ∧ s.pcs.length = c.n :=
  have inv := H.inv_reach h
  ⟨inv.hold, inv.nodup, inv.ord, inv.rep, inv.repNodup, inv.len⟩

set_option linter.unusedVariables false in
/-- C12, serialisability: in every reachable state the store is the result of running, one at a time and
    in lock-acquisition order, exactly the handlers that were served so far -/
theorem store_is_serial (st : Store) (c : Cfg) (s : HSt) (h : Reach st c s)
    (hcls : c.cls.length = c.packs.length) :
    s.store = serial c st (s.order.filter (fun i => decide (s.pcs[i]? = some .served))) :=
  H.ser_reach h

/-- hence all of C06 holds after any concurrent execution: the log invariant is kept -/
theorem logInv_concurrent (st : Store) (c : Cfg) (s : HSt) (h : Reach st c s) (hi : LogInv st) : LogInv s.store := by
  induction h with
  | init => exact hi
  | step _ hs ih =>
    cases hs with
    | arrive i h => exact ih
    | acquire i h hf => exact ih
    | giveUp i h => exact ih
    | serve i h cl p hc hp => exact logInv_processPack _ cl c.col p ih

/-- C12, every request returns: as long as some handler has not replied, some step is enabled
    (a waiting handler can always give up; a holder can always finish) -/
theorem every_request_returns (st : Store) (c : Cfg) (s : HSt) (h : Reach st c s)
    (hcls : c.cls.length = c.packs.length)
    (hnd : ∃ (i : Nat) (p : HPc), s.pcs[i]? = some p ∧ p ≠ .served ∧ p ≠ .refused) : ∃ s', Step c s s' := by
  obtain ⟨i, p, hp, h1, h2⟩ := hnd
  cases p with
  | start => exact ⟨_, Step.arrive s i hp⟩
  | waiting => exact ⟨_, Step.giveUp s i hp⟩
  | holding =>
    have hlen := (H.inv_reach h).len
    have hi : i < s.pcs.length := (List.getElem?_eq_some_iff.1 hp).1
    have hip : i < c.packs.length := by rw [hlen] at hi; exact hi
    have hic : i < c.cls.length := by rw [hcls]; exact hip
    exact ⟨_, Step.serve s i hp c.cls[i] c.packs[i] (List.getElem?_eq_getElem hic) (List.getElem?_eq_getElem hip)⟩
  | served => exact absurd rfl h1
  | refused => exact absurd rfl h2

/-- a refused handler (lock not obtained) changes nothing -/
theorem refused_changes_nothing (c : Cfg) (s s' : HSt) (i : Nat) (h : Step c s s')
    (hp : s.pcs[i]? = some .waiting) (hp' : s'.pcs[i]? = some .refused) : s'.store = s.store := by
  cases h with
  | arrive j h => rfl
  | acquire j h hf => rfl
  | giveUp j h => rfl
  | serve j h cl p hc hpk =>
    exfalso
    have hp'' : (s.pcs.set j .served)[i]? = some .refused := hp'
    rw [H.get_set _ h i] at hp''
    by_cases hij : i = j
    · simp [hij] at hp''
    · simp [hij, hp] at hp''

end Orda.SrvLock

/-! ## Requests on different datatypes commute -/

namespace Orda.SrvLock.H
open Orda

def isRefuse : Dispatch → Bool
  | .refuse _ => true
  | _ => false

/-- what a request commits: the written datatype document and the appended operation documents -/
def commitOf (st : Store) (cl : ClientDoc) (col : CollectionDoc) (p : Pack) : Option (DatatypeDoc × List OpDoc) :=
  if p.readOnly && p.create then none
  else if p.readOnly && !p.ops.isEmpty then none
  else if isRefuse (SC.dsp st cl col p) then none
  else
    match SC.pushRes cl col p (SC.dsp st cl col p)
        (SC.docOf col p (SC.dsp st cl col p) (evalCase st col cl.cuid p).2) with
    | .error _ => none
    | .ok (cp2, nd) =>
      some (SC.doc2 st cl p (SC.dsp st cl col p)
        (SC.docOf col p (SC.dsp st cl col p) (evalCase st col cl.cuid p).2) cp2 nd, nd)

def applyCommit (st : Store) : Option (DatatypeDoc × List OpDoc) → Store
  | none => st
  | some (d2, nd) => { st with operations := st.operations ++ nd, datatypes := upsertDatatype d2 st.datatypes }

/-- the datatype id named by the response -/
def rduid (st : Store) (cl : ClientDoc) (col : CollectionDoc) (p : Pack) : String :=
  if p.readOnly && p.create then p.duid
  else if p.readOnly && !p.ops.isEmpty then p.duid
  else if isRefuse (SC.dsp st cl col p) then p.duid
  else SC.opDuid p (SC.dsp st cl col p) (SC.docOf col p (SC.dsp st cl col p) (evalCase st col cl.cuid p).2)

theorem pp_eq (st : Store) (cl : ClientDoc) (col : CollectionDoc) (p : Pack) :
    (processPack st cl col p).store = applyCommit st (commitOf st cl col p) ∧
    (processPack st cl col p).resp.duid = rduid st cl col p := by
  rw [SC.processPack_eq]; unfold commitOf rduid
  split
  · exact ⟨rfl, rfl⟩
  split
  · exact ⟨rfl, rfl⟩
  generalize SC.dsp st cl col p = d
  have hfin : ∀ d : Dispatch, isRefuse d = false →
      (SC.finish st cl col p d (SC.docOf col p d (evalCase st col cl.cuid p).2)).store =
        applyCommit st (match SC.pushRes cl col p d (SC.docOf col p d (evalCase st col cl.cuid p).2) with
          | .error _ => none
          | .ok (cp2, nd) => some (SC.doc2 st cl p d (SC.docOf col p d (evalCase st col cl.cuid p).2) cp2 nd, nd)) ∧
      (SC.finish st cl col p d (SC.docOf col p d (evalCase st col cl.cuid p).2)).resp.duid =
        SC.opDuid p d (SC.docOf col p d (evalCase st col cl.cuid p).2) := by
    intro d _
    unfold SC.finish
    cases SC.pushRes cl col p d (SC.docOf col p d (evalCase st col cl.cuid p).2) with
    | error code => exact ⟨rfl, rfl⟩
    | ok r => exact ⟨rfl, rfl⟩
  cases d with
  | refuse c => exact ⟨rfl, rfl⟩
  | create => simpa [isRefuse] using hfin .create rfl
  | subscribe => simpa [isRefuse] using hfin .subscribe rfl
  | normal => simpa [isRefuse] using hfin .normal rfl

theorem commitOf_facts (st : Store) (cl : ClientDoc) (col : CollectionDoc) (p : Pack) :
    commitOf st cl col p = none ∨
    ∃ d doc cp2 nd, commitOf st cl col p = some (SC.doc2 st cl p d doc cp2 nd, nd) ∧
      rduid st cl col p = doc.duid ∧ doc.colNum = col.num ∧ doc.key = p.key ∧ (∀ o ∈ nd, o.duid = doc.duid) ∧
      ((∀ x ∈ st.datatypes, x.duid ≠ doc.duid) ∨ doc ∈ st.datatypes) := by
  unfold commitOf rduid
  split
  · exact Or.inl rfl
  split
  · exact Or.inl rfl
  rcases SC.dsp_cases st cl col p with ⟨code, h⟩ | ⟨h, hc, hm⟩ | ⟨h, x, hx⟩ | ⟨h, x, hx, hxd⟩
  · rw [h]; exact Or.inl rfl
  · rw [h]
    simp only [isRefuse, Bool.false_eq_true, if_false]
    cases hp : SC.pushRes cl col p .create (SC.docOf col p .create (evalCase st col cl.cuid p).2) with
    | error code => exact Or.inl rfl
    | ok r =>
      obtain ⟨cp2, nd⟩ := r
      have hf := SC.pushRes_facts hp
      refine Or.inr ⟨.create, _, cp2, nd, rfl, rfl, rfl, rfl, fun o ho => (hf.1 o ho).1, Or.inl ?_⟩
      exact SC.byId_none (SC.evalCase_matchNothing hm).1
  · rw [h]
    simp only [isRefuse, Bool.false_eq_true, if_false]
    have hdoc : SC.docOf col p .subscribe (evalCase st col cl.cuid p).2 = x := by simp [SC.docOf, hx]
    rw [hdoc]
    have he := SC.evalCase_some hx
    cases hp : SC.pushRes cl col p .subscribe x with
    | error code => exact Or.inl rfl
    | ok r =>
      obtain ⟨cp2, nd⟩ := r
      have hf := SC.pushRes_facts hp
      exact Or.inr ⟨.subscribe, x, cp2, nd, rfl, rfl, he.2.1, he.2.2.1, fun o ho => (hf.1 o ho).1, Or.inr he.1⟩
  · rw [h]
    simp only [isRefuse, Bool.false_eq_true, if_false]
    have hdoc : SC.docOf col p .normal (evalCase st col cl.cuid p).2 = x := by simp [SC.docOf, hx]
    rw [hdoc]
    have he := SC.evalCase_some hx
    have hdu : SC.opDuid p .normal x = x.duid := by simp [SC.opDuid, hxd]
    cases hp : SC.pushRes cl col p .normal x with
    | error code => exact Or.inl rfl
    | ok r =>
      obtain ⟨cp2, nd⟩ := r
      have hf := SC.pushRes_facts hp
      exact Or.inr ⟨.normal, x, cp2, nd, rfl, hdu, he.2.1, he.2.2.1, (by rw [← hdu]; exact fun o ho => (hf.1 o ho).1), Or.inr he.1⟩

/-- without a document found by key the response names the request's own id -/
theorem rduid_noKey (st : Store) (cl : ClientDoc) (col : CollectionDoc) (p : Pack)
    (hn : (if (p.create || p.subscribe) = true then st.getDatatypeByKey col.num p.key else none) = none) :
    rduid st cl col p = p.duid := by
  unfold rduid
  split
  · rfl
  split
  · rfl
  rcases SC.dsp_cases st cl col p with ⟨code, h⟩ | ⟨h, hc, hm⟩ | ⟨h, x, hx⟩ | ⟨h, x, hx, hxd⟩
  · rw [h]; rfl
  · rw [h]; rfl
  · rw [h]
    simp only [isRefuse, Bool.false_eq_true, if_false]
    have hdoc : SC.docOf col p .subscribe (evalCase st col cl.cuid p).2 = x := by simp [SC.docOf, hx]
    rw [hdoc]
    rcases (SC.evalCase_some hx).2.2.2 with ⟨hb, hk⟩ | ⟨_, hxd⟩
    · rw [hb, if_pos rfl, hk] at hn; cases hn
    · simpa [SC.opDuid] using hxd
  · rw [h]; rfl

theorem evalCase_congr {st st' : Store} {col : CollectionDoc} {cuid : String} {p : Pack}
    (h1 : st'.getDatatypeByKey col.num p.key = st.getDatatypeByKey col.num p.key)
    (h2 : (if (p.create || p.subscribe) = true then st.getDatatypeByKey col.num p.key else none) = none →
      st'.getDatatype p.duid = st.getDatatype p.duid) :
    evalCase st' col cuid p = evalCase st col cuid p := by
  unfold evalCase
  simp only [h1]
  generalize (if (p.create || p.subscribe) = true then st.getDatatypeByKey col.num p.key else none) = bk at h2
  cases bk with
  | none => simp only [h2 rfl]
  | some d => rfl

theorem commit_congr {st st' : Store} {cl : ClientDoc} {col : CollectionDoc} {p : Pack}
    (he : evalCase st' col cl.cuid p = evalCase st col cl.cuid p)
    (ho : ∀ from_, st'.getOperations (rduid st cl col p) from_ = st.getOperations (rduid st cl col p) from_) :
    commitOf st' cl col p = commitOf st cl col p := by
  have hdsp : SC.dsp st' cl col p = SC.dsp st cl col p := by unfold SC.dsp; rw [he]
  unfold commitOf
  unfold rduid at ho
  rw [hdsp, he]
  split
  · rfl
  next h1 =>
  split
  · rfl
  next h2 =>
  split
  · rfl
  next h3 =>
  simp only [h1, h2, h3, Bool.false_eq_true, if_false] at ho
  have hd2 : ∀ cp2 nd, SC.doc2 st' cl p (SC.dsp st cl col p)
        (SC.docOf col p (SC.dsp st cl col p) (evalCase st col cl.cuid p).2) cp2 nd =
      SC.doc2 st cl p (SC.dsp st cl col p)
        (SC.docOf col p (SC.dsp st cl col p) (evalCase st col cl.cuid p).2) cp2 nd := by
    intro cp2 nd
    unfold SC.doc2 SC.cp3 SC.pulled
    rw [ho]
  simp only [hd2]

theorem find?_upsert (q : DatatypeDoc → Bool) (d : DatatypeDoc) (l : List DatatypeDoc)
    (hqd : q d = false) (hl : ∀ x ∈ l, x.duid = d.duid → q x = false) :
    (upsertDatatype d l).find? q = l.find? q := by
  induction l with
  | nil => simp [upsertDatatype, hqd]
  | cons x xs ih =>
    unfold upsertDatatype
    split
    · next hx => simp [hqd, hl x List.mem_cons_self hx]
    · simp only [List.find?_cons]
      rw [ih (fun y hy => hl y (List.mem_cons_of_mem _ hy))]

theorem getOperations_other (st : Store) (dts : List DatatypeDoc) (nd : List OpDoc) (u v : String)
    (hnd : ∀ o ∈ nd, o.duid = u) (hne : v ≠ u) (from_ : Nat) :
    ({ st with operations := st.operations ++ nd, datatypes := dts } : Store).getOperations v from_ =
      st.getOperations v from_ := by
  rw [SL.getOperations_eq, SL.getOperations_eq]
  simp only [List.filter_append]
  have : nd.filter (fun o => decide (o.duid = v ∧ from_ ≤ o.sseq)) = [] := by
    rw [List.filter_eq_nil_iff]
    intro o ho
    have := hnd o ho
    simp only [decide_eq_true_eq, not_and]
    intro h'; exact absurd (h'.symm.trans this) hne
  rw [this, List.append_nil]

/-- the other request's commit does not change what this request commits -/
theorem commit_stable (st : Store) (cl1 cl2 : ClientDoc) (col1 col2 : CollectionDoc) (p1 p2 : Pack)
    (hd : DuidUnique st)
    (hne : rduid st cl1 col1 p1 ≠ rduid st cl2 col2 p2)
    (hk : (col1.num, p1.key) ≠ (col2.num, p2.key)) :
    commitOf (applyCommit st (commitOf st cl1 col1 p1)) cl2 col2 p2 = commitOf st cl2 col2 p2 := by
  rcases commitOf_facts st cl1 col1 p1 with h | ⟨d, doc, cp2, nd, hc, hr, hcol, hkey, hnd, hsrc⟩
  · rw [h]; rfl
  rw [hc]
  obtain ⟨h2du, h2key, h2col, -⟩ := SC.doc2_facts st cl1 p1 d doc cp2 nd
  have hkk : ¬ (col1.num = col2.num ∧ p1.key = p2.key) := fun hh => hk (by rw [hh.1, hh.2])
  apply commit_congr
  · apply evalCase_congr
    · show (upsertDatatype _ st.datatypes).find? _ = st.datatypes.find? _
      apply find?_upsert
      · rw [decide_eq_false_iff_not, h2col, h2key, hcol, hkey]; exact hkk
      · intro x hx hxd
        rw [h2du] at hxd
        rcases hsrc with hf | hm
        · exact absurd hxd (hf x hx)
        · have := SL.eq_of_nodup_duid hd hx hm hxd
          subst this
          rw [decide_eq_false_iff_not, hcol, hkey]; exact hkk
    · intro hn
      have hp2 := rduid_noKey st cl2 col2 p2 hn
      show (upsertDatatype _ st.datatypes).find? _ = st.datatypes.find? _
      apply find?_upsert
      · rw [decide_eq_false_iff_not, h2du, ← hr, ← hp2]; exact hne
      · intro x _ hxd
        rw [decide_eq_false_iff_not, hxd, h2du, ← hr, ← hp2]; exact hne
  · intro from_
    exact getOperations_other st _ nd doc.duid _ hnd (by rw [← hr]; exact Ne.symm hne) from_

theorem upsert_filter_same (d : DatatypeDoc) (l : List DatatypeDoc) :
    (upsertDatatype d l).filter (fun y => y.duid = d.duid) =
      upsertDatatype d (l.filter (fun y => y.duid = d.duid)) := by
  induction l with
  | nil => simp [upsertDatatype]
  | cons x xs ih =>
    by_cases hx : x.duid = d.duid
    · simp [upsertDatatype, hx]
    · simp [upsertDatatype, hx]; simpa using ih

theorem upsert_filter_other (d : DatatypeDoc) (l : List DatatypeDoc) (u : String) (h : u ≠ d.duid) :
    (upsertDatatype d l).filter (fun y => y.duid = u) = l.filter (fun y => y.duid = u) := by
  induction l with
  | nil => simp [upsertDatatype, Ne.symm h]
  | cons x xs ih =>
    by_cases hx : x.duid = d.duid
    · have hxu : ¬ x.duid = u := fun h' => h (h'.symm.trans hx)
      simp [upsertDatatype, hx, Ne.symm h]
    · simp only [upsertDatatype, hx, if_false, List.filter_cons, ih]

theorem upsert_comm_filter (D1 D2 : DatatypeDoc) (l : List DatatypeDoc) (hne : D1.duid ≠ D2.duid) (u : String) :
    (upsertDatatype D2 (upsertDatatype D1 l)).filter (fun y => y.duid = u) =
      (upsertDatatype D1 (upsertDatatype D2 l)).filter (fun y => y.duid = u) := by
  by_cases h1 : u = D1.duid
  · subst h1
    rw [upsert_filter_other D2 _ _ hne, upsert_filter_same, upsert_filter_same, upsert_filter_other D2 _ _ hne]
  · rw [upsert_filter_other D1 (upsertDatatype D2 l) u h1]
    by_cases h2 : u = D2.duid
    · subst h2
      rw [upsert_filter_same, upsert_filter_same, upsert_filter_other D1 _ _ h1]
    · rw [upsert_filter_other D2 _ u h2, upsert_filter_other D1 _ u h1, upsert_filter_other D2 _ u h2]

theorem applyCommit_frame (st : Store) (c : Option (DatatypeDoc × List OpDoc)) :
    (applyCommit st c).clients = st.clients ∧ (applyCommit st c).collections = st.collections := by
  cases c with
  | none => exact ⟨rfl, rfl⟩
  | some r => exact ⟨rfl, rfl⟩

end Orda.SrvLock.H

namespace Orda
open SrvLock.H in
/-- C12: requests for DIFFERENT datatypes neither block nor affect each other — two packs whose responses
    name different datatype ids commute: per datatype id, the stored operations and the datatype document
    are the same whichever of the two is handled first -/
theorem different_datatypes_commute (st : Store) (cl1 cl2 : ClientDoc) (col1 col2 : CollectionDoc) (p1 p2 : Pack)
    (hd : DuidUnique st)
    (hne : (processPack st cl1 col1 p1).resp.duid ≠ (processPack st cl2 col2 p2).resp.duid)
    (hk : (col1.num, p1.key) ≠ (col2.num, p2.key)) :
    let a := (processPack (processPack st cl1 col1 p1).store cl2 col2 p2).store
    let b := (processPack (processPack st cl2 col2 p2).store cl1 col1 p1).store
    (∀ duid, a.operations.filter (fun o => o.duid = duid) = b.operations.filter (fun o => o.duid = duid)) ∧
    (∀ duid, a.datatypes.filter (fun d => d.duid = duid) = b.datatypes.filter (fun d => d.duid = duid)) ∧
    a.clients = b.clients ∧ a.collections = b.collections := by
  intro a b
  rw [(pp_eq st cl1 col1 p1).2, (pp_eq st cl2 col2 p2).2] at hne
  have ha : a = applyCommit (applyCommit st (commitOf st cl1 col1 p1)) (commitOf st cl2 col2 p2) := by
    show (processPack (processPack st cl1 col1 p1).store cl2 col2 p2).store = _
    rw [(pp_eq _ cl2 col2 p2).1, (pp_eq st cl1 col1 p1).1, commit_stable st cl1 cl2 col1 col2 p1 p2 hd hne hk]
  have hb : b = applyCommit (applyCommit st (commitOf st cl2 col2 p2)) (commitOf st cl1 col1 p1) := by
    show (processPack (processPack st cl2 col2 p2).store cl1 col1 p1).store = _
    rw [(pp_eq _ cl1 col1 p1).1, (pp_eq st cl2 col2 p2).1,
      commit_stable st cl2 cl1 col2 col1 p2 p1 hd (Ne.symm hne) (Ne.symm hk)]
  rw [ha, hb]
  refine ⟨?_, ?_, ?_, ?_⟩
  rotate_left 2
  · rw [(applyCommit_frame _ _).1, (applyCommit_frame _ _).1, (applyCommit_frame _ _).1, (applyCommit_frame _ _).1]
  · rw [(applyCommit_frame _ _).2, (applyCommit_frame _ _).2, (applyCommit_frame _ _).2, (applyCommit_frame _ _).2]
  all_goals
    rcases commitOf_facts st cl1 col1 p1 with h1 | ⟨d1, doc1, cp1, nd1, hc1, hr1, -, -, hnd1, -⟩
    · rw [h1]; intro duid; rfl
    rcases commitOf_facts st cl2 col2 p2 with h2 | ⟨d2, doc2, cp2, nd2, hc2, hr2, -, -, hnd2, -⟩
    · rw [h2]; intro duid; rfl
    rw [hc1, hc2]
    rw [hr1, hr2] at hne
    have e1 := (SC.doc2_facts st cl1 p1 d1 doc1 cp1 nd1).1
    have e2 := (SC.doc2_facts st cl2 p2 d2 doc2 cp2 nd2).1
    intro duid
  · show ((st.operations ++ nd1) ++ nd2).filter _ = ((st.operations ++ nd2) ++ nd1).filter _
    simp only [List.filter_append, List.append_assoc]
    congr 1
    by_cases hu : duid = doc1.duid
    · have : nd2.filter (fun o => decide (o.duid = duid)) = [] := by
        rw [List.filter_eq_nil_iff]; intro o ho
        simp only [decide_eq_true_eq, hnd2 o ho, hu]; exact Ne.symm hne
      rw [this]; simp
    · have : nd1.filter (fun o => decide (o.duid = duid)) = [] := by
        rw [List.filter_eq_nil_iff]; intro o ho
        simp only [decide_eq_true_eq, hnd1 o ho]; exact Ne.symm hu
      rw [this]; simp
  · exact upsert_comm_filter _ _ st.datatypes (by rw [e1, e2]; exact hne) duid
end Orda
