/-
C12 — Concurrent syncs of one datatype are serialized; the server never races or hangs (PARTIAL).
Proved on the lock-protocol model Model/SrvLock.lean (handlers of one key competing for the key's lock,
each with its own context; a handler that does not get the lock answers with an error and touches
nothing; only a holder unlocks — the protocol of the current source): mutual exclusion, the store is
the result of running the served handlers ONE AT A TIME in lock-acquisition order (so all of C06
holds after any concurrent execution), every request returns; requests for different datatypes commute.
Tie: real parallel executions (2..16 simultaneous ProcessPushPull calls, own cancelled contexts) whose
derived serial order is replayed by the model (`par` slice).
Not decided by proof (named gap): absence of data races and of runtime deadlocks under real
parallel execution (the race detector run of the thorough tier is search support); the Redis lock.
-/
import Orda.Proofs.SrvLockProofs
namespace Orda.Props.C12
open Orda Orda.SrvLock

theorem one_holder_one_reply (st : Store) (c : Cfg) (s : HSt) (h : Reach st c s) :
    (∀ i, s.pcs[i]? = some .holding ↔ s.holder = some i) ∧
    s.order.Nodup ∧
    (∀ i, i ∈ s.order ↔ (s.pcs[i]? = some .holding ∨ s.pcs[i]? = some .served)) ∧
    (∀ i, (i ∈ s.replies.map (·.1)) ↔ (s.pcs[i]? = some .served ∨ s.pcs[i]? = some .refused)) ∧
    (s.replies.map (·.1)).Nodup ∧ s.pcs.length = c.n := mutual_exclusion st c s h

/-- serialisability: after ANY interleaving the store equals the one-at-a-time execution of the served
    handlers in lock-acquisition order -/
theorem equals_some_serial_order (st : Store) (c : Cfg) (s : HSt) (h : Reach st c s)
    (hcls : c.cls.length = c.packs.length) :
    s.store = serial c st (s.order.filter (fun i => decide (s.pcs[i]? = some .served))) :=
  store_is_serial st c s h hcls

theorem log_invariants_hold_concurrently (st : Store) (c : Cfg) (s : HSt) (h : Reach st c s) (hi : LogInv st) :
    LogInv s.store := logInv_concurrent st c s h hi

theorem every_request_returns (st : Store) (c : Cfg) (s : HSt) (h : Reach st c s)
    (hcls : c.cls.length = c.packs.length)
    (hnd : ∃ (i : Nat) (p : HPc), s.pcs[i]? = some p ∧ p ≠ .served ∧ p ≠ .refused) : ∃ s', Step c s s' :=
  Orda.SrvLock.every_request_returns st c s h hcls hnd

theorem lock_refusal_changes_nothing (c : Cfg) (s s' : HSt) (i : Nat) (h : Step c s s')
    (hp : s.pcs[i]? = some .waiting) (hp' : s'.pcs[i]? = some .refused) : s'.store = s.store :=
  refused_changes_nothing c s s' i h hp hp'

/-- requests for different datatypes neither block nor affect each other: they commute -/
theorem different_datatypes_independent (st : Store) (cl1 cl2 : ClientDoc) (col1 col2 : CollectionDoc) (p1 p2 : Pack)
    (hd : DuidUnique st)
    (hne : (processPack st cl1 col1 p1).resp.duid ≠ (processPack st cl2 col2 p2).resp.duid)
    (hk : (col1.num, p1.key) ≠ (col2.num, p2.key)) :
    let a := (processPack (processPack st cl1 col1 p1).store cl2 col2 p2).store
    let b := (processPack (processPack st cl2 col2 p2).store cl1 col1 p1).store
    (∀ duid, a.operations.filter (fun o => o.duid = duid) = b.operations.filter (fun o => o.duid = duid)) ∧
    (∀ duid, a.datatypes.filter (fun d => d.duid = duid) = b.datatypes.filter (fun d => d.duid = duid)) ∧
    a.clients = b.clients ∧ a.collections = b.collections :=
  different_datatypes_commute st cl1 cl2 col1 col2 p1 p2 hd hne hk

end Orda.Props.C12
