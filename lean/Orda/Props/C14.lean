/-
C14 — Operations and values survive the wire and the store unchanged (PARTIAL at the byte level).
In the model an operation on the wire IS its body tree (`Op.wire` drops the local-only fields
`pos`/`num`): the theorems say that this projection keeps identifier and type, is idempotent, and
— the part that matters — has the same REMOTE effect as the operation the sender executed.
encoding/json, protobuf-go and BSON are modelled as the identity on these trees; that the real chain
(JSON body → protobuf → OperationDoc → BSON → MongoDB stand-in → back, and the echo service) is the
identity on every operation type and value shape is what the `enc` correspondence slice establishes.
-/
import Orda.Model.Api
namespace Orda.Props.C14
open Orda

/-- encoding keeps the identifier -/
theorem wire_keeps_id (o : Op) : o.wire.id = o.id := rfl

/-- encoding keeps the operation type (constructor) and every field that is on the wire -/
theorem wire_idempotent (o : Op) : o.wire.wire = o.wire := by
  cases o with
  | mk id body => cases body <;> rfl

theorem wire_keeps_meta (b : OpBody) : b.wire.isMeta = b.isMeta := by cases b <;> rfl

/-- same effect: applying the decoded operation remotely is applying the original one — the
    local-only fields are irrelevant to the remote effect, for every datatype state -/
theorem wire_same_remote_effect (s : DState) (ts : Ts) (b : OpBody) :
    (match execRemote s ts b.wire with | .ok s' => some s' | _ => none) =
    (match execRemote s ts b with | .ok s' => some s' | _ => none) ∧
    (execRemote s ts b.wire = execRemote s ts b) := by
  have h : execRemote s ts b.wire = execRemote s ts b := by
    cases b with
    | insert pos t vs => cases s <;> cases t <;> rfl
    | docInsert p pos t vs => cases s <;> cases t <;> rfl
    | snapshot s' => cases s <;> cases s' <;> rfl
    | _ => cases s <;> rfl
  exact ⟨by rw [h], h⟩

/-- what a client queues for push is exactly the wire form of the operation it executed (and recorded
    for rollback): nothing else reaches the buffer -/
theorem queued_is_wire_form (r r1 : Replica) (b : OpBody) (op : Op) (ret : Ret)
    (h : r.execLocalBase b = (r1, .ok (op, ret))) :
    (r.callLocal b).1.buffer = r1.buffer ++ [Op.wire op] ∧ (r.callLocal b).1.rbOps = r1.rbOps ++ [op] ∧
    (r.callLocal b).2 = .ok ret := by
  unfold Replica.callLocal
  rw [h]
  exact ⟨rfl, rfl, rfl⟩

end Orda.Props.C14
