/-
C20 — Calls from several goroutines on one datatype behave as if made one at a time (PARTIAL).
Proved: the flag-and-mutex protocol of TransactionDatatype (model: Model/TxLock.lean, the protocol of
the current source) gives mutual exclusion, never crashes, cannot deadlock, and queues every issued
operation exactly once — for any number of goroutines and any schedule; the earlier protocol (mutex
released before `isLocked := false`) is shown broken by an explicit schedule, which the check also
FORCES on the implementation through the `verif` schedule points.
Not decided by proof (named gap): the Go memory model — unsynchronised reads outside the mutex
(argument validation, Get/Size/ToJSON) are data races that the race detector reports; the theorem
covers the protocol logic only.  Stress runs with randomised yields are search support.
-/
import Orda.Proofs.TxLockProofs
namespace Orda.Props.C20
open Orda.TxLock

theorem mutual_exclusion_any_schedule (n : Nat) (s : St) (h : Reach true n s) :
    s.crashed = false ∧
    (∀ i : Nat, s.pcs[i]? ≠ some .critUnlocked) ∧ (∀ i : Nat, s.pcs[i]? ≠ some .released) ∧
    (∀ i j : Nat, s.pcs[i]? = some .critLocked → s.pcs[j]? = some .critLocked → i = j) ∧
    (∀ i, s.pcs[i]? = some .critLocked ↔ s.mutex = some i) ∧
    (s.isLocked = true ↔ s.mutex.isSome = true) ∧ (s.txCtx = s.mutex) ∧
    s.pcs.length = n := fixed_mutual_exclusion n s h

theorem no_deadlock (n : Nat) (s : St) (h : Reach true n s) (hnd : ∃ (i : Nat) (p : Pc), s.pcs[i]? = some p ∧ p ≠ .done) :
    ∃ s', Step true s s' := fixed_no_deadlock n s h hnd

theorem every_operation_queued_once (n : Nat) (s : St) (h : Reach true n s) :
    s.queued.Nodup ∧ ∀ i, i ∈ s.queued ↔ s.pcs[i]? = some .done := fixed_queued_once n s h

theorem all_done_all_queued (n : Nat) (s : St) (h : Reach true n s) (hd : ∀ i, i < n → s.pcs[i]? = some .done) :
    s.queued.length = n := fixed_all_done_all_queued n s h hd

/-- the earlier protocol admits a schedule with a goroutine inside the critical section without the mutex,
    and a crash -/
theorem earlier_protocol_broken :
    (∃ s, Reach false 2 s ∧ ∃ i : Nat, s.pcs[i]? = some .critUnlocked) ∧ (∃ s, Reach false 2 s ∧ s.crashed = true) :=
  old_protocol_broken

end Orda.Props.C20
