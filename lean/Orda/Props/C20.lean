/-
C20 — Calls from several goroutines on one datatype behave as if made one at a time (PARTIAL).
Proved: the flag-and-mutex protocol of TransactionDatatype (model: Model/TxLock.lean, the protocol of
the current source) gives mutual exclusion, never crashes, cannot deadlock, and queues every issued
operation exactly once — for any number of goroutines and any schedule; the earlier protocol (mutex
released before `isLocked := false`) is shown broken by an explicit schedule, which the check also
FORCES on the implementation through the `verif` schedule points.
Not decided by proof (named gap): the Go memory model — unsynchronised reads outside the mutex
(argument validation, Get/Size/ToJSON) are data races that the race detector reports; the theorem
covers the protocol logic only.  Stress runs with randomised yields are search support.
-/
import Orda.Proofs.TxLockProofs
import Orda.Proofs.TxFlagProofs
namespace Orda.Props.C20
open Orda.TxLock

theorem mutual_exclusion_any_schedule (n : Nat) (s : St) (h : Reach true n s) :
    s.crashed = false ∧
    (∀ i : Nat, s.pcs[i]? ≠ some .critUnlocked) ∧ (∀ i : Nat, s.pcs[i]? ≠ some .released) ∧
    (∀ i j : Nat, s.pcs[i]? = some .critLocked → s.pcs[j]? = some .critLocked → i = j) ∧
    (∀ i, s.pcs[i]? = some .critLocked ↔ s.mutex = some i) ∧
    (s.isLocked = true ↔ s.mutex.isSome = true) ∧ (s.txCtx = s.mutex) ∧
    s.pcs.length = n := fixed_mutual_exclusion n s h

theorem no_deadlock (n : Nat) (s : St) (h : Reach true n s) (hnd : ∃ (i : Nat) (p : Pc), s.pcs[i]? = some p ∧ p ≠ .done) :
    ∃ s', Step true s s' := fixed_no_deadlock n s h hnd

theorem every_operation_queued_once (n : Nat) (s : St) (h : Reach true n s) :
    s.queued.Nodup ∧ ∀ i, i ∈ s.queued ↔ s.pcs[i]? = some .done := fixed_queued_once n s h

theorem all_done_all_queued (n : Nat) (s : St) (h : Reach true n s) (hd : ∀ i, i < n → s.pcs[i]? = some .done) :
    s.queued.length = n := fixed_all_done_all_queued n s h hd

/-- the earlier protocol admits a schedule with a goroutine inside the critical section without the mutex,
    and a crash -/
theorem earlier_protocol_broken :
    (∃ s, Reach false 2 s ∧ ∃ i : Nat, s.pcs[i]? = some .critUnlocked) ∧ (∃ s, Reach false 2 s ∧ s.crashed = true) :=
  old_protocol_broken

/-! ### the success flag: "no update is lost", "a transaction does not interleave with other goroutines' calls"

`Model/TxFlag`: one shared boolean decides in EndTransaction between commit and rollback.  Where the source writes it is
REGENERATED on every run (`Gen.txFacts`, tools/gofacts): the theorems below hold for exactly those facts; the bridge theorem
`Orda.Shape.C20.source_flag_facts : Gen.txFacts = TxFlag.currentFacts` lives in Orda/Shape/C20.lean. -/

/-- no update lost, no failed transaction committed: every finished unit of work (call, transaction, delivery of remote
    operations) was committed iff ITS OWN body reported no failure — any number of goroutines, any schedule -/
theorem outcome_depends_on_own_body_only (fails : Nat → Bool) (n : Nat) (s : Orda.TxFlag.St)
    (h : Orda.TxFlag.Reach Orda.TxFlag.currentFacts fails n s) (i : Nat) (hd : s.pcs[i]? = some .done) :
    s.outs[i]? = some (if fails i then .rolledBack else .committed) :=
  Orda.TxFlag.flag_outcome_is_own fails n s h i hd

theorem flag_protocol_never_stuck (fails : Nat → Bool) (n : Nat) (s : Orda.TxFlag.St)
    (h : Orda.TxFlag.Reach Orda.TxFlag.currentFacts fails n s)
    (hnd : ∃ (i : Nat) (p : Orda.TxFlag.Pc), s.pcs[i]? = some p ∧ p ≠ .done) :
    ∃ s', Orda.TxFlag.Step Orda.TxFlag.currentFacts fails s s' := Orda.TxFlag.flag_progress fails n s h hnd

/-- each of the facts is needed: resetting before the lock instead of under it loses the update of a caller that waited
    behind a failing transaction (this is seeded change C20-success-flag-race); resetting at both places commits a failed
    transaction; not resetting at all switches every later unit of work off -/
theorem flag_facts_are_needed :
    (∃ (fails : Nat → Bool) (s : Orda.TxFlag.St), Orda.TxFlag.Reach ⟨false, true, true, true⟩ fails 2 s ∧
      ∃ i : Nat, fails i = false ∧ s.pcs[i]? = some .done ∧ s.outs[i]? = some .rolledBack) ∧
    (∃ (fails : Nat → Bool) (s : Orda.TxFlag.St), Orda.TxFlag.Reach ⟨true, true, true, true⟩ fails 2 s ∧
      ∃ i : Nat, fails i = true ∧ s.pcs[i]? = some .done ∧ s.outs[i]? = some .committed) ∧
    (∃ (fails : Nat → Bool) (s : Orda.TxFlag.St), Orda.TxFlag.Reach ⟨false, false, true, true⟩ fails 2 s ∧
      ∃ i : Nat, fails i = false ∧ s.pcs[i]? = some .done ∧ s.outs[i]? = some .rolledBack) :=
  ⟨Orda.TxFlag.reset_before_lock_loses_update, Orda.TxFlag.reset_at_both_commits_failed, Orda.TxFlag.no_reset_loses_update⟩

end Orda.Props.C20
