/-
C18 — Every committed push is announced; realtime clients converge by themselves.
First clause: `processPack` of Model/Server (what is announced, when).
Second clause: the small-step model Model/Realtime.lean of the client's DatatypeManager
(DeliverTransaction with its semaphore and re-check, ReceiveNotification, syncIfNeedPull) + the server's
publish-after-store, with arbitrary delays of every message and goroutine. Its guards are NOT written by
hand: `Gen.rtFacts` is regenerated from client/pkg/internal/managers/datatype.go on every run
(tools/gofacts), and the theorems below are stated FOR THOSE FACTS.
Not modelled (named): loss of MQTT messages (QoS 0 over a broken connection), a client that is not yet
subscribed to the topic when the first foreign push is announced (the first sync closes that window).
-/
import Orda.Proofs.ServerContract
import Orda.Proofs.RealtimeProofs
namespace Orda.Props.C18
open Orda

theorem announced_iff_stored (st : Store) (cl : ClientDoc) (col : CollectionDoc) (p : Pack) :
    let r := processPack st cl col p
    (r.notif.isSome = true ↔ 0 < r.pushed) ∧
    (∀ n, r.notif = some n → n.cuid = cl.cuid ∧ n.duid = r.resp.duid ∧ n.sseq = r.resp.cp.sseq ∧
        ∃ d ∈ r.store.datatypes, d.duid = n.duid ∧ d.sseqEnd = n.sseq ∧ n.topic = col.name ++ "/" ++ d.key) :=
  notify_iff_stored st cl col p

theorem pull_only_is_silent (st : Store) (cl : ClientDoc) (col : CollectionDoc) (p : Pack) (h : p.ops = []) :
    (processPack st cl col p).notif = none := pull_only_silent st cl col p h

/-! ### realtime clients -/
open Orda.Rt

/-- REGENERATED TIE: the guards found in the current source are the ones the proofs are about -/
theorem source_guards : Gen.rtFacts = Rt.currentFacts := by decide

/-- no lost wake-up: in EVERY state reachable under any interleaving of user operations, delivery
    goroutines, server handling, responses and (arbitrarily delayed) notifications, once nothing is in
    flight every client has pushed everything, stands at the end of the log, and the server has stored all
    of its operations — with no Sync call by anybody -/
theorem realtime_clients_converge_by_themselves (n : Nat) (S : Sys) (h : Reach Gen.rtFacts n S) (hq : Quiescent S) :
    Converged S := by
  rw [source_guards] at h
  exact rt_quiescent_converged n S h hq

/-- … and they do get there: while something is in flight a processing step is enabled, every
    processing step decreases the measure `μ`, so after the users stop, EVERY schedule reaches a quiescent
    converged state within `μ S` steps and no schedule runs for ever -/
theorem realtime_settles {n : Nat} {S : Sys} (h : Reach Gen.rtFacts n S) :
    (¬ Quiescent S → ∃ S', Step Gen.rtFacts S S' ∧ ¬ IsLocalOp S S') ∧
    (∀ k S', PRun Gen.rtFacts k S S' → k ≤ μ S) ∧
    (∀ k S', PRun Gen.rtFacts k S S' → (∃ S'', PStep Gen.rtFacts S' S'') ∨ (Quiescent S' ∧ Converged S')) ∧
    (¬ ∃ σ : Nat → Sys, σ 0 = S ∧ ∀ k, PStep Gen.rtFacts (σ k) (σ (k + 1))) := by
  rw [source_guards] at h ⊢
  exact ⟨fun hq => rt_progress h hq, (rt_terminates h).1, (rt_terminates h).2, rt_no_infinite_run h⟩

/-- notifications caused by the client itself are ignored (`ownFilter`), and ignoring them loses nothing:
    the statement above holds although the pusher drops its own notification -/
theorem own_notifications_ignored : Gen.rtFacts.ownFilter = true := by decide

/-- the guards matter: were the notification-triggered sync to give up when a delivery is in flight
    (`notifySyncTakesSema`), a client could stay behind the log for ever; were the delivery not to re-check
    after releasing (`deliverRechecks`), an operation could stay unpushed for ever -/
theorem guards_are_needed :
    (∃ S, Reach factsNotifySema 2 S ∧ Quiescent S ∧ ¬ Converged S) ∧
    (∃ S, Reach factsNoRecheck 1 S ∧ Quiescent S ∧ ¬ Converged S) := by
  obtain ⟨S, h1, h2, h3, _⟩ := rt_notifySema_lost_wakeup
  obtain ⟨T, g1, g2, g3, _⟩ := rt_noRecheck_never_pushed
  exact ⟨⟨S, h1, h2, h3⟩, ⟨T, g1, g2, g3⟩⟩

/-- non-vacuity: a reachable quiescent converged state (2 clients, 3 operations) -/
theorem realtime_nonvacuous : ∃ S, Reach Gen.rtFacts 2 S ∧ Quiescent S ∧ Converged S := by
  obtain ⟨S, h, hq, hc, _⟩ := rt_nonvacuous
  exact ⟨S, source_guards ▸ h, hq, hc⟩

end Orda.Props.C18
