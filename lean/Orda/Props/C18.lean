/-
C18 — Every committed push is announced (content and count of notifications).
The convergence of realtime clients "by themselves" is a liveness statement about goroutines, MQTT
delivery and retries: the model proves only the safety half (what is announced, and that a settled
system is a quiescent one — see C05); this is stated in DESIGN.md §6 C18 and in the level text.
-/
import Orda.Proofs.ServerContract
namespace Orda.Props.C18
open Orda

theorem announced_iff_stored (st : Store) (cl : ClientDoc) (col : CollectionDoc) (p : Pack) :
    let r := processPack st cl col p
    (r.notif.isSome = true ↔ 0 < r.pushed) ∧
    (∀ n, r.notif = some n → n.cuid = cl.cuid ∧ n.duid = r.resp.duid ∧ n.sseq = r.resp.cp.sseq ∧
        ∃ d ∈ r.store.datatypes, d.duid = n.duid ∧ d.sseqEnd = n.sseq ∧ n.topic = col.name ++ "/" ++ d.key) :=
  notify_iff_stored st cl col p

theorem pull_only_is_silent (st : Store) (cl : ClientDoc) (col : CollectionDoc) (p : Pack) (h : p.ops = []) :
    (processPack st cl col p).notif = none := pull_only_silent st cl col p h

end Orda.Props.C18
