/-
C11 — Stored snapshots and the user-visible document equal the log replay.
Model: Model/Snap.lean (`updateSnapshotUpTo`: the background updater started for end-of-log `e`, which may
run at ANY later point — after further pushes, several of them racing in any order) over the store
of Model/Server.lean. Reference: `replayState` = replay of the log from the empty datatype.
`Reach` below is every store obtainable from the empty one by pushes of arbitrary clients/packs and
updater runs for arbitrary (duid, collection, end-of-log) in any order; the invariants hold in every
such store.
Not modelled (named): the reset of a collection while an updater is in flight; the REST patch path
uses the same `latest`/push/updater functions and is covered by correspondence only.
-/
import Orda.Proofs.SnapReplay
import Orda.Proofs.RestPatchPublish
namespace Orda.Props.C11
open Orda Orda.SL Orda.SN

/-- the updater touches only snapshots and user documents -/
theorem logInv_updateSnapshotUpTo (st : Store) (duid colName : String) (e : Nat) (h : LogInv st) :
    LogInv (st.updateSnapshotUpTo duid colName e) := by
  rcases upTo_cases st duid colName e with h0 | ⟨doc, r, _, _, _, h1⟩
  · rw [h0]; exact h
  · rw [h1]; exact logInv_congr (st := st) rfl rfl h

/-- every schedule of pushes and background snapshot updates -/
inductive Reach : Store → Prop
  | init : Reach {}
  | push (st : Store) (cl : ClientDoc) (col : CollectionDoc) (p : Pack) :
      Reach st → Reach (processPack st cl col p).store
  | update (st : Store) (duid colName : String) (e : Nat) :
      Reach st → Reach (st.updateSnapshotUpTo duid colName e)

/-- the whole invariant: log invariant (C06), every snapshot at version v is the replay of 1..v, the user
    document is the state of a stored snapshot with its version recorded, no orphaned snapshot -/
structure Inv (st : Store) : Prop where
  log : LogInv st
  snap : st.SnapInv
  user : st.UserInv
  noOrphan : SnapNoOrphan st

theorem inv_reachable (st : Store) (h : Reach st) : Inv st := by
  induction h with
  | init => exact ⟨logInv_empty, snapInv_empty, userInv_empty, snapNoOrphan_empty⟩
  | push st cl col p _ ih =>
    exact ⟨logInv_processPack st cl col p ih.log,
           snapInv_processPack_partial st cl col p ih.log ih.snap ih.noOrphan,
           userInv_processPack st cl col p ih.user,
           snapNoOrphan_processPack st cl col p ih.log ih.noOrphan⟩
  | update st duid colName e _ ih =>
    exact ⟨logInv_updateSnapshotUpTo st duid colName e ih.log,
           snapInv_updateSnapshotUpTo st duid colName e ih.log ih.snap,
           userInv_updateSnapshotUpTo st duid colName e ih.snap ih.user,
           snapNoOrphan_updateSnapshotUpTo st duid colName e ih.noOrphan⟩

/-- C11 (first clause), every reachable store: a snapshot stored at version v for a datatype is the state
    obtained by replaying log operations 1..v, and v is within the log -/
theorem stored_snapshot_is_replay_of_prefix (st : Store) (h : Reach st) (s : SnapDoc) (d : DatatypeDoc)
    (hs : s ∈ st.snapshots) (hd : d ∈ st.datatypes) (hid : d.duid = s.duid) :
    s.sseq ≤ d.sseqEnd ∧ replayState d.typ ((st.logOf s.duid).take s.sseq) = some s.snap :=
  (inv_reachable st h).snap s hs d hd hid

/-- C11 (second clause): the user-visible document is the state of a stored snapshot (hence of a replay
    of a log prefix) with that snapshot's version recorded -/
theorem user_document_is_a_snapshot_state (st : Store) (h : Reach st) (u : UserDoc) (hu : u ∈ st.userDocs) :
    ∃ s ∈ st.snapshots, s.key = u.key ∧ s.sseq = u.ver ∧ u.value = s.snap :=
  (inv_reachable st h).user u hu

/-- C11 (third clause): an updater run — whenever it happens — either leaves the user documents alone or
    writes one whose recorded version is greater than every snapshot version stored so far (and the user
    document's version IS a stored snapshot version by the second clause), so it never decreases -/
theorem recorded_version_never_decreases (st : Store) (duid colName : String) (e : Nat) (doc : DatatypeDoc)
    (hd : st.getDatatype duid = some doc) :
    let st' := st.updateSnapshotUpTo duid colName e
    st'.userDocs = st.userDocs ∨
    (∃ u ∈ st'.userDocs, u.key = doc.key ∧ u.col = colName ∧
       ∀ s ∈ st.snapshots, s.colNum = doc.colNum → s.duid = duid → s.sseq < u.ver) :=
  version_monotone st duid colName e doc hd

/-- pushes never touch the user documents or the snapshots' invariant -/
theorem push_keeps_user_documents (st : Store) (cl : ClientDoc) (col : CollectionDoc) (p : Pack)
    (hu : st.UserInv) : (processPack st cl col p).store.UserInv := userInv_processPack st cl col p hu

/-- C11 (last clause), every reachable store: rebuilding from the latest snapshot plus the later
    operations gives the same state as rebuilding from the whole log, at the version of the end of the log -/
theorem latest_plus_later_ops_is_full_replay (st : Store) (h : Reach st) (doc : DatatypeDoc) (hd : doc ∈ st.datatypes)
    (hfull : (replayState doc.typ (st.logOf doc.duid)).isSome = true) :
    ∃ r ver, st.latest doc = some (r, ver) ∧ some r.state = replayState doc.typ (st.logOf doc.duid) ∧
      (ver = doc.sseqEnd ∨ (st.logOf doc.duid = [] ∧ ver = 0)) :=
  let i := inv_reachable st h
  latest_is_full_replay st doc hd i.log i.snap i.log.duidNodup hfull

/-- the atomic updater of the model used by the correspondence (run right after its push) is the bounded
    one started for the current end of the log -/
theorem atomic_updater_is_bounded_updater (st : Store) (duid colName : String) (doc : DatatypeDoc)
    (hd : st.getDatatype duid = some doc) (hi : LogInv st) :
    st.updateSnapshot duid colName = st.updateSnapshotUpTo duid colName doc.sseqEnd :=
  updateSnapshot_eq_upTo st duid colName doc hd hi

/-- replay is compositional: a completely received prefix can be received first (what makes
    "snapshot + later operations" meaningful) -/
theorem replay_of_prefix_then_rest (r : Replica) (a b : List Op) (ha : (r.receive a).2 = .ok ()) :
    r.receive (a ++ b) = (r.receive a).1.receive b := receive_append_full r a b ha

/-- the hypothesis `SnapNoOrphan` of the push step is needed: without it the snapshot invariant is not
    preserved by a push (machine-checked counterexample; unreachable from the empty store) -/
theorem orphan_hypothesis_needed :
    ∃ (st : Store) (cl : ClientDoc) (col : CollectionDoc) (p : Pack),
      LogInv st ∧ st.SnapInv ∧ ¬ (processPack st cl col p).store.SnapInv :=
  snapInv_processPack_counterexample

/-- non-vacuity: a reachable store with a stored snapshot and a user document -/
def exOps : List Op := [⟨⟨0, 1, "a", 1⟩, .snapshot (.counter 0)⟩, ⟨⟨0, 2, "a", 2⟩, .increase 5⟩]
def exPack : Pack := { key := "k", duid := "d", create := true, cp := ⟨0, 0⟩, typ := .counter, ops := exOps }
def exStore : Store := ((processPack {} ⟨"a", "a", 0, 0, 0⟩ ⟨"col", 0⟩ exPack).store).updateSnapshotUpTo "d" "col" 2

example : Reach exStore := Reach.update _ _ _ _ (Reach.push _ _ _ _ Reach.init)
def cval : DState → Int
  | .counter v => v
  | _ => -1
example : exStore.snapshots.map (fun s => (s.sseq, cval s.snap)) = [(2, 5)] ∧
    exStore.userDocs.map (fun u => (u.ver, cval u.value)) = [(2, 5)] := by decide

open Orda.RestP in
/-- the USER-FACING document after a REST patch: once the snapshot job that the endpoint returned has run, the user-facing collection
    holds EXACTLY ONE document for (collection, key); its version is the new end of the log, its value the target; a snapshot record
    of that version with the same value exists (`RestP.Published`).  Named hypotheses beyond those of C19's stored-state theorem: the
    collection is found by its number, no stored snapshot lies beyond the end of the log (follows from `SnapInv`:
    `RestP.snap_bound_of_snapInv`; without it the job may SKIP and the user document stays stale — `RestP.updateSnapshot_skips`), the
    target differs from the current value -/
theorem rest_patch_publishes_target_to_user_collection
    (st : Store) (colName key tmpDuid tmpCuid : String) (col : CollectionDoc) (d : DatatypeDoc) (r0 : Replica) (ver : Nat)
    (hc : st.getCollection colName = some col) (hd : st.getDatatypeByKey col.num key = some d) (ht : d.typ = .document)
    (hl : st.latest d = some (r0, ver))
    (hinv : DP.DocInv { r0 with opId := { r0.opId with cuid := tmpCuid }, cp := ⟨ver, 0⟩ })
    (hlog : LogInv st) (hend : ver = d.sseqEnd) (hpos : 0 < ver)
    (hadmin : d.sub patchApiCuid false = none)
    (hhist : ∀ d0, r0.state = .doc d0 → DLR.HistOK d0)
    (hnum : st.collections.find? (fun c => c.num = col.num) = some col)
    (hsnapb : ∀ s ∈ st.snapshots, s.duid = d.duid → s.sseq ≤ d.sseqEnd)
    (tgt : List (String × JVal)) (hn : (JVal.obj tgt).hasNull = false) (hk : DC.JKeysND (.obj tgt))
    (hchg : ∀ d0, r0.state = .doc d0 → d0.view.canon ≠ (JVal.obj tgt).canon) :
    ∃ n, d.sseqEnd < n ∧
      Published (runJobs (st.patchDocument colName key (.obj tgt) tmpDuid tmpCuid).1
                         (st.patchDocument colName key (.obj tgt) tmpDuid tmpCuid).2.2.2) col key d.duid n (.obj tgt) :=
  patch_then_snapshot_job_publishes_target st colName key tmpDuid tmpCuid col d r0 ver hc hd ht hl hinv hlog hend hpos hadmin hhist
    hnum hsnapb tgt hn hk hchg

open Orda.RestP in
/-- … and for a document CREATED by the endpoint -/
theorem rest_patch_create_publishes_target_to_user_collection
    (st : Store) (colName key tmpDuid tmpCuid : String) (col : CollectionDoc)
    (hc : st.getCollection colName = some col) (hd : st.getDatatypeByKey col.num key = none)
    (hlog : LogInv st) (hfresh : st.getDatatype tmpDuid = none) (hsnap : ∀ s ∈ st.snapshots, s.duid ≠ tmpDuid)
    (hnum : st.collections.find? (fun c => c.num = col.num) = some col)
    (tgt : List (String × JVal)) (hn : (JVal.obj tgt).hasNull = false) (hk : DC.JKeysND (.obj tgt)) (hne : tgt ≠ []) :
    ∃ n, 2 ≤ n ∧
      Published (runJobs (st.patchDocument colName key (.obj tgt) tmpDuid tmpCuid).1
                         (st.patchDocument colName key (.obj tgt) tmpDuid tmpCuid).2.2.2) col key tmpDuid n (.obj tgt) :=
  patch_create_then_snapshot_job_publishes_target st colName key tmpDuid tmpCuid col hc hd hlog hfresh hsnap hnum tgt hn hk hne

open Orda.RestP in
/-- a snapshot job that finds a snapshot of the version reached writes NOTHING, neither snapshot nor user document -/
theorem snapshot_job_skips_when_version_exists {st : Store} {duid colName : String} {doc : DatatypeDoc} {r : Replica} {n : Nat}
    (hg : st.getDatatype duid = some doc) (hl : st.latest doc = some (r, n))
    (hex : st.snapshots.any (fun s => s.duid = duid ∧ s.sseq = n) = true) : st.updateSnapshot duid colName = st :=
  updateSnapshot_skips hg hl hex

end Orda.Props.C11
