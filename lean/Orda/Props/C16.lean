/-
C16 — Every request gets an answer; refused requests change nothing.
In the model a handler is a total function: there is no "no reply" or "crash" outcome left to
reach (the code paths that had them were repaired, see known_findings.json); what the theorems add
is the shape of the answer and that a refusal leaves the store untouched.
-/
import Orda.Proofs.ServerLog
namespace Orda.Props.C16
open Orda

/-- every pack — any bits, checkpoint, operations, ids — is answered by a pack for the same key that is
    either a well-formed error pack (exactly one error operation) or a normal pack -/
theorem every_pack_answered (st : Store) (cl : ClientDoc) (col : CollectionDoc) (p : Pack) :
    let r := (processPack st cl col p).resp
    r.key = p.key ∧ ((r.error = true ∧ ∃ code, r.ops = [⟨OpId.nil, .error code⟩]) ∨ r.error = false) :=
  always_answers st cl col p

theorem one_answer_per_pack (st : Store) (colName cuid : String) (packs resps : List Pack)
    (h : (st.processPushPull colName cuid packs).2.1 = .ok resps) : resps.map (·.key) = packs.map (·.key) :=
  Orda.one_answer_per_pack st colName cuid packs resps h

/-- a refused pack leaves the store exactly as it was -/
theorem refused_changes_nothing (st : Store) (cl : ClientDoc) (col : CollectionDoc) (p : Pack)
    (h : (processPack st cl col p).resp.error = true) : (processPack st cl col p).store = st :=
  refused_store_unchanged st cl col p h

/-- an RPC-level refusal (unknown collection, unregistered client, foreign collection) likewise -/
theorem rpc_refusal_changes_nothing (st : Store) (colName cuid : String) (packs : List Pack) (code : Nat)
    (h : (st.processPushPull colName cuid packs).2.1 = .rpcErr code) : (st.processPushPull colName cuid packs).1 = st :=
  rpcErr_store_unchanged st colName cuid packs code h

/-- the client survives an error response: it reports it and its datatype is exactly as before -/
theorem client_survives_error_pack (w : WDt) (p : Pack) (h : p.error = true) :
    (w.applyPack p).1 = w ∧ (w.applyPack p).2.2 = none ∧ ∃ c, (w.applyPack p).2.1 = [.errors [c]] := by
  unfold WDt.applyPack
  simp only [h, if_true]
  split <;> simp

end Orda.Props.C16
