/-
C19 — Patching a document to a target JSON yields exactly that JSON.
Pure half (proved): the edit script that the model of jsondiff generates, read on plain JSON trees with
the semantics patchEach gives each operation (put / insert / set / delete at a path), rewrites ANY
canonical source object into ANY canonical target object; values carried by the script are sub-values
of the target (no null appears if the target has none); chains compose.
Document half: the document-level execution of the script (Model/Patch.lean: path resolution on the
live tree, one transaction, rollback on error) is tied to the implementation by the correspondence
slices `patch` (PatchByJSON on documents reached by multi-replica histories; the jsondiff model against
the library on random tree pairs) and `rest` (REST endpoint with and without a stored snapshot); its
refinement to the plain reading (documents behave as plain trees without concurrency) is the C03
document lifting, not yet proved — named as the open part.  Atomicity is C09; other replicas: C01.
-/
import Orda.Proofs.PatchDiff
namespace Orda.Props.C19
open Orda

theorem edit_script_reaches_target (src tgt : List (String × JVal))
    (hs : (JVal.obj src).Canonical) (ht : (JVal.obj tgt).Canonical) :
    applyPatch (jsonDiff (.obj src) (.obj tgt)) (.obj src) = some (.obj tgt) := apply_diff src tgt hs ht

theorem no_script_iff_equal (src tgt : List (String × JVal))
    (hs : (JVal.obj src).Canonical) (ht : (JVal.obj tgt).Canonical) :
    jsonDiff (.obj src) (.obj tgt) = [] ↔ src = tgt := diff_nil_iff src tgt hs ht

theorem chains_compose (a b c : List (String × JVal)) (ha : (JVal.obj a).Canonical) (hb : (JVal.obj b).Canonical)
    (hc : (JVal.obj c).Canonical) :
    (applyPatch (jsonDiff (.obj a) (.obj b)) (.obj a)).bind (applyPatch (jsonDiff (.obj b) (.obj c))) = some (.obj c) :=
  apply_diff_chain a b c ha hb hc

/-- a target without nulls never makes the script carry a null (which the document calls refuse) -/
theorem script_carries_no_null (src tgt : JVal) (h : tgt.hasNull = false) :
    ∀ op ∈ jsonDiff src tgt, match op with
      | .add _ v => v.hasNull = false
      | .replace _ v => v.hasNull = false
      | .remove _ => True := diff_values_no_null src tgt h

/-- what the implementation diffs is the canonical (key-sorted) form of the current value and of the target -/
theorem canonical_forms (v : JVal) : v.canon.Canonical ∧ (v.Canonical → v.canon = v) :=
  ⟨canon_canonical v, canon_of_canonical v⟩

/-- the document-level patch is atomic by construction: several operations run inside one transaction
    (so C09 applies), and a failed patch returns a transaction error only after the rollback -/
theorem patch_of_nothing_is_noop (r : Replica) (d : Doc) (h : r.state = .doc d) : r.patch [] = (r, .ok ()) := by
  unfold Replica.patch; rw [h]

end Orda.Props.C19
