/-
C19 — Patching a document to a target JSON yields exactly that JSON.
Pure half: the edit script that the model of jsondiff generates, read on plain JSON trees with the semantics patchEach
gives each operation, rewrites ANY canonical source object into ANY canonical target object (PatchDiff).
Document half (DocPatch, on top of the refinement of documents to the plain JSON tree, DocPlain): for every reachable
single-replica document and every target object without nulls, `PatchByJSON` succeeds, the document's canonical JSON value
IS the target, and the script is applied as one atomic unit (nothing / one operation / one transaction unit announcing its
length).  Documents shaped by remote operations: `DP.DocInv` is kept by every applicable delivery (DocRemoteInv), so the theorems
hold in every state a replica reaches by public calls AND deliveries from the server log (`patchByJSON_in_any_reachable_state`).  Other replicas: C01; atomicity on
failure: C09.  REST endpoint (`Store.patchDocument`, Proofs/RestPatch, fourth round): answer = target, stored = answered, refusal and no-op change nothing; tie: correspondence slice `rest` (+ `Model/Rest`).
-/
import Orda.Proofs.PatchDiff
import Orda.Proofs.DocPatch
import Orda.Proofs.DocRemoteInv
import Orda.Proofs.DocTxNet
import Orda.Proofs.RestPatch
import Orda.Proofs.RestPatchCreate
import Orda.Proofs.TxNetCreate
namespace Orda.Props.C19
open Orda

theorem edit_script_reaches_target (src tgt : List (String × JVal))
    (hs : (JVal.obj src).Canonical) (ht : (JVal.obj tgt).Canonical) :
    applyPatch (jsonDiff (.obj src) (.obj tgt)) (.obj src) = some (.obj tgt) := apply_diff src tgt hs ht

theorem no_script_iff_equal (src tgt : List (String × JVal))
    (hs : (JVal.obj src).Canonical) (ht : (JVal.obj tgt).Canonical) :
    jsonDiff (.obj src) (.obj tgt) = [] ↔ src = tgt := diff_nil_iff src tgt hs ht

theorem chains_compose (a b c : List (String × JVal)) (ha : (JVal.obj a).Canonical) (hb : (JVal.obj b).Canonical)
    (hc : (JVal.obj c).Canonical) :
    (applyPatch (jsonDiff (.obj a) (.obj b)) (.obj a)).bind (applyPatch (jsonDiff (.obj b) (.obj c))) = some (.obj c) :=
  apply_diff_chain a b c ha hb hc

/-- a target without nulls never makes the script carry a null (which the document calls refuse) -/
theorem script_carries_no_null (src tgt : JVal) (h : tgt.hasNull = false) :
    ∀ op ∈ jsonDiff src tgt, match op with
      | .add _ v => v.hasNull = false
      | .replace _ v => v.hasNull = false
      | .remove _ => True := diff_values_no_null src tgt h

/-- what the implementation diffs is the canonical (key-sorted) form of the current value and of the target -/
theorem canonical_forms (v : JVal) : v.canon.Canonical ∧ (v.Canonical → v.canon = v) :=
  ⟨canon_canonical v, canon_of_canonical v⟩

/-- the document-level patch is atomic by construction: several operations run inside one transaction
    (so C09 applies), and a failed patch returns a transaction error only after the rollback -/
theorem patch_of_nothing_is_noop (r : Replica) (d : Doc) (h : r.state = .doc d) : r.patch [] = (r, .ok ()) := by
  unfold Replica.patch; rw [h]

/-! ### the document half -/

/-- THE statement of C19 for a replica: from every reachable document, for every target object without nulls,
    PatchByJSON succeeds and leaves the document's (canonical) JSON value equal to the target; the invariant is kept,
    so patches chain -/
theorem patchByJSON_yields_exactly_the_target (r : Replica) (d : Doc) (hs : r.state = .doc d) (h : DP.DocInv r)
    (tgt : List (String × JVal)) (hn : (JVal.obj tgt).hasNull = false) (hk : DC.JKeysND (.obj tgt)) :
    ∃ d', (r.patchByJSON (.obj tgt)).1.state = .doc d' ∧
      (r.patchByJSON (.obj tgt)).2.2 = .ok () ∧
      d'.view.canon = (JVal.obj tgt).canon ∧
      DP.DocInv (r.patchByJSON (.obj tgt)).1 :=
  DPatch.patchByJSON_reaches_target r d hs h tgt hn hk

/-- … as ONE atomic unit: nothing is queued when the document already equals the target, one operation for a
    one-operation script, otherwise one transaction unit that announces its own length (which a receiving replica
    applies completely or not at all: C09) -/
theorem patchByJSON_is_one_unit (r : Replica) (d : Doc) (hs : r.state = .doc d) (h : DP.DocInv r)
    (tgt : List (String × JVal)) (hn : (JVal.obj tgt).hasNull = false) (hk : DC.JKeysND (.obj tgt)) :
    let r' := (r.patchByJSON (.obj tgt)).1
    let n := (r.patchByJSON (.obj tgt)).2.1.length
    (n = 0 → r' = r) ∧
    (n = 1 → ∃ o, r'.buffer = r.buffer ++ [o] ∧ o.id = r.opId.next) ∧
    (2 ≤ n → ∃ tag body, r'.buffer = r.buffer ++ (⟨r.opId.next, .transaction tag (body.length + 1)⟩ :: body) ∧ body.length ≤ n) :=
  DPatch.patchByJSON_one_unit r d hs h tgt hn hk

/-- patching to the value the document already has does nothing -/
theorem patchByJSON_to_itself_is_noop (r : Replica) (d : Doc) (hs : r.state = .doc d) (h : DP.DocInv r) :
    (r.patchByJSON d.view).1 = r ∧ (r.patchByJSON d.view).2.1 = [] :=
  DPatch.patchByJSON_same_is_noop r d hs h

/-- "for any current document": in EVERY state a replica reaches by public calls and by deliveries of applicable remote
    operations (`DR.Life`: concurrent puts that win or lose, removes, array inserts/updates/deletes by other clients),
    PatchByJSON succeeds and the document's canonical JSON value is exactly the target -/
theorem patchByJSON_in_any_reachable_state (cuid : String) (create : Bool) (r : Replica) (hl : DR.Life cuid create r)
    (d : Doc) (hs : r.state = .doc d) (tgt : List (String × JVal)) (hn : (JVal.obj tgt).hasNull = false)
    (hk : DC.JKeysND (.obj tgt)) :
    ∃ d', (r.patchByJSON (.obj tgt)).1.state = .doc d' ∧
      (r.patchByJSON (.obj tgt)).2.2 = .ok () ∧
      d'.view.canon = (JVal.obj tgt).canon :=
  let ⟨d', h1, h2, h3, _⟩ := DPatch.patchByJSON_reaches_target r d hs (DR.docInv_life cuid create r hl) tgt hn hk
  ⟨d', h1, h2, h3⟩

/-! ### END TO END (`DTx`, Proofs/DocTxNet): n document replicas with pairwise distinct client ids and one server log; steps: any
public call, any user transaction, ANY PatchByJSON (targets without null), push of the whole pending buffer, pull of the whole rest of
the log through one `receive` — in any interleaving -/

open Orda.DTx in
/-- in EVERY reachable state of the system PatchByJSON on any replica succeeds and leaves that replica's JSON value equal to the target -/
theorem patchByJSON_reaches_target_anywhere (cuid : Nat → String) (n : Nat) (net : DNet.Net) (h : DTx.Reach cuid n net)
    (i : Nat) (nd : DNet.Node) (hi : net.nodes[i]? = some nd) (d : Doc) (hs : nd.r.state = .doc d)
    (tgt : List (String × JVal)) (hn : (JVal.obj tgt).hasNull = false) (hk : DC.JKeysND (.obj tgt)) :
    ∃ d', (nd.r.patchByJSON (.obj tgt)).1.state = .doc d' ∧ (nd.r.patchByJSON (.obj tgt)).2.2 = .ok () ∧
      d'.view.canon = (JVal.obj tgt).canon :=
  dtx_patch_reaches_target h hi hs tgt hn hk

open Orda.DTx Orda.DA in
/-- "the operations it emits bring every other replica to the same value": after a patch on replica i, once everything is pushed
    and pulled (only syncs follow) ALL replicas show one JSON value; and when no operation of another replica was concurrent to the
    patch (`NoConc`: replica i had consumed the whole log, the others had nothing pending) that value IS the target.  (With concurrent
    operations the common value merges them — `DTx.Ex` — which is what C01 promises, not the target.) -/
theorem patch_brings_every_replica_to_the_same_value (cuid : Nat → String) (n : Nat) (net : DNet.Net) (h : DTx.Reach cuid n net)
    (i : Nat) (nd : DNet.Node) (hi : net.nodes[i]? = some nd) (tgt : List (String × JVal))
    (hn : (JVal.obj tgt).hasNull = false) (hk : DC.JKeysND (.obj tgt)) (net1 net2 : DNet.Net)
    (h1 : net1 = ⟨net.nodes.set i { r := (nd.r.patchByJSON (.obj tgt)).1, pushed := nd.pushed, pulled := nd.pulled }, net.log⟩)
    (hsync : Syncs net1 net2) (hq : DNet.Quiescent net2) :
    (∀ (j k : Nat) (dj dk : Doc), DNet.Holds net2 j dj → DNet.Holds net2 k dk → ASim dj dk ∧ dj.view.canon = dk.view.canon) ∧
    (NoConc net i → ∀ (j : Nat) (dj : Doc), DNet.Holds net2 j dj → dj.view.canon = (JVal.obj tgt).canon) := by
  obtain ⟨_, _, hall, hno⟩ := dtx_patch_propagates h hi tgt hn hk h1 hsync hq
  exact ⟨hall, fun hc j dj hj => (hno hc j dj hj).1⟩

/-! ## The REST endpoint itself (`Store.patchDocument` = server/service/service_patch_document.go), fourth round -/

/-- the ANSWER of the endpoint: for an existing document whose rebuilt latest state satisfies the replica invariant, and any target
    object without nulls and duplicate keys, the endpoint answers OK with the target -/
theorem rest_patch_answers_the_target
    (st : Store) (colName key tmpDuid tmpCuid : String) (col : CollectionDoc) (d : DatatypeDoc) (r0 : Replica) (ver : Nat)
    (hc : st.getCollection colName = some col) (hd : st.getDatatypeByKey col.num key = some d) (ht : d.typ = .document)
    (hl : st.latest d = some (r0, ver))
    (hinv : DP.DocInv { r0 with opId := { r0.opId with cuid := tmpCuid }, cp := ⟨ver, 0⟩ })
    (tgt : List (String × JVal)) (hn : (JVal.obj tgt).hasNull = false) (hk : DC.JKeysND (.obj tgt)) :
    ∃ v, (st.patchDocument colName key (.obj tgt) tmpDuid tmpCuid).2.1 = .ok v ∧ v.canon = (JVal.obj tgt).canon :=
  RestP.patchDocument_answers_target st colName key tmpDuid tmpCuid col d r0 ver hc hd ht hl hinv tgt hn hk

/-- … also when the key does not exist yet (the document is created) -/
theorem rest_patch_creates_the_target
    (st : Store) (colName key tmpDuid tmpCuid : String) (col : CollectionDoc)
    (hc : st.getCollection colName = some col) (hd : st.getDatatypeByKey col.num key = none)
    (tgt : List (String × JVal)) (hn : (JVal.obj tgt).hasNull = false) (hk : DC.JKeysND (.obj tgt)) :
    ∃ v, (st.patchDocument colName key (.obj tgt) tmpDuid tmpCuid).2.1 = .ok v ∧ v.canon = (JVal.obj tgt).canon :=
  RestP.patchDocument_creates_target st colName key tmpDuid tmpCuid col hc hd tgt hn hk

/-- the STORE after the call: the latest state rebuilt from what the endpoint stored (newest snapshot + the stored operations after
    it, applied as remote operations) has the target as its value — "what was answered is what was stored".  Named hypotheses: the log
    invariant of C06, the rebuilt state stands at the end of a NON-EMPTY log (`hpos`: without it the statement is false —
    `RestP.Ex.emptyLog_not_stored`: a document record with an empty log makes the endpoint answer OK and store nothing), nobody is
    recorded under the endpoint's administrative client id, arrays have causal insertion histories (kept by every call and delivery:
    `DLR.histOK_life`).  That the push is ACCEPTED is proved, not assumed (`RestP.processPack_admin`). -/
theorem rest_patch_stores_what_it_answers
    (st : Store) (colName key tmpDuid tmpCuid : String) (col : CollectionDoc) (d : DatatypeDoc) (r0 : Replica) (ver : Nat)
    (hc : st.getCollection colName = some col) (hd : st.getDatatypeByKey col.num key = some d) (ht : d.typ = .document)
    (hl : st.latest d = some (r0, ver))
    (hinv : DP.DocInv { r0 with opId := { r0.opId with cuid := tmpCuid }, cp := ⟨ver, 0⟩ })
    (hlog : LogInv st) (hend : ver = d.sseqEnd) (hpos : 0 < ver)
    (hadmin : d.sub patchApiCuid false = none)
    (hhist : ∀ d0, r0.state = .doc d0 → DLR.HistOK d0)
    (tgt : List (String × JVal)) (hn : (JVal.obj tgt).hasNull = false) (hk : DC.JKeysND (.obj tgt)) :
    ∃ d' r' ver', (st.patchDocument colName key (.obj tgt) tmpDuid tmpCuid).1.getDatatypeByKey col.num key = some d' ∧
      (st.patchDocument colName key (.obj tgt) tmpDuid tmpCuid).1.latest d' = some (r', ver') ∧
      (∃ dd, r'.state = .doc dd ∧ dd.view.canon = (JVal.obj tgt).canon) :=
  RestP.patchDocument_stores_target st colName key tmpDuid tmpCuid col d r0 ver hc hd ht hl hinv hlog hend hpos hadmin hhist tgt hn hk

/-- a refused patch (unknown collection, a key of another type, a target the document refuses) changes nothing in the store -/
theorem rest_patch_refusal_changes_nothing (st : Store) (colName key : String) (target : JVal) (tmpDuid tmpCuid : String)
    (code : Nat) (h : (st.patchDocument colName key target tmpDuid tmpCuid).2.1 = .rpcErr code) :
    (st.patchDocument colName key target tmpDuid tmpCuid).1 = st :=
  RestP.patchDocument_refusal_changes_nothing st colName key target tmpDuid tmpCuid code h

/-- patching to the value the document already has stores nothing, announces nothing, starts no snapshot update -/
theorem rest_patch_to_current_value_is_silent
    (st : Store) (colName key tmpDuid tmpCuid : String) (col : CollectionDoc) (d : DatatypeDoc) (r0 : Replica) (ver : Nat)
    (dd : Doc)
    (hc : st.getCollection colName = some col) (hd : st.getDatatypeByKey col.num key = some d) (ht : d.typ = .document)
    (hl : st.latest d = some (r0, ver)) (hs : r0.state = .doc dd)
    (hinv : DP.DocInv { r0 with opId := { r0.opId with cuid := tmpCuid }, cp := ⟨ver, 0⟩ }) :
    (st.patchDocument colName key dd.view tmpDuid tmpCuid).1 = st ∧
    (st.patchDocument colName key dd.view tmpDuid tmpCuid).2.2.1 = [] ∧
    (st.patchDocument colName key dd.view tmpDuid tmpCuid).2.2.2 = [] :=
  RestP.patchDocument_same_is_silent st colName key tmpDuid tmpCuid col d r0 ver dd hc hd ht hl hs hinv

/-- the CREATED-document case in full: on an absent key, with a fresh random id and a non-empty target, the endpoint answers the
    target, stores the creation snapshot operation and the patch unit as operations 1..n of a new document record, announces the new
    end of the log once, starts one snapshot update, and the latest state rebuilt from the store has the target as its value -/
theorem rest_patch_creates_and_stores_the_target
    (st : Store) (colName key tmpDuid tmpCuid : String) (col : CollectionDoc)
    (hc : st.getCollection colName = some col) (hd : st.getDatatypeByKey col.num key = none)
    (hlog : LogInv st) (hfresh : st.getDatatype tmpDuid = none) (hsnap : ∀ s ∈ st.snapshots, s.duid ≠ tmpDuid)
    (tgt : List (String × JVal)) (hn : (JVal.obj tgt).hasNull = false) (hk : DC.JKeysND (.obj tgt)) (hne : tgt ≠ []) :
    ∃ (st' : Store) (v : JVal) (n : Nat) (nd : List OpDoc) (r' : Replica),
      st.patchDocument colName key (.obj tgt) tmpDuid tmpCuid =
        (st', .ok v, [⟨col.name ++ "/" ++ key, patchApiCuid, tmpDuid, n⟩], [(tmpDuid, col.num)]) ∧
      v.canon = (JVal.obj tgt).canon ∧ 2 ≤ n ∧
      st'.operations = st.operations ++ nd ∧ nd.length = n ∧ (∀ o ∈ nd, o.duid = tmpDuid ∧ o.colNum = col.num) ∧
      nd.map (·.sseq) = List.range' 1 n ∧
      st'.getDatatypeByKey col.num key =
        some { duid := tmpDuid, key := key, colNum := col.num, typ := .document, sseqEnd := n } ∧
      st'.latest { duid := tmpDuid, key := key, colNum := col.num, typ := .document, sseqEnd := n } = some (r', n) ∧
      (∃ dd, r'.state = .doc dd ∧ dd.view.canon = (JVal.obj tgt).canon) :=
  RestP.patchDocument_creates_and_stores_target st colName key tmpDuid tmpCuid col hc hd hlog hfresh hsnap tgt hn hk hne

/-- … and the empty object on an absent key: answered OK `{}`, NOTHING is stored — the document is not created (the model's, and by
    the `rest` correspondence the implementation's, behaviour, stated exactly) -/
theorem rest_patch_empty_target_on_absent_key_creates_nothing
    (st : Store) (colName key tmpDuid tmpCuid : String) (col : CollectionDoc)
    (hc : st.getCollection colName = some col) (hd : st.getDatatypeByKey col.num key = none) :
    st.patchDocument colName key (.obj []) tmpDuid tmpCuid = (st, .ok (.obj []), [], []) :=
  RestP.patchDocument_create_empty_target_stores_nothing st colName key tmpDuid tmpCuid col hc hd

open Orda.DNet Orda.DTx Orda.TxNetC in
/-- in EVERY reachable state of the system that starts with a creating client, PatchByJSON on any node succeeds and yields the target -/
theorem patchByJSON_reaches_target_anywhere_created {cuid : Nat → String} {n : Nat} {net : Net} (h : ReachC cuid n net) {i : Nat}
    {nd : Node} (hi : net.nodes[i]? = some nd) {d : Doc} (hd : nd.r.state = .doc d) (tgt : List (String × JVal))
    (hn : (JVal.obj tgt).hasNull = false) (hk : DC.JKeysND (.obj tgt)) :
    ∃ d', (nd.r.patchByJSON (.obj tgt)).1.state = .doc d' ∧ (nd.r.patchByJSON (.obj tgt)).2.2 = .ok () ∧
      d'.view.canon = (JVal.obj tgt).canon :=
  created_dtx_patch_reaches_target_anywhere h hi hd tgt hn hk

end Orda.Props.C19
