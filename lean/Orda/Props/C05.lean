/-
C05 — Clients that sync through the server end up identical to each other and to it.
The protocol LTS `PStep` (Proofs/Protocol) is built from the model's own `pushOps` (server) and
`newForeignOps` (client) and lets the network use any request or response ever sent any number of
times, in any order, or never.  Composition with C01 (same operations ⇒ same state) and with the
server's rebuild (`Store.latest` applies the log as remote operations) gives equal states.
-/
import Orda.Proofs.Protocol
import Orda.Proofs.ProtocolJoin
import Orda.Proofs.DocNet
import Orda.Proofs.ServerRefine
import Orda.Proofs.ServerRefineJoin
namespace Orda.Props.C05
open Orda

/-- in every reachable state, for every client: its stored operations are the acknowledged prefix of
    its buffer in order (J1); its checkpoint is within the log and counts its own operations there (J2);
    and it has applied each other client's operation up to its checkpoint EXACTLY ONCE, IN LOG ORDER (J3) -/
theorem exactly_once_in_log_order {cuids : List String} {S : PSys} (h : PReach cuids S) : ∀ cl ∈ S.clients,
    S.log.filter (fun o => o.id.cuid = cl.cuid) = cl.buf.take (S.recOf cl.cuid).cseq ∧
    cl.cp.sseq ≤ S.log.length ∧
    ((S.log.take cl.cp.sseq).filter (fun o => o.id.cuid = cl.cuid)).length = cl.cp.cseq ∧
    cl.cp.cseq ≤ (S.recOf cl.cuid).cseq ∧ (S.recOf cl.cuid).cseq ≤ cl.buf.length ∧
    cl.applied = (S.log.take cl.cp.sseq).filter (fun o => o.id.cuid ≠ cl.cuid) :=
  proto_inv_client h

/-- once every client has synced with nothing left to push or pull, every client holds every operation
    of the log exactly once: the foreign ones applied in log order, its own in issue order -/
theorem quiescent_all_have_all {cuids : List String} {S : PSys} (h : PReach cuids S)
    (hq : ∀ cl ∈ S.clients, cl.cp.sseq = S.log.length ∧ cl.cp.cseq = cl.buf.length) :
    ∀ cl ∈ S.clients, (cl.applied ++ cl.buf).Perm S.log ∧
      cl.applied = S.log.filter (fun o => o.id.cuid ≠ cl.cuid) ∧
      cl.buf = S.log.filter (fun o => o.id.cuid = cl.cuid) :=
  fun cl hcl => ⟨quiescent_converged h hq cl hcl, quiescent_converged_order h hq cl hcl⟩

/-- a client's checkpoint never moves backwards, whatever is delivered in whatever order -/
theorem client_checkpoint_monotone {S S' : PSys} (st : PStep S S') :
    ∀ (i : Nat) (cl : PClient), S.clients[i]? = some cl →
      ∃ cl', S'.clients[i]? = some cl' ∧ cl'.cuid = cl.cuid ∧
        cl.cp.sseq ≤ cl'.cp.sseq ∧ cl.cp.cseq ≤ cl'.cp.cseq :=
  checkpoint_monotone st

/-- neither do the server's records, and the log is append-only -/
theorem server_records_monotone {S S' : PSys} (inv : PInv S) (st : PStep S S') :
    (∀ u, (S.recOf u).sseq ≤ (S'.recOf u).sseq ∧ (S.recOf u).cseq ≤ (S'.recOf u).cseq) ∧
    ∃ acc, S'.log = S.log ++ acc :=
  server_monotone inv st

/-- the log holds exactly the issued-and-acknowledged operations, each once -/
theorem log_exactly_the_pushed {cuids : List String} {S : PSys} (h : PReach cuids S) :
    (∀ o, o ∈ S.log ↔ ∃ cl ∈ S.clients, o ∈ cl.buf.take (S.recOf cl.cuid).cseq) ∧ S.log.Nodup :=
  ⟨log_is_exactly_issued h, log_nodup h⟩

/-- late joiners: when every joined client's checkpoint is at the end of the log and nothing is left to
    push, every joined client — whenever and through whatever duplicated/delayed subscribe exchange it
    joined — has applied all foreign operations of the log in log order and holds every operation once -/
theorem late_joiners_converge {cuids : List (String × Bool)} {S : JSys} (h : JReach cuids S)
    (hq : ∀ cl ∈ S.clients, cl.joined = true →
      cl.base.cp.sseq = S.log.length ∧ cl.base.cp.cseq = cl.base.buf.length) :
    ∀ cl ∈ S.clients, cl.joined = true →
      cl.base.applied = S.log.filter (fun o => o.id.cuid ≠ cl.base.cuid) ∧
      cl.base.buf = S.log.filter (fun o => o.id.cuid = cl.base.cuid) ∧
      (cl.base.applied ++ cl.base.buf).Perm S.log :=
  join_quiescent_converged h hq

/-- the log is exactly what joined clients issued after their join, each once, per client in issue order -/
theorem log_is_exactly_issued_with_late_joiners {cuids : List (String × Bool)} {S : JSys} (h : JReach cuids S) :
    (∀ o, o ∈ S.log ↔ ∃ cl ∈ S.clients, cl.joined = true ∧ o ∈ cl.base.buf.take (S.recOf cl.base.cuid).cseq) ∧
    (S.log.map (fun o => (o.id.cuid, o.id.seq))).Nodup ∧
    (∀ cl ∈ S.clients, S.log.filter (fun o => o.id.cuid = cl.base.cuid) =
      if cl.joined then cl.base.buf.take (S.recOf cl.base.cuid).cseq else []) :=
  join_log_is_exactly_issued h

/-! ### documents: clients that sync through one log hold the same document — and so does a passive copy
`DNet` (Proofs/DocNet): n replicas and one server log, any interleaving of calls, pushes and pulls.  A node that never
calls and only pulls IS the copy the server rebuilds from its stored log (`Replica.new` + the log's operations in order). -/

open Orda.DNet Orda.DA in
/-- once every client has synced with nothing left to push or pull, all clients — and a passive node that only
    replayed the log, i.e. the server's rebuilt copy — hold `ASim`-equal documents with the same JSON value -/
theorem doc_clients_and_server_copy_identical (cuid : Nat → String) (n : Nat) (net : Net) (h : Reach cuid n net)
    (hq : Quiescent net) (i j : Nat) (hi : i < net.nodes.length) (hj : j < net.nodes.length) (di dj : Doc)
    (hsi : net.nodes[i].r.state = .doc di) (hsj : net.nodes[j].r.state = .doc dj) :
    ASim di dj ∧ di.view.canon = dj.view.canon :=
  net_quiescent_converged net h hq i j hi hj di dj hsi hsj

open Orda.DNet Orda.DA in
/-- two clients that are both caught up (everything of their own pushed, the whole log pulled) agree already,
    whatever the other clients still hold back -/
theorem doc_caught_up_clients_identical (cuid : Nat → String) (n : Nat) (net : Net) (h : Reach cuid n net)
    (i j : Nat) (hi : i < net.nodes.length) (hj : j < net.nodes.length) (di dj : Doc)
    (hsi : net.nodes[i].r.state = .doc di) (hsj : net.nodes[j].r.state = .doc dj) (hso : SameOps net i j) :
    ASim di dj ∧ di.view.canon = dj.view.canon :=
  net_same_operations_same_document net h i j hi hj di dj hsi hsj hso

open Orda.SRef in
/-- THE REFINEMENT: every run of the STORE-LEVEL server (`processPack` of Model/Server on a real `Store`, requests cut from the
    clients' buffers, any request served any number of times, any response delivered late, repeatedly or never, other
    datatypes' traffic and snapshot/collection/client bookkeeping in between) is a run of the protocol system `PSys` under the
    abstraction (log of the datatype in store order, recorded checkpoints) — so every `PReach` theorem of this file and of C07 is a
    theorem about the store -/
theorem store_runs_are_protocol_runs {tg : Target} {cuids : List String} {T0 T : SSys}
    (g0 : SRef.Good tg T0) (h0 : PReach cuids (T0.abs tg)) (run : SRun tg T0 T) :
    SRef.Good tg T ∧ PReach cuids (T.abs tg) :=
  store_run_simulates_protocol g0 h0 run

open Orda.SRef in
/-- … from any store in which the datatype exists with an empty log and no recorded client -/
theorem store_runs_are_protocol_runs_from_fresh {tg : Target} {cuids : List String} {st0 : Store} {T : SSys} (hnd : cuids.Nodup)
    (g0 : SRef.Good tg (SSys.init st0 cuids)) (hl : absLog st0 tg.duid = []) (hc : absCps st0 tg.duid = [])
    (run : SRun tg (SSys.init st0 cuids) T) : SRef.Good tg T ∧ PReach cuids (T.abs tg) :=
  store_run_from_fresh hnd g0 hl hc run

open Orda.SRef in
/-- transferred to the store: the STORED log of the datatype (read back in sequence order) holds every acknowledged operation of
    every client exactly once, per client in issue order, and each client has applied exactly the others' operations up to its
    checkpoint, in log order -/
theorem stored_log_exactly_once {tg : Target} {cuids : List String} {T0 T : SSys}
    (g0 : SRef.Good tg T0) (h0 : PReach cuids (T0.abs tg)) (run : SRun tg T0 T) :
    let log := (T.st.opsOf tg.duid).map (·.op)
    (T.st.getOperations tg.duid 1).map (·.op) = log ∧
    (log.map (fun o => (o.id.cuid, o.id.seq))).Nodup ∧
    (∀ o, o ∈ log ↔ ∃ cl ∈ T.clients, o ∈ cl.buf.take (absRec T.st tg.duid cl.cuid).cseq) ∧
    ∀ cl ∈ T.clients,
      log.filter (fun o => o.id.cuid = cl.cuid) = cl.buf.take (absRec T.st tg.duid cl.cuid).cseq ∧
      cl.applied = (log.take cl.cp.sseq).filter (fun o => o.id.cuid ≠ cl.cuid) :=
  store_log_exactly_once g0 h0 run

open Orda.SRef Orda.SRefJ in
/-- THE REFINEMENT, ENTRY PHASE INCLUDED: runs of the store-level server in which clients CREATE the datatype (first request on the
    key, create or subscribe-or-create pack), SUBSCRIBE to it late under their own random datatype id (answered under the stored id),
    re-send their create pack, and push/pull — starting from a store in which neither the id nor the key exists — are `JReach` runs of
    the protocol with late joiners -/
theorem store_runs_from_scratch_are_protocol_runs {tg : TargetJ} {cs : List (String × Bool)} {st0 : Store} {T : SSysJ}
    (hnd : (cs.map (·.1)).Nodup) (inv : LogInv st0) (ku : KeyUnique st0)
    (hid : st0.getDatatype tg.duid = none) (hkey : st0.getDatatypeByKey tg.col.num tg.key = none)
    (run : SRunJ tg (SSysJ.init st0 cs) T) : GoodJ tg T ∧ JReach cs (T.abs tg) :=
  store_run_from_scratch hnd inv ku hid hkey run

open Orda.SRef Orda.SRefJ in
/-- transferred to the store, late joiners included: the stored log is exactly what joined clients issued and were acknowledged for,
    each operation once, per client in issue order; a client that has not joined has nothing stored; every client has applied exactly
    the others' operations up to its checkpoint, in log order -/
theorem stored_log_exactly_once_with_late_joiners {tg : TargetJ} {cuids : List (String × Bool)} {T0 T : SSysJ}
    (g0 : GoodJ tg T0) (h0 : JReach cuids (T0.abs tg)) (run : SRunJ tg T0 T) :
    let log := (T.st.opsOf tg.duid).map (·.op)
    (T.st.getOperations tg.duid 1).map (·.op) = log ∧
    (∀ o, o ∈ log ↔ ∃ cl ∈ T.clients, cl.joined = true ∧
      o ∈ cl.base.buf.take (absRec T.st tg.duid cl.base.cuid).cseq) ∧
    (log.map (fun o => (o.id.cuid, o.id.seq))).Nodup ∧
    (∀ cl ∈ T.clients, log.filter (fun o => o.id.cuid = cl.base.cuid) =
      if cl.joined then cl.base.buf.take (absRec T.st tg.duid cl.base.cuid).cseq else []) ∧
    (∀ cl ∈ T.clients, cl.base.applied = (log.take cl.base.cp.sseq).filter (fun o => o.id.cuid ≠ cl.base.cuid)) :=
  store_log_with_late_joiners g0 h0 run

end Orda.Props.C05
