/-
C01 — Replicas of a datatype converge once they have the same operations.
-/
import Orda.Proofs.MapCounter
import Orda.Proofs.Rga
namespace Orda.Props.C01
open Orda

/-- map: two replicas that applied the same operations, each in a causal order, agree on every key
    and on Size — for every history and every pair of delivery schedules -/
theorem map_converges (ops ops' : List Op) (hp : ops.Perm ops') (hc : MapCausal ops) (hc' : MapCausal ops')
    (hd : DistinctTs ops) :
    (∀ k, (mapApplyAll LwwMap.empty ops).get k = (mapApplyAll LwwMap.empty ops').get k) ∧
    (mapApplyAll LwwMap.empty ops).size = (mapApplyAll LwwMap.empty ops').size :=
  map_converge ops ops' hp hc hc' hd

/-- the JSON view of a well-formed map is determined by `get` (so equal reads give equal views) -/
theorem map_view_from_reads (m : LwwMap) (h : m.WF) (k : String) : alFind k m.live = m.get k :=
  live_lookup m h k

theorem map_wf_reachable (ops : List Op) : (mapApplyAll LwwMap.empty ops).WF := by
  unfold mapApplyAll
  have : ∀ (l : List Op) (m : LwwMap), m.WF → (l.foldl mapApply m).WF := by
    intro l
    induction l with
    | nil => intro m h; exact h
    | cons o l ih => intro m h; exact ih _ (wf_mapApply m o h)
  exact this ops _ wf_empty

/-- counter: any two orders of the same increments give the same value -/
theorem counter_converges (ops ops' : List Op) (hp : ops.Perm ops') :
    ops.foldl counterApply 0 = ops'.foldl counterApply 0 :=
  counter_converge ops ops' hp

/-- list: two replicas that applied the same insert operations, each in ANY causal order (batches of
    any length, any interleaving the server log order allows), hold the same sequence of elements -/
theorem list_converges (ops ops' : List InsOp) (hp : ops.Perm ops') (hc : InsCausal ops) (hc' : InsCausal ops') :
    (Rga.empty.applyAllIns ops).ids = (Rga.empty.applyAllIns ops').ids :=
  rga_converge ops ops' hp hc hc'

end Orda.Props.C01
