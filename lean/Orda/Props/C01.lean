/-
C01 — Replicas of a datatype converge once they have the same operations.
-/
import Orda.Proofs.MapCounter
import Orda.Proofs.Rga
import Orda.Proofs.RgaFull
import Orda.Proofs.DocConv
import Orda.Proofs.DocArr
import Orda.Proofs.DocMixed
import Orda.Proofs.DocCausal
import Orda.Proofs.DocLocalRemote
import Orda.Proofs.DocNet
import Orda.Proofs.ListNet
import Orda.Proofs.MapNet
import Orda.Proofs.DocNetCreate
import Orda.Proofs.FlatNetCreate
namespace Orda.Props.C01
open Orda

/-- map: two replicas that applied the same operations, each in a causal order, agree on every key
    and on Size — for every history and every pair of delivery schedules -/
theorem map_converges (ops ops' : List Op) (hp : ops.Perm ops') (hc : MapCausal ops) (hc' : MapCausal ops')
    (hd : DistinctTs ops) :
    (∀ k, (mapApplyAll LwwMap.empty ops).get k = (mapApplyAll LwwMap.empty ops').get k) ∧
    (mapApplyAll LwwMap.empty ops).size = (mapApplyAll LwwMap.empty ops').size :=
  map_converge ops ops' hp hc hc' hd

/-- the JSON view of a well-formed map is determined by `get` (so equal reads give equal views) -/
theorem map_view_from_reads (m : LwwMap) (h : m.WF) (k : String) : alFind k m.live = m.get k :=
  live_lookup m h k

theorem map_wf_reachable (ops : List Op) : (mapApplyAll LwwMap.empty ops).WF := by
  unfold mapApplyAll
  have : ∀ (l : List Op) (m : LwwMap), m.WF → (l.foldl mapApply m).WF := by
    intro l
    induction l with
    | nil => intro m h; exact h
    | cons o l ih => intro m h; exact ih _ (wf_mapApply m o h)
  exact this ops _ wf_empty

/-- counter: any two orders of the same increments give the same value -/
theorem counter_converges (ops ops' : List Op) (hp : ops.Perm ops') :
    ops.foldl counterApply 0 = ops'.foldl counterApply 0 :=
  counter_converge ops ops' hp

/-- list: two replicas that applied the same insert operations, each in ANY causal order (batches of
    any length, any interleaving the server log order allows), hold the same sequence of elements -/
theorem list_converges (ops ops' : List InsOp) (hp : ops.Perm ops') (hc : InsCausal ops) (hc' : InsCausal ops') :
    (Rga.empty.applyAllIns ops).ids = (Rga.empty.applyAllIns ops').ids :=
  rga_converge ops ops' hp hc hc'

/-! ### list: FULL state, inserts + updates + deletes mixed -/

/-- the list operations of the wire, as `LOp` (an insert without target timestamp is malformed) -/
def toLOp (o : Op) : Option LOp :=
  match o.body with
  | .insert _ (some a) vs => some (.ins a o.id.ts vs)
  | .delete _ _ tg => some (.del tg o.id.ts)
  | .update _ tg vs => some (.upd tg vs o.id.ts)
  | _ => none

/-- `Rga.applyL` IS what the replica's remote execution (`Replica.execRemoteBase`, used by every receive
    and replay path) does to a list state -/
theorem replica_remote_exec_is_applyL (r : Replica) (l : Rga) (o : Op) (lo : LOp)
    (hs : r.state = .list l) (ho : toLOp o = some lo) :
    (r.execRemoteBase o).1.state = .list (l.applyL lo) := by
  unfold toLOp at ho
  unfold Replica.execRemoteBase
  rcases o with ⟨id, body⟩
  cases body <;> simp only [reduceCtorEq] at ho
  case insert p t vs =>
    cases t with
    | none => simp at ho
    | some a =>
      simp only [Option.some.injEq] at ho; subst ho
      simp only [hs, execRemote, Rga.applyL]
      cases l.insertRemote a id.ts vs <;> simp
  case delete p n tg =>
    simp only [Option.some.injEq] at ho; subst ho
    simp [hs, execRemote, Rga.applyL]
  case update p tg vs =>
    simp only [Option.some.injEq] at ho; subst ho
    simp only [hs, execRemote, Rga.applyL]
    cases l.updateRemote tg vs id.ts <;> simp

/-- list, full strength: two replicas that applied the same inserts, updates and deletes, each in ANY
    causal order, hold the same nodes — same order, same values, same value timestamps, same tombstones —
    and the same Size -/
theorem list_full_state_converges (ops ops' : List LOp) (hp : ops.Perm ops') (hc : LCausal ops) (hc' : LCausal ops') :
    Rga.empty.applyAllL ops = Rga.empty.applyAllL ops' :=
  rga_full_converge_state ops ops' hp hc hc'

/-- Size is the number of live elements in every reachable list state -/
theorem list_size_is_live_count (ops : List LOp) (hc : LCausal ops) :
    (Rga.empty.applyAllL ops).size = RF.liveCount (Rga.empty.applyAllL ops).nodes :=
  RF.size_eq_liveCount ops hc

/-! ### document: object operations (put / remove at any object node, values of any nesting depth) -/

open Orda.DC in
/-- the replica's remote execution of a document put/remove IS `DC.applyOp` -/
theorem replica_remote_exec_is_doc_applyOp {d : Doc} (hwf : d.WF) {p : Ts} {k : String} {v : JVal} {ts : Ts}
    (hput : OpOK d (.put p k v ts)) :
    execRemote (.doc d) ts (.docPut p k v) = .ok (.doc (applyOp d (.put p k v ts))) := execRemote_put hwf hput

open Orda.DC in
/-- document, object operations: two replicas that apply the same puts/removes (any parents, any keys, any
    nesting of the values; distinct timestamps, fresh ids, removes of keys that exist) in ANY order reach
    `Sim`-equal node tables — equal parents, shapes, container tombstones, per-key LWW state and sizes; what
    `Sim` forgets is invisible (order of keys inside an object's association list, the deletion stamp and
    identity of nodes no longer referenced) — … -/
theorem doc_object_ops_converge {d : Doc} {l l' : List ObjOp} (hp : l.Perm l') (h : DC.Good d l) :
    Sim (applyAll d l) (applyAll d l') := converge_sim hp h h (sim_equivalence.refl d)

open Orda.DC in
/-- … and show the same JSON value (objects compared as key-sorted, which is how the Go side marshals maps) -/
theorem doc_object_ops_same_view {d : Doc} {l l' : List ObjOp} (hp : l.Perm l') (h : DC.Good d l) (hv : ViewOK d)
    (hk : ∀ o ∈ l, OpKeysND o) : (applyAll d l).view.canon = (applyAll d l').view.canon :=
  converge_view hp h hv hk

open Orda.DC in
/-- operations on different parents commute exactly (identical node lookup, identical view) -/
theorem doc_ops_on_different_parents_commute {d : Doc} {l l' : List ObjOp} (hp : l.Perm l') (h : DC.Good d l)
    (hpar : l.Pairwise (fun a b => a.parent ≠ b.parent)) :
    DocEq (applyAll d l) (applyAll d l') ∧ (applyAll d l).view = (applyAll d l').view :=
  converge_docEq_diff_parents hp h hpar

/-- the hypotheses are met by the empty document -/
theorem doc_empty_ready : Doc.empty.WF ∧ DC.ViewOK Doc.empty := ⟨DC.wf_doc_empty, DC.viewOK_empty⟩

/-! ### document: array operations (insert / update / delete on any array node, nested values, batches) -/

open Orda.DA Orda.DC in
/-- document arrays: two replicas that apply the same remote array operations (single- and multi-target,
    values of any nesting depth, on any arrays of the document) in ANY order reach `ASim`-equal node tables
    (`DC.Sim` with the creation id of a slot's child erased — which child node carries a slot's tombstone is
    not observable) and show the same JSON value -/
theorem doc_array_ops_converge {d : Doc} {L L' : List AOp} (hp : L.Perm L') (h : GoodE d (L.flatMap flat))
    (hb : ∀ op ∈ L, BatchOK op) :
    ASim (applyAllA d L) (applyAllA d L') ∧
      (ViewOK d → (∀ e ∈ L.flatMap flat, EKeysND e) →
        (applyAllA d L).view.canon = (applyAllA d L').view.canon) := arr_converge hp h hb

open Orda.DA in
/-- … and the ORDER of an array's slots is the RGA order of the inserts into it, for every causal arrival
    order (by reduction to `rga_converge`; holds also when operations create the slots later ones address) -/
theorem doc_array_order_converges (d : Doc) (p : Ts) (M0 : List AIns) (ops ops' : List AOp) (hperm : ops.Perm ops')
    (hp : (d.findArr p).isSome) (hk : ∀ o ∈ ops, p.key ≠ o.ts.key)
    (hbase : slotIds d p = foldIds [] M0)
    (hc : ACausal (M0 ++ ops.filterMap (insOn p))) (hc' : ACausal (M0 ++ ops'.filterMap (insOn p))) :
    slotIds (applyAllA d ops) p = slotIds (applyAllA d ops') p :=
  arr_order_converge d p M0 ops ops' hperm hp hk hbase hc hc'

/-! ### document: object AND array operations mixed (what a real document history is) -/

open Orda.DM Orda.DA Orda.DC in
/-- documents, full: two replicas that apply the same remote document operations — puts and removes on any object
    nodes, inserts, deletes and updates (single- and multi-target) on any array nodes, values of any nesting depth —
    in ANY two orders reach `ASim`-equal node tables and show the same JSON value.  `GoodD` = every operation is
    applicable in the start document (the hypotheses of the two theorems above) and operations of the two kinds bring
    disjoint new identifiers. -/
theorem doc_mixed_ops_converge {d : Doc} {L L' : List DOp} (hp : L.Perm L') (h : GoodD d L) :
    ASim (applyAllD d L) (applyAllD d L') ∧
      (ViewOK d → (∀ x ∈ objs L, OpKeysND x) → (∀ e ∈ (arrs L).flatMap flat, EKeysND e) →
        (applyAllD d L).view.canon = (applyAllD d L').view.canon) := mixed_converge hp h

open Orda.DM in
/-- the hypothesis is stable under reordering (so it is a property of the operation SET) -/
theorem doc_mixed_good_is_order_free {d : Doc} {L L' : List DOp} (hp : L.Perm L') (h : GoodD d L) : GoodD d L' :=
  goodD_perm hp h

/-- non-vacuity: a concrete document with an object inside an array and seven mixed operations (nested batch insert,
    concurrent insert at the same place, put into the inner object, two-target update superseding that object,
    two-target delete, remove, nested put into the root) meets `GoodD` -/
theorem doc_mixed_nonvacuous : DM.GoodD DA.Ex.base DM.Ex.L := DM.Ex.goodD

/-! ### document: CAUSAL histories — operations may address nodes that other operations of the history create -/

open Orda.DM Orda.DA Orda.DC Orda.DCausal in
/-- documents, causal: `Valid d L` = every operation is applicable at the moment it is applied (so an operation that needs
    a node created by another one comes after it).  Two valid orders `L`, `L'` of one history (pairwise distinct operation
    identifiers; new identifiers not yet in the start document) reach `ASim`-equal documents with the same JSON value.
    Strictly stronger than `doc_mixed_ops_converge` (`DCausal.Ex`: a put of `{"a": []}`, an insert into that new array, a put
    into the new object — `GoodD` fails for that list).  The freshness hypothesis `FreshIn` is what unique timestamps give;
    without it the EXCHANGE argument is false (machine-checked `DCausal.Anti`), the statement itself has no known
    counterexample (named open part). -/
theorem doc_causal_histories_converge {d : Doc} {L L' : List DOp} (hp : L.Perm L') (hwf : d.WF) (hd : Distinct L)
    (hf : FreshIn d L) (hv : Valid d L) (hv' : Valid d L') :
    ASim (applyAllD d L) (applyAllD d L') ∧
      (ViewOK d → (∀ x ∈ objs L, OpKeysND x) → (∀ e ∈ (arrs L).flatMap flat, EKeysND e) →
        (applyAllD d L).view.canon = (applyAllD d L').view.canon) :=
  causal_converge_partial hp hwf hd hf hv hv'

/-! ### the operations of the convergence theorems ARE what clients emit -/

open Orda.DM Orda.DC Orda.DR in
/-- in every state a replica reaches by calls and deliveries, a successful mutating document call queues exactly one
    operation; it denotes a remote operation that is APPLICABLE in the state before the call (`GoodD`: the hypothesis of
    the convergence theorems), with acceptable values, and applying it to the state before the call gives the state after
    the call (excluded: an insert of zero values, which `GoodD` does not admit) -/
theorem doc_call_emits_applicable_operation (cuid : String) (create : Bool) (r : Replica) (hl : Life cuid create r)
    (d : Doc) (hs : r.state = .doc d) (c : Call) (hk : DP.CallKeysND c) (hm : DP.isMutating c = true) (v : Ret)
    (hok : (r.call c).2 = .ok v) (hne : ∀ hd pos, c ≠ .dinsert hd pos []) :
    ∃ (o : Op) (x : DOp) (d' : Doc),
      (r.call c).1.buffer = r.buffer ++ [o] ∧ o.id = r.opId.next ∧
      (r.call c).1.state = .doc d' ∧
      toDOp o = some x ∧ GoodD d [x] ∧ ValuesOK x ∧ o.id.era = r.opId.era ∧
      DocEq (applyD d x) d' :=
  DLR.life_local_call_is_applicable_remote_op cuid create r hl d hs c hk hm v hok hne

open Orda.DC Orda.DR in
/-- … hence a second replica holding the same document (the server's copy, a subscriber after its snapshot) that receives
    the emitted operation reaches the sender's document and JSON value -/
theorem doc_receiver_reaches_senders_state (cuid : String) (create : Bool) (r q : Replica) (hl : Life cuid create r)
    (d : Doc) (hs : r.state = .doc d) (hq : q.state = .doc d) (c : Call) (hk : DP.CallKeysND c)
    (hm : DP.isMutating c = true) (v : Ret) (hok : (r.call c).2 = .ok v) :
    ∃ (o : Op) (d' dq : Doc), (r.call c).1.buffer = r.buffer ++ [o] ∧ (r.call c).1.state = .doc d' ∧
      (q.execRemoteBase o).1.state = .doc dq ∧ (q.execRemoteBase o).2 = none ∧ DocEq dq d' ∧ dq.view = d'.view :=
  DLR.life_receiver_reaches_senders_state cuid create r q hl d hs hq c hk hm v hok

/-! ### documents END TO END: no applicability hypothesis
`DNet`: n replicas (`Replica.new .document (cuid i) false`, pairwise distinct client ids) and ONE server log; steps: any public
call on any replica (valid or not), push of a replica's next unpushed operation to the log, pull of the next log entry
(own entries skipped, the others delivered with the real `execRemoteBase`) — in any interleaving. -/

open Orda.DNet Orda.DM Orda.DR in
/-- every delivery the system performs IS applicable (this is the hypothesis of all convergence theorems above, now a
    theorem), raises neither error nor panic, is exactly `applyD`, and keeps the document invariant -/
theorem doc_every_delivery_is_applicable (cuid : Nat → String) (n : Nat) (net : Net) (h : Reach cuid n net) (i : Nat)
    (nd : Node) (a : Nat) (o : Op) (d : Doc) (hi : net.nodes[i]? = some nd) (hl : net.log[nd.pulled]? = some (a, o))
    (ha : a ≠ i) (hs : nd.r.state = .doc d) :
    ∃ x, toDOp o = some x ∧ GoodD d [x] ∧ ValuesOK x ∧ (nd.r.execRemoteBase o).2 = none ∧
      (nd.r.execRemoteBase o).1.state = .doc (applyD d x) ∧ DP.DocInv (nd.r.execRemoteBase o).1 :=
  net_deliveries_exact net h i nd a o d hi hl ha hs

open Orda.DNet Orda.DA in
/-- THE statement of C01 for documents: in every reachable state of the system, two replicas that have the same
    operations (own + delivered, as multisets) hold `ASim`-equal documents and show the same JSON value — whatever the
    interleaving of their own local calls with the operations delivered from the server log -/
theorem doc_same_operations_same_document (cuid : Nat → String) (n : Nat) (net : Net) (h : Reach cuid n net)
    (i j : Nat) (hi : i < net.nodes.length) (hj : j < net.nodes.length) (di dj : Doc)
    (hsi : net.nodes[i].r.state = .doc di) (hsj : net.nodes[j].r.state = .doc dj) (hso : SameOps net i j) :
    ASim di dj ∧ di.view.canon = dj.view.canon :=
  net_same_operations_same_document net h i j hi hj di dj hsi hsj hso

open Orda.DNet Orda.DA in
/-- at every quiescent point (everything pushed, everything pulled) all replicas agree -/
theorem doc_quiescent_replicas_agree (cuid : Nat → String) (n : Nat) (net : Net) (h : Reach cuid n net) (hq : Quiescent net)
    (i j : Nat) (hi : i < net.nodes.length) (hj : j < net.nodes.length) (di dj : Doc)
    (hsi : net.nodes[i].r.state = .doc di) (hsj : net.nodes[j].r.state = .doc dj) :
    ASim di dj ∧ di.view.canon = dj.view.canon :=
  net_quiescent_converged net h hq i j hi hj di dj hsi hsj

/-! ### lists END TO END: no causality hypothesis
`LNet` (Proofs/ListNet): the same system as `DNet` for the List datatype — n replicas with pairwise distinct client ids,
one server log, ANY public call (also refused ones, inserts of zero values, calls of other datatypes), pushes and pulls in
any interleaving.  `LCausal` (the hypothesis of `list_full_state_converges`) is DERIVED. -/

open Orda.LNet in
/-- every replica's list is the remote application of the operations it has applied, and that sequence is causal -/
theorem list_replicas_are_causal_replays (cuid : Nat → String) (n : Nat) (net : LNet.Net) (h : LNet.Reach cuid n net) :
    ∃ applied : Nat → List LOp, ∀ i nd, net.nodes[i]? = some nd →
      nd.r.state = .list (Rga.empty.applyAllL (applied i)) ∧ LCausal (applied i) :=
  lnet_nodes_applied net h

open Orda.LNet in
/-- two replicas that have the same operations hold the SAME list state: order, values, value timestamps, tombstones, Size -/
theorem list_same_operations_same_state (cuid : Nat → String) (n : Nat) (net : LNet.Net) (h : LNet.Reach cuid n net)
    (i j : Nat) (hi : i < net.nodes.length) (hj : j < net.nodes.length) (hso : LNet.SameOps net i j) :
    net.nodes[i].r.state = net.nodes[j].r.state :=
  lnet_same_operations_same_state net h i j hi hj hso

open Orda.LNet in
theorem list_quiescent_replicas_agree (cuid : Nat → String) (n : Nat) (net : LNet.Net) (h : LNet.Reach cuid n net)
    (hq : LNet.Quiescent net) (i j : Nat) (hi : i < net.nodes.length) (hj : j < net.nodes.length) :
    net.nodes[i].r.state = net.nodes[j].r.state :=
  lnet_quiescent_converged net h hq i j hi hj

/-! ### maps and counters END TO END (Proofs/MapNet): the same system, ANY public call, no causality hypothesis -/

open Orda.MNet in
/-- two map replicas that have the same operations agree on every read, on Size and on the JSON view (as lookups, up to
    permutation of the bindings, key-sorted, and in canonical JSON form); plain equality of the association lists is
    false (`MNet.ExMap`), as for documents -/
theorem map_same_operations_same_reads (cuid : Nat → String) (n : Nat) (net : MNet.Net) (h : MNet.Reach .map cuid n net)
    (i j : Nat) (hi : i < net.nodes.length) (hj : j < net.nodes.length) (mi mj : LwwMap)
    (hsi : net.nodes[i].r.state = .map mi) (hsj : net.nodes[j].r.state = .map mj) (hso : MNet.SameOps net i j) :
    (∀ k, mi.get k = mj.get k) ∧ mi.size = mj.size ∧ (∀ k, alFind k mi.live = alFind k mj.live) ∧
      mi.live.Perm mj.live ∧ sortedView mi = sortedView mj ∧ jsonView mi = jsonView mj :=
  mnet_same_operations_same_reads net h i j hi hj mi mj hsi hsj hso

open Orda.MNet in
/-- counters: same operations ⇒ the same value -/
theorem counter_same_operations_same_state (cuid : Nat → String) (n : Nat) (net : MNet.Net)
    (h : MNet.Reach .counter cuid n net) (i j : Nat) (hi : i < net.nodes.length) (hj : j < net.nodes.length)
    (hso : MNet.SameOps net i j) : net.nodes[i].r.state = net.nodes[j].r.state :=
  cnet_same_operations_same_state net h i j hi hj hso

/-! ## The system as it really starts: ONE creating client (its creation snapshot operation heads the log), the others subscribe -/

open Orda.DNet Orda.DNetC Orda.DA in
/-- with the creating client and its snapshot operation in the log: at quiescence creator and subscribers hold the same document -/
theorem doc_created_net_quiescent_replicas_agree {cuid : Nat → String} {n : Nat} (net : Net) (h : ReachC cuid n net)
    (hq : Quiescent net) (i j : Nat) (hi : i < net.nodes.length) (hj : j < net.nodes.length) (di dj : Doc)
    (hsi : net.nodes[i].r.state = .doc di) (hsj : net.nodes[j].r.state = .doc dj) :
    ASim di dj ∧ di.view.canon = dj.view.canon :=
  created_net_quiescent_converged net h hq i j hi hj di dj hsi hsj

open Orda.DNet Orda.DNetC Orda.DA in
/-- … and at every moment two nodes that have applied the same operations hold the same document -/
theorem doc_created_net_same_operations_same_document {cuid : Nat → String} {n : Nat} (net : Net) (h : ReachC cuid n net)
    (i j : Nat) (hi : i < net.nodes.length) (hj : j < net.nodes.length) (di dj : Doc)
    (hsi : net.nodes[i].r.state = .doc di) (hsj : net.nodes[j].r.state = .doc dj) (hso : SameOps net i j) :
    ASim di dj ∧ di.view.canon = dj.view.canon :=
  created_net_same_operations_same_document net h i j hi hj di dj hsi hsj hso

open Orda.DNet Orda.DNetC in
/-- the log starts with the creation snapshot operation and contains it nowhere else -/
theorem doc_created_log_starts_with_snapshot {cuid : Nat → String} {n : Nat} (net : Net) (h : ReachC cuid n net) :
    (∀ e, net.log[0]? = some e → e = snapEnt cuid) ∧
    (∀ k a o, net.log[k]? = some (a, o) → k ≠ 0 → ∃ x, DR.toDOp o = some x ∧ DR.ValuesOK x) :=
  log_starts_with_snapshot net h

open Orda.DNetC in
/-- why a subscriber is usable only after its first sync: a call issued BEFORE the snapshot operation is pulled is wiped out by its
    delivery and the replicas end up different (machine-checked run; the library discards such operations) -/
theorem doc_call_before_first_pull_diverges :
    ∃ net, (initC Ex.cu 2).run badActs = some net ∧ (∀ a ∈ badActs, DNet.ActOK a) ∧ DNet.Quiescent net ∧
      (net.nodes.map fun nd => (Ex.docOf nd.r).view.canon == .obj [("k", .num 1)]) = [true, false] ∧
      (net.nodes.map fun nd => (Ex.docOf nd.r).view.canon == .obj []) = [false, true] ∧
      (runC (initC Ex.cu 2) badActs).isSome = false :=
  call_before_first_pull_diverges

open Orda.FNetC in
/-- LIST, with the creating client and its snapshot operation in the log: at quiescence all replicas hold the SAME list state -/
theorem list_created_net_quiescent_replicas_agree {cuid : Nat → String} {n : Nat} (net : LNet.Net) (h : L.ReachC cuid n net)
    (hq : LNet.Quiescent net) (i j : Nat) (hi : i < net.nodes.length) (hj : j < net.nodes.length) :
    net.nodes[i].r.state = net.nodes[j].r.state :=
  created_list_net_quiescent_converged net h hq i j hi hj

open Orda.FNetC in
/-- LIST: … and at every moment two nodes with the same operations hold the same state -/
theorem list_created_net_same_operations_same_state {cuid : Nat → String} {n : Nat} (net : LNet.Net) (h : L.ReachC cuid n net)
    (i j : Nat) (hi : i < net.nodes.length) (hj : j < net.nodes.length) (hso : LNet.SameOps net i j) :
    net.nodes[i].r.state = net.nodes[j].r.state :=
  created_list_net_same_operations_same_state net h i j hi hj hso

open Orda.FNetC in
/-- MAP, with the creating client: at quiescence creator and subscribers answer every read alike -/
theorem map_created_net_quiescent_replicas_agree {cuid : Nat → String} {n : Nat} (net : MNet.Net) (h : M.ReachC .map cuid n net)
    (hq : MNet.Quiescent net) (i j : Nat) (hi : i < net.nodes.length) (hj : j < net.nodes.length) (mi mj : LwwMap)
    (hmi : net.nodes[i].r.state = .map mi) (hmj : net.nodes[j].r.state = .map mj) :
    (∀ k, mi.get k = mj.get k) ∧ mi.size = mj.size ∧
    (∀ k, alFind k mi.live = alFind k mj.live) ∧ mi.live.Perm mj.live ∧ MNet.sortedView mi = MNet.sortedView mj ∧
    MNet.jsonView mi = MNet.jsonView mj :=
  created_map_net_quiescent_converged net h hq i j hi hj mi mj hmi hmj

open Orda.FNetC in
/-- COUNTER, with the creating client: at quiescence all replicas hold the same value, the wrapped sum of all increments in the log -/
theorem counter_created_net_quiescent_replicas_agree {cuid : Nat → String} {n : Nat} (net : MNet.Net)
    (h : M.ReachC .counter cuid n net) (hq : MNet.Quiescent net) (i j : Nat) (hi : i < net.nodes.length) (hj : j < net.nodes.length) :
    net.nodes[i].r.state = net.nodes[j].r.state ∧
    net.nodes[i].r.state = DState.counter (Spec.counter (net.log.map (·.2))) :=
  created_counter_net_quiescent_converged net h hq i j hi hj

open Orda.FNetC in
/-- the delivery of a creation snapshot operation REPLACES the state of a flat datatype too … -/
theorem flat_snapshot_delivery_resets_state :
    execRemote (.counter 5) ⟨0, 1, "a", 0⟩ (.snapshot (DState.fresh .counter)) = .ok (.counter 0) ∧
    (∀ m, execRemote (.map m) ⟨0, 1, "a", 0⟩ (.snapshot (DState.fresh .map)) = .ok (.map LwwMap.empty)) ∧
    (∀ l, execRemote (.list l) ⟨0, 1, "a", 0⟩ (.snapshot (DState.fresh .list)) = .ok (.list Rga.empty)) :=
  snapshot_delivery_resets_flat_state

open Orda.FNetC in
/-- … which is why a subscriber is usable only after its first sync: an increase issued before is lost (creator 7, subscriber 0) -/
theorem counter_call_before_first_pull_diverges :
    ∃ net, (M.initC .counter cu 2).run badCounter = some net ∧ MNet.Quiescent net ∧
      net.nodes.map (fun nd => ExCounter.valOf nd.r) = [7, 0] ∧ (M.runC (M.initC .counter cu 2) badCounter).isSome = false :=
  FNetC.counter_call_before_first_pull_diverges

end Orda.Props.C01
