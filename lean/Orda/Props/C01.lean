import Orda.Model.Api
namespace Orda.Props.C01
end Orda.Props.C01
