/-
C17 — Collections and datatypes are isolated from each other (frame theorems).
-/
import Orda.Proofs.ServerContract
import Orda.Proofs.ResetPurge
namespace Orda.Props.C17
open Orda

theorem foreign_collection_is_refused (st : Store) (colName cuid : String) (packs : List Pack)
    (col : CollectionDoc) (cl : ClientDoc)
    (hcol : st.getCollection colName = some col) (hcl : st.getClient cuid = some cl) (hne : cl.colNum ≠ col.num) :
    st.processPushPull colName cuid packs = (st, .rpcErr 16, [], []) :=
  foreign_collection_refused st colName cuid packs col cl hcol hcl hne

/-- a pack handled for one collection leaves every document of the other collections untouched
    (datatype ids are unique — an invariant kept by every pack, C13 `one_datatype_per_key`) -/
theorem other_collections_untouched (st : Store) (cl : ClientDoc) (col : CollectionDoc) (p : Pack) (hdu : DuidUnique st) :
    let st' := (processPack st cl col p).store
    st'.datatypes.filter (fun d => d.colNum ≠ col.num) = st.datatypes.filter (fun d => d.colNum ≠ col.num) ∧
    st'.operations.filter (fun o => o.colNum ≠ col.num) = st.operations.filter (fun o => o.colNum ≠ col.num) ∧
    st'.clients = st.clients ∧ st'.collections = st.collections ∧ st'.snapshots = st.snapshots ∧ st'.userDocs = st.userDocs :=
  frame_other_collections_partial st cl col p hdu

/-- without unique ids the frame fails (witness kept to show the hypothesis is needed, not a reachable state) -/
theorem frame_needs_unique_ids :
    ¬ ∀ (st : Store) (cl : ClientDoc) (col : CollectionDoc) (p : Pack),
        (processPack st cl col p).store.datatypes.filter (fun d => d.colNum ≠ col.num) =
          st.datatypes.filter (fun d => d.colNum ≠ col.num) := frame_other_collections_counterexample

/-- operations on one datatype never change another -/
theorem other_datatypes_untouched (st : Store) (cl : ClientDoc) (col : CollectionDoc) (p : Pack) :
    let r := processPack st cl col p
    r.store.datatypes.filter (fun d => d.duid ≠ r.resp.duid) = st.datatypes.filter (fun d => d.duid ≠ r.resp.duid) ∧
    r.store.operations.filter (fun o => o.duid ≠ r.resp.duid) = st.operations.filter (fun o => o.duid ≠ r.resp.duid) :=
  frame_other_datatypes st cl col p

/-- reset removes exactly that collection's datatypes, operations, snapshots, clients and user documents -/
theorem reset_removes_exactly (st : Store) (name : String) (c : CollectionDoc) (h : st.getCollection name = some c) :
    let st' := st.resetCollection name
    st'.datatypes = st.datatypes.filter (fun d => d.colNum ≠ c.num) ∧
    st'.operations = st.operations.filter (fun o => o.colNum ≠ c.num) ∧
    st'.snapshots = st.snapshots.filter (fun s => s.colNum ≠ c.num) ∧
    st'.clients = st.clients.filter (fun x => x.colNum ≠ c.num) ∧
    st'.userDocs = st.userDocs.filter (fun u => u.col ≠ name) ∧
    st'.collections = st.collections := reset_exact st name c h

/-- collection numbers are never re-issued -/
theorem collection_numbers_fresh (st : Store) (name : String) (h : ColNumInv st) (hnew : st.getCollection name = none) :
    (∀ c ∈ st.collections, c.num ≠ (st.makeCollection name).2) ∧ ColNumInv (st.makeCollection name).1 :=
  ⟨makeCollection_fresh st name h hnew, colNumInv_makeCollection st name h⟩

/-- after a reset, a client all of whose records were in the reset collection is unknown to the server … -/
theorem reset_purges_the_collections_clients {st : Store} {name : String} {c : CollectionDoc} (h : st.getCollection name = some c)
    (cuid : String) :
    (st.resetCollection name).getClient cuid = none ↔ ∀ x ∈ st.clients, x.cuid = cuid → x.colNum = c.num :=
  RP.reset_purges_clients_iff h cuid

/-- … its requests are refused as a whole, for every collection name and every pack list, and change nothing … -/
theorem purged_client_is_not_served {st : Store} {name : String} {c : CollectionDoc} (h : st.getCollection name = some c)
    (cuid : String) (hall : ∀ x ∈ st.clients, x.cuid = cuid → x.colNum = c.num) (colName : String) (packs : List Pack) :
    (st.resetCollection name).processPushPull colName cuid packs = (st.resetCollection name, .rpcErr 5, [], []) :=
  RP.purged_client_is_refused h cuid hall colName packs

/-- … while the clients of the other collections are found exactly as before -/
theorem reset_keeps_the_other_collections_clients {st : Store} {name : String} {c : CollectionDoc} (h : st.getCollection name = some c)
    {cuid : String} {cl : ClientDoc} (hg : st.getClient cuid = some cl) (hc : cl.colNum ≠ c.num) :
    (st.resetCollection name).getClient cuid = some cl :=
  RP.reset_keeps_other_clients h hg hc

end Orda.Props.C17
