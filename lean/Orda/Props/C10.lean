/-
C10 — A datatype restored from its snapshot is indistinguishable from the original.
In the model a snapshot IS the datatype state (the marshaled form carries exactly the fields the
model keeps; that Go's marshal/unmarshal is faithful to it is what the correspondence check and its
twin oracle establish).  The theorems are about everything that happens AFTER the restore.
-/
import Orda.Proofs.SeqSnap
namespace Orda.Props.C10
open Orda

/-- the restored instance has the original's readable state and next identifiers -/
theorem restored_same_core (src : Replica) : (Replica.importFrom src).core = src.core := import_core src

/-- … and sound rollback data (the restored state is its own rollback point) -/
theorem restored_rollback_sound (src : Replica) : (Replica.importFrom src).RbInv := import_rbInv src

/-- one step: replicas with the same core react identically — same results, same emitted operations,
    same new core -/
theorem same_reaction (r1 r2 : Replica) (st : Step) (hc : r1.core = r2.core) (h1 : r1.RbInv) (h2 : r2.RbInv)
    (hf : ∀ ops, st = .recv ops → ∀ o ∈ ops, o.id.cuid ≠ r1.opId.cuid)
    (hp : (r1.step st).2.noPanic = true) :
    (r1.step st).2 = (r2.step st).2 ∧ (r1.step st).1.core = (r2.step st).1.core ∧
    (r1.step st).1.RbInv ∧ (r2.step st).1.RbInv :=
  step_bisim r1 r2 st hc h1 h2 hf hp

/-- every continuation — any sequence of local calls, transactions (failing or not) and remote
    deliveries — is answered by the restored copy exactly as by the original -/
theorem restored_indistinguishable (r : Replica) (h : r.RbInv) (steps : List Step)
    (hf : ∀ st ∈ steps, ∀ ops, st = .recv ops → ∀ o ∈ ops, o.id.cuid ≠ r.opId.cuid)
    (hp : ∀ o ∈ (r.run steps).2, o.noPanic = true) :
    ((Replica.importFrom r).run steps).2 = (r.run steps).2 ∧
    ((Replica.importFrom r).run steps).1.core = (r.run steps).1.core :=
  Orda.restored_indistinguishable r h steps hf hp

/-- exporting the restored instance again yields the same snapshot (state and identifiers) -/
theorem reexport_equal (src : Replica) :
    (Replica.importFrom (Replica.importFrom src)).core = (Replica.importFrom src).core :=
  import_core _

end Orda.Props.C10
