import Orda.Model.Api
namespace Orda.Props.C10
end Orda.Props.C10
