/-
C13 — Create, Subscribe and SubscribeOrCreate honour their contract (decision logic stated outright).
-/
import Orda.Proofs.ServerContract
import Orda.Proofs.DispatchBridge
import Orda.Proofs.ServerRefineJoin
namespace Orda.Props.C13
open Orda

theorem create_existing_is_refused (st : Store) (cl : ClientDoc) (col : CollectionDoc) (p : Pack) (d : DatatypeDoc)
    (hc : p.create = true) (hs : p.subscribe = false) (hro : p.readOnly = false)
    (hk : st.getDatatypeByKey col.num p.key = some d) (hv : d.visible = true) (hn : d.sub cl.cuid false = none) :
    isErr (processPack st cl col p) 302 ∧ (processPack st cl col p).store = st :=
  create_existing_refused st cl col p d hc hs hro hk hv hn

theorem subscribe_missing_is_refused (st : Store) (cl : ClientDoc) (col : CollectionDoc) (p : Pack)
    (hc : p.create = false) (hs : p.subscribe = true) (hro : p.readOnly = false)
    (hk : st.getDatatypeByKey col.num p.key = none) :
    (isErr (processPack st cl col p) 304 ∨ isErr (processPack st cl col p) 301) ∧ (processPack st cl col p).store = st :=
  subscribe_missing_refused st cl col p hc hs hro hk

theorem other_type_is_refused (st : Store) (cl : ClientDoc) (col : CollectionDoc) (p : Pack) (d : DatatypeDoc)
    (hb : p.create = true ∨ p.subscribe = true) (hro : p.readOnly = false)
    (hk : st.getDatatypeByKey col.num p.key = some d) (ht : d.typ ≠ p.typ) :
    (isErr (processPack st cl col p) 302 ∨ isErr (processPack st cl col p) 304) ∧ (processPack st cl col p).store = st :=
  type_mismatch_refused st cl col p d hb hro hk ht

/-- the refusal reaches the client's error handler as "create" (200) / "subscribe" (201) and leaves the datatype as it was -/
theorem refusal_reaches_error_handler (w : WDt) (p : Pack) (code : Nat) (h : p.error = true)
    (hops : p.ops = [⟨OpId.nil, .error code⟩]) :
    w.applyPack p = (w, [.errors [clientErrOfPushPull code]], none) := by
  unfold WDt.applyPack
  simp [h, hops]

example : clientErrOfPushPull 302 = Err.create ∧ clientErrOfPushPull 304 = Err.subscribe := by decide

/-- any number of racing SubscribeOrCreate (or other) requests, served one at a time, never yield a second
    datatype for a (collection, key), nor a second datatype with the same id -/
theorem one_datatype_per_key (st : Store) (cl : ClientDoc) (col : CollectionDoc) (p : Pack)
    (h : KeyUnique st) (hd : DuidUnique st) :
    KeyUnique (processPack st cl col p).store ∧ DuidUnique (processPack st cl col p).store :=
  keyUnique_processPack st cl col p h hd

/-- a new subscriber is answered with the subscribe bit, the datatype's id and the whole log after its checkpoint -/
theorem subscriber_gets_log (st : Store) (cl : ClientDoc) (col : CollectionDoc) (p : Pack) (d : DatatypeDoc)
    (hc : p.create = false) (hs : p.subscribe = true) (hro : p.readOnly = false) (hsn : p.snapshot = false)
    (hvol : cl.typ ≠ 2) (hk : st.getDatatypeByKey col.num p.key = some d) (ht : d.typ = p.typ) (hv : d.visible = true)
    (hn : d.sub cl.cuid false = none) (hb : d.sseqBegin ≤ p.cp.sseq + 1) :
    let r := processPack st cl col p
    r.resp.error = false ∧ r.resp.subscribe = true ∧ r.resp.duid = d.duid ∧
    r.resp.ops = (st.getOperations d.duid (p.cp.sseq + 1)).map (·.op) ∧ r.pushed = 0 ∧
    r.store.operations = st.operations :=
  subscribe_gets_log st cl col p d hc hs hro hsn hvol hk ht hv hn hb

/-- REGENERATED TIE: on every store and every request, the dispatch decision the model takes (create /
    subscribe / serve / refuse with which code) is the decision computed by the decision paths that
    tools/gofacts extracts from `processSubscribeOrCreate` of the CURRENT source (`Gen.dispatchPaths`) -/
theorem server_dispatch_is_current_source (st : Store) (cl : ClientDoc) (col : CollectionDoc) (p : Pack) :
    DB.sourceDecision (evalCase st col cl.cuid p).1 p.create p.subscribe (SL.sameDuid p (evalCase st col cl.cuid p).2)
      (evalCase st col cl.cuid p).2.isNone = some (SL.dsp st cl col p) :=
  DB.model_dispatch_is_source st cl col p

/-- … and the two read-only refusals of `processPack` are the paths of `validatePushPullPack` -/
theorem server_validation_is_current_source : DB.validateAgree = true := DB.validate_is_source

open Orda.SRef Orda.SRefJ in
/-- a create request on an absent key (neither the key nor the id exists) CREATES: the datatype record appears under the request's id,
    key, collection and type, visible; the log is exactly what `pushOps` accepts from ⟨0,0⟩; the creator is the only recorded
    client; the answer carries the create bit, no operations, and the recorded checkpoint -/
theorem create_on_absent_key_creates {st : Store} {cl : ClientDoc} {col : CollectionDoc} {p : Pack}
    (inv : LogInv st) (h : CreateReq st cl col p) {cp2 : CheckPoint} {docs : List OpDoc}
    (hpush : pushOps pDuid pCol ⟨0, 0⟩ p.ops [] = .ok (cp2, docs)) :
    let r := processPack st cl col p
    (absLog st p.duid = [] ∧ absCps st p.duid = []) ∧
    IsServeJ st cl.cuid .create (freshDoc col p) p.cp.sseq cp2 docs r ∧
    absLog r.store p.duid = docs.map (·.op) ∧ absCps r.store p.duid = [(cl.cuid, cp2)] ∧
    r.resp.ops = [] ∧ r.resp.cp = cp2 ∧ r.resp.error = false ∧ r.resp.create = true ∧
    ∃ d', r.store.getDatatype p.duid = some d' ∧ d'.key = p.key ∧ d'.colNum = col.num ∧ d'.typ = p.typ ∧
      d'.visible = true ∧ d'.sseqBegin = 0 :=
  processPack_is_create inv h hpush

open Orda.SRefJ in
/-- subscribe-or-create on a key that exists under another id is exactly the subscribe request -/
theorem subscribe_or_create_on_existing_key_subscribes {st : Store} {cl : ClientDoc} {col : CollectionDoc} {p : Pack} {d : DatatypeDoc}
    (hs : p.subscribe = true) (hro : p.readOnly = false)
    (hk : st.getDatatypeByKey col.num p.key = some d) (ht : d.typ = p.typ) (hv : d.visible = true)
    (hd : d.duid ≠ p.duid) :
    processPack st cl col p = processPack st cl col { p with create := false } :=
  subOrCreate_eq hs hro hk ht hv hd

end Orda.Props.C13
