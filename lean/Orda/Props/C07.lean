/-
C07 — Lost, duplicated or delayed sync messages never lose or double-apply operations.
The adversary of `PStep` may serve any request ever sent again, and deliver any response ever
produced late, repeatedly, or never; the theorems hold in EVERY state it can reach.
-/
import Orda.Proofs.Protocol
import Orda.Model.Wired
namespace Orda.Props.C07
open Orda

/-- duplicates, losses and delays leave no trace: what a client has applied (and what it was
    acknowledged for) is a function of the log up to its checkpoint alone — two runs that reach the
    same log prefix agree, however their messages were duplicated, dropped or delayed -/
theorem as_if_delivered_once {cuids₁ cuids₂ : List String} {S₁ S₂ : PSys} (h₁ : PReach cuids₁ S₁) (h₂ : PReach cuids₂ S₂)
    {cl₁ cl₂ : PClient} (m₁ : cl₁ ∈ S₁.clients) (m₂ : cl₂ ∈ S₂.clients) (hu : cl₁.cuid = cl₂.cuid)
    (hlog : S₁.log.take cl₁.cp.sseq = S₂.log.take cl₂.cp.sseq) :
    cl₁.applied = cl₂.applied ∧ cl₁.cp.cseq = cl₂.cp.cseq :=
  as_if_once h₁ h₂ m₁ m₂ hu hlog

/-- never lost, never double-applied: each foreign operation up to the checkpoint exactly once in log
    order; each own operation stored exactly once -/
theorem no_loss_no_double {cuids : List String} {S : PSys} (h : PReach cuids S) :
    (∀ cl ∈ S.clients, cl.applied = (S.log.take cl.cp.sseq).filter (fun o => o.id.cuid ≠ cl.cuid)) ∧ S.log.Nodup :=
  ⟨fun cl hcl => (proto_inv_client h cl hcl).2.2.2.2.2, log_nodup h⟩

/-- a retry always goes through: the server never refuses a request that was ever sent -/
theorem retry_never_refused {cuids : List String} {S : PSys} (h : PReach cuids S) {r : PReq} {cl : PClient}
    (hr : r ∈ S.reqs) (hi : S.clients[r.i]? = some cl) :
    ∃ cp2 docs, pushOps pDuid pCol ⟨S.log.length, (S.recOf cl.cuid).cseq⟩ r.ops [] = .ok (cp2, docs) :=
  never_refused h hr hi

/-- the subscribe exchange under the same adversary: the (delayed or duplicated) answer to an earlier
    subscribe request that reaches a datatype which is subscribed already changes NOTHING (state, buffer,
    checkpoint, identifiers) and calls no handler — the `PStep` system above models subscribed clients, this
    closes the entry phase (defect D33: the implementation used to reset the datatype here) -/
theorem stale_subscribe_response_ignored (w : WDt) (p : Pack) (he : p.error = false) (hs : p.subscribe = true)
    (h1 : w.dstate ≠ .dueToSubscribe) (h2 : w.dstate ≠ .dueToSubscribeCreate) :
    w.applyPack p = (w, [], none) := by
  unfold WDt.applyPack
  simp [he, hs, h1, h2]

/-- non-vacuity: the classic scenario (response lost, another client pushes in between, retry, the lost
    response arrives late, the first request is served again) is reachable -/
theorem classic_scenario_reachable : PReach ["a", "b"] PEx.E13 := PEx.reach

end Orda.Props.C07
