/-
C07 — Lost, duplicated or delayed sync messages never lose or double-apply operations.
The adversary of `PStep` may serve any request ever sent again, and deliver any response ever
produced late, repeatedly, or never; the theorems hold in EVERY state it can reach.
-/
import Orda.Proofs.Protocol
import Orda.Model.Wired
import Orda.Proofs.ProtocolJoin
import Orda.Proofs.ProtoNet
import Orda.Proofs.ServerRefine
import Orda.Proofs.ServerRefineJoin
import Orda.Proofs.FullNet
namespace Orda.Props.C07
open Orda

/-- duplicates, losses and delays leave no trace: what a client has applied (and what it was
    acknowledged for) is a function of the log up to its checkpoint alone — two runs that reach the
    same log prefix agree, however their messages were duplicated, dropped or delayed -/
theorem as_if_delivered_once {cuids₁ cuids₂ : List String} {S₁ S₂ : PSys} (h₁ : PReach cuids₁ S₁) (h₂ : PReach cuids₂ S₂)
    {cl₁ cl₂ : PClient} (m₁ : cl₁ ∈ S₁.clients) (m₂ : cl₂ ∈ S₂.clients) (hu : cl₁.cuid = cl₂.cuid)
    (hlog : S₁.log.take cl₁.cp.sseq = S₂.log.take cl₂.cp.sseq) :
    cl₁.applied = cl₂.applied ∧ cl₁.cp.cseq = cl₂.cp.cseq :=
  as_if_once h₁ h₂ m₁ m₂ hu hlog

/-- never lost, never double-applied: each foreign operation up to the checkpoint exactly once in log
    order; each own operation stored exactly once -/
theorem no_loss_no_double {cuids : List String} {S : PSys} (h : PReach cuids S) :
    (∀ cl ∈ S.clients, cl.applied = (S.log.take cl.cp.sseq).filter (fun o => o.id.cuid ≠ cl.cuid)) ∧ S.log.Nodup :=
  ⟨fun cl hcl => (proto_inv_client h cl hcl).2.2.2.2.2, log_nodup h⟩

/-- a retry always goes through: the server never refuses a request that was ever sent -/
theorem retry_never_refused {cuids : List String} {S : PSys} (h : PReach cuids S) {r : PReq} {cl : PClient}
    (hr : r ∈ S.reqs) (hi : S.clients[r.i]? = some cl) :
    ∃ cp2 docs, pushOps pDuid pCol ⟨S.log.length, (S.recOf cl.cuid).cseq⟩ r.ops [] = .ok (cp2, docs) :=
  never_refused h hr hi

/-- the subscribe exchange under the same adversary: the (delayed or duplicated) answer to an earlier
    subscribe request that reaches a datatype which is subscribed already changes NOTHING (state, buffer,
    checkpoint, identifiers) and calls no handler — the `PStep` system above models subscribed clients, this
    closes the entry phase (defect D33: the implementation used to reset the datatype here) -/
theorem stale_subscribe_response_ignored (w : WDt) (p : Pack) (he : p.error = false) (hs : p.subscribe = true)
    (h1 : w.dstate ≠ .dueToSubscribe) (h2 : w.dstate ≠ .dueToSubscribeCreate) :
    w.applyPack p = (w, [], none) := by
  unfold WDt.applyPack
  simp [he, hs, h1, h2]

/-! ### the ENTRY phase under the same adversary (`JStep`, Proofs/ProtocolJoin.lean): clients that join
late by a subscribe exchange; every subscribe request ever sent may be served any number of times at any
later time, every subscribe response may be delivered any number of times at any time -/

/-- never lost, never double-applied, joins included: own acknowledged operations once and in order in the
    log, foreign operations up to the checkpoint applied exactly once in log order (the prefix received at
    the join included), nothing of a client that has not joined -/
theorem no_loss_no_double_with_late_joiners {cuids : List (String × Bool)} {S : JSys} (h : JReach cuids S) :
    ∀ cl ∈ S.clients,
      S.log.filter (fun o => o.id.cuid = cl.base.cuid) = cl.base.buf.take (S.recOf cl.base.cuid).cseq ∧
      cl.base.cp.sseq ≤ S.log.length ∧
      ((S.log.take cl.base.cp.sseq).filter (fun o => o.id.cuid = cl.base.cuid)).length = cl.base.cp.cseq ∧
      cl.base.cp.cseq ≤ (S.recOf cl.base.cuid).cseq ∧ (S.recOf cl.base.cuid).cseq ≤ cl.base.buf.length ∧
      cl.base.applied = (S.log.take cl.base.cp.sseq).filter (fun o => o.id.cuid ≠ cl.base.cuid) ∧
      (cl.joined = false → cl.base.cp = ⟨0, 0⟩ ∧ cl.base.applied = [] ∧
        S.log.filter (fun o => o.id.cuid = cl.base.cuid) = []) :=
  join_inv_client h

theorem log_has_no_duplicates_with_late_joiners {cuids : List (String × Bool)} {S : JSys} (h : JReach cuids S) :
    S.log.Nodup := join_log_nodup h

/-- a late or duplicated subscribe response delivered to a joined client is a stutter step -/
theorem stale_subscribe_response_is_stutter {S : JSys} {p : JResp} {cl : JClient}
    (hi : S.clients[p.i]? = some cl) (hj : cl.joined = true) :
    ({ S with clients := S.clients.set p.i (cl.deliverSub p) } : JSys) = S :=
  stale_sub_response_harmless hi hj

/-- a subscribe REQUEST served again after its client joined and pushed: nothing stored, the server's record
    of that client keeps its sequence number (so later pushes are neither refused nor accepted twice) -/
theorem duplicate_subscribe_request_keeps_record (st : Store) (cl : ClientDoc) (col : CollectionDoc) (p : Pack) (d : DatatypeDoc)
    (hs : p.subscribe = true) (hc : p.create = false) (hro : p.readOnly = false)
    (hk : st.getDatatypeByKey col.num p.key = some d) (ht : d.typ = p.typ) (hv : d.visible = true)
    (hd : d.duid ≠ p.duid) (hty : cl.typ ≠ 2) (s : SubClient) (hrec : d.sub cl.cuid false = some s) :
    (processPack st cl col p).pushed = 0 ∧
    (processPack st cl col p).store.operations = st.operations ∧
    (processPack st cl col p).resp.subscribe = true ∧ (processPack st cl col p).resp.error = false ∧
    (processPack st cl col p).resp.cp.cseq = s.cp.cseq ∧
    ∃ d' ∈ (processPack st cl col p).store.datatypes, d'.duid = d.duid ∧
      ∃ n, d'.sub cl.cuid false = some ⟨⟨n, s.cp.cseq⟩, cl.typ⟩ :=
  PJ.resubscribe_keeps_record st cl col p d hs hc hro hk ht hv hd hty s hrec

/-- D33, machine-checked: with the OLD client (a joined datatype is reset by a late subscribe response) a
    reachable run loses an operation silently -/
theorem old_client_lost_operations :
    JReachOld JEx.cs JEx.G5 ∧ JEx.b3.id.seq = JEx.b1.id.seq ∧
    (∀ cl ∈ JEx.G5.clients, cl.base.cuid = "b" → cl.base.buf.map (·.id) = [JEx.b3.id] ∧
      cl.base.cp.cseq = cl.base.buf.length ∧ cl.base.cp.sseq = JEx.G5.log.length) ∧
    (∀ o ∈ JEx.G5.log, o.id ≠ JEx.b3.id) := old_behaviour_loses_operations

/-- non-vacuity: the classic scenario (response lost, another client pushes in between, retry, the lost
    response arrives late, the first request is served again) is reachable -/
theorem classic_scenario_reachable : PReach ["a", "b"] PEx.E13 := PEx.reach

/-! ### at the level of the DATATYPES (`PNet`, Proofs/ProtoNet): REAL replicas (`Replica.call`, `execRemoteBase`) driven by the
push-pull protocol under the ADVERSARIAL network of Proofs/Protocol — any request served any number of times, any response
delivered any number of times, in any order, or never.  The protocol view of every reachable state is a reachable protocol state
(`PNet.proj_reach`: J1–J3 apply) and its datatype view is a reachable state of the ideal-log system (`PNet.net_view`). -/

open Orda.PNet in
/-- whatever was lost, duplicated or delayed: when every client is caught up, all replicas are EQUAL (lists, counters) … -/
theorem faults_never_break_list_or_counter_convergence (cuids : List String) (S : RSys)
    (h : RReach .list cuids S ∨ RReach .counter cuids S) (hq : QuiescentR S) (i j : Nat)
    (hi : i < S.clients.length) (hj : j < S.clients.length) : S.clients[i].r.state = S.clients[j].r.state := by
  rcases h with h | h
  · exact faults_list_quiescent_converged S h hq i j hi hj
  · exact faults_counter_quiescent_converged S h hq i j hi hj

open Orda.PNet in
/-- … show the same reads, Size and JSON view (maps) … -/
theorem faults_never_break_map_convergence (cuids : List String) (S : RSys) (h : RReach .map cuids S) (hq : QuiescentR S)
    (i j : Nat) (hi : i < S.clients.length) (hj : j < S.clients.length) (mi mj : LwwMap)
    (hsi : S.clients[i].r.state = .map mi) (hsj : S.clients[j].r.state = .map mj) : SameReads mi mj :=
  faults_map_quiescent_converged S h hq i j hi hj mi mj hsi hsj

open Orda.PNet Orda.DA in
/-- … and hold `ASim`-equal documents with the same JSON value (documents) -/
theorem faults_never_break_document_convergence (cuids : List String) (S : RSys) (h : RReach .document cuids S)
    (hq : QuiescentR S) (i j : Nat) (hi : i < S.clients.length) (hj : j < S.clients.length) (di dj : Doc)
    (hsi : S.clients[i].r.state = .doc di) (hsj : S.clients[j].r.state = .doc dj) :
    ASim di dj ∧ di.view.canon = dj.view.canon :=
  faults_doc_quiescent_converged S h hq i j hi hj di dj hsi hsj

open Orda.PNet in
/-- no double application, no loss, also BEFORE quiescence: two replicas that have the same operations hold the same list
    state, whatever the network did (maps, counters, documents: `PNet.faults_*_same_operations_*`) -/
theorem faults_same_operations_same_list_state (cuids : List String) (S : RSys) (h : RReach .list cuids S) (i j : Nat)
    (hi : i < S.clients.length) (hj : j < S.clients.length) (hso : SameOpsR S i j) :
    S.clients[i].r.state = S.clients[j].r.state :=
  faults_list_same_operations_same_state S h i j hi hj hso

open Orda.PNet in
/-- applying ANY response ever produced — the first time, again, or late — never makes a replica refuse or panic -/
theorem any_response_can_be_applied_at_any_time (typ : DtType) (cuids : List String) (S : RSys) (h : RReach typ cuids S)
    (p : PResp) (cl : RClient) (hp : p ∈ S.resps) (hc : S.clients[p.i]? = some cl) :
    ExecOK cl.r (newForeignOps cl.cuid cl.cp p.cp p.ops) :=
  faults_deliveries_exact h hp hc

open Orda.SRef in
/-- at the STORE level: whatever was lost, repeated or delayed before, a request that a client has ever sent (an old one, a retry, a
    duplicate) is never answered with an error pack by `processPack` -/
theorem store_server_never_refuses_a_retry {tg : Target} {cuids : List String} {T0 T : SSys}
    (g0 : SRef.Good tg T0) (h0 : PReach cuids (T0.abs tg)) (run : SRun tg T0 T)
    {r : PReq} {cl : PClient} {cd : ClientDoc} {p : Pack}
    (hr : r ∈ T.reqs) (hi : T.clients[r.i]? = some cl) (hcu : cd.cuid = cl.cuid) (hv : cd.typ ≠ 2) (hp : PackOf tg r p) :
    (processPack T.st cd tg.col p).resp.error = false :=
  store_never_refuses g0 h0 run hr hi hcu hv hp

open Orda.SRef Orda.SRefJ in
/-- store level, entry phase included: once the datatype exists, no normal request that a joined client has ever sent is answered
    with an error pack, whatever was created, subscribed, lost, repeated or delayed before -/
theorem store_server_never_refuses_a_retry_with_late_joiners {tg : TargetJ} {cuids : List (String × Bool)} {T0 T : SSysJ}
    (g0 : GoodJ tg T0) (h0 : JReach cuids (T0.abs tg)) (run : SRunJ tg T0 T)
    {r : JReq} {cl : JClient} {cd : ClientDoc} {p : Pack} {d : DatatypeDoc} (hex : T.st.getDatatype tg.duid = some d)
    (hr : r ∈ T.reqs) (hk : r.kind = .normal) (hi : T.clients[r.i]? = some cl) (hcu : cd.cuid = cl.base.cuid)
    (hv : cd.typ ≠ 2) (hp : PackOfJ tg r p) :
    (processPack T.st cd tg.col p).resp.error = false :=
  store_never_refuses_join g0 h0 run hex hr hk hi hcu hv hp

/-! ## The WHOLE executable model — wired clients (Model/Wired: `createPack`, `applyPack`) + store-level server (Model/Server:
`processPack`) + replicas — under the adversarial network (Proofs/FullNet): every run is a `PNet` run, hence the convergence theorems -/

open Orda.PNet Orda.SRef Orda.FullNet in
/-- every run of the full system (calls on the wired clients' replicas, `createPack` requests, ANY request ever sent served by
    `processPack` any number of times, ANY response ever produced — error packs included — applied by `applyPack` late, repeatedly
    or never, foreign traffic and bookkeeping in between) is matched step by step by the protocol system with real replicas -/
theorem full_system_runs_are_protocol_runs {typ : DtType} {tg : Target} {cuids : List String} {F0 F : FSys} {S0 : RSys}
    (h0 : Rel tg F0 S0) (hr0 : RReach typ cuids S0) (run : FRun typ tg F0 F) :
    ∃ S, Rel tg F S ∧ RReach typ cuids S :=
  full_run_simulates_pnet h0 hr0 run

open Orda.PNet Orda.SRef Orda.FullNet in
/-- the start: subscribed wired clients on fresh replicas, the datatype existing with an empty log -/
theorem full_system_initial_state_is_related (typ : DtType) {tg : Target} {st0 : Store} {cds : List ClientDoc}
    (g : SRef.Good tg ⟨st0, [], [], []⟩) (hl : absLog st0 tg.duid = []) (hc : absCps st0 tg.duid = [])
    (hv : ∀ cd ∈ cds, cd.typ ≠ 2) :
    Rel tg (FSys.init typ tg st0 cds) (RSys.init typ (cds.map (·.cuid))) :=
  rel_init typ g hl hc hv

open Orda.PNet Orda.SRef Orda.FullNet in
/-- LISTS, full system: whatever was lost, repeated or delayed, once every wired client stands at the end of the STORE's log with
    everything acknowledged, all of them hold the same list state -/
theorem full_system_faults_never_break_list_convergence {tg : Target} {cuids : List String} {F0 F : FSys} {S0 : RSys}
    (h0 : Rel tg F0 S0) (hr0 : RReach .list cuids S0) (run : FRun .list tg F0 F) (hq : FQuiescent tg F)
    (i j : Nat) (hi : i < F.clients.length) (hj : j < F.clients.length) :
    (F.clients[i]).2.rep.state = (F.clients[j]).2.rep.state :=
  full_quiescent_converged_list h0 hr0 run hq i j hi hj

open Orda.PNet Orda.SRef Orda.FullNet in
/-- COUNTERS, full system -/
theorem full_system_faults_never_break_counter_convergence {tg : Target} {cuids : List String} {F0 F : FSys} {S0 : RSys}
    (h0 : Rel tg F0 S0) (hr0 : RReach .counter cuids S0) (run : FRun .counter tg F0 F) (hq : FQuiescent tg F)
    (i j : Nat) (hi : i < F.clients.length) (hj : j < F.clients.length) :
    (F.clients[i]).2.rep.state = (F.clients[j]).2.rep.state :=
  full_quiescent_converged_counter h0 hr0 run hq i j hi hj

open Orda.PNet Orda.SRef Orda.FullNet in
/-- MAPS, full system: all wired clients answer every read alike -/
theorem full_system_faults_never_break_map_convergence {tg : Target} {cuids : List String} {F0 F : FSys} {S0 : RSys}
    (h0 : Rel tg F0 S0) (hr0 : RReach .map cuids S0) (run : FRun .map tg F0 F) (hq : FQuiescent tg F)
    (i j : Nat) (hi : i < F.clients.length) (hj : j < F.clients.length) (mi mj : LwwMap)
    (hsi : (F.clients[i]).2.rep.state = .map mi) (hsj : (F.clients[j]).2.rep.state = .map mj) : SameReads mi mj :=
  full_quiescent_converged_map h0 hr0 run hq i j hi hj mi mj hsi hsj

open Orda.PNet Orda.SRef Orda.FullNet in
/-- DOCUMENTS, full system: all wired clients hold `ASim`-equal documents with one JSON value -/
theorem full_system_faults_never_break_document_convergence {tg : Target} {cuids : List String} {F0 F : FSys} {S0 : RSys}
    (h0 : Rel tg F0 S0) (hr0 : RReach .document cuids S0) (run : FRun .document tg F0 F) (hq : FQuiescent tg F)
    (i j : Nat) (hi : i < F.clients.length) (hj : j < F.clients.length) (di dj : Doc)
    (hsi : (F.clients[i]).2.rep.state = .doc di) (hsj : (F.clients[j]).2.rep.state = .doc dj) :
    DA.ASim di dj ∧ di.view.canon = dj.view.canon :=
  full_quiescent_converged_document h0 hr0 run hq i j hi hj di dj hsi hsj

open Orda.FullNet in
/-- an error pack changes nothing in the wired datatype: the error handler is called, that is all -/
theorem error_pack_is_invisible_to_the_datatype (w : WDt) (p : Pack) (h : p.error = true) :
    (w.applyPack p).1 = w ∧ (w.applyPack p).2.2 = none ∧ ∃ c, (w.applyPack p).2.1 = [.errors [c]] :=
  applyPack_error_is_stutter w p h

end Orda.Props.C07
