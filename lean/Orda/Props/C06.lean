/-
C06 — A datatype's server log is a gapless total order of exactly the pushed ops.
`LogInv` is an inductive invariant of the store under EVERY request of EVERY client (arbitrary
option bits, checkpoints, operation lists: empty, duplicated, gapped, foreign ids).
-/
import Orda.Proofs.ServerLog
import Orda.Proofs.ServerRefine
namespace Orda.Props.C06
open Orda

theorem log_invariant_initially : LogInv {} := logInv_empty

/-- any pack of any client keeps the log gapless 1..End, ids unique, no orphaned operation,
    operations under their datatype's collection number, recorded checkpoints within the log -/
theorem log_invariant_any_pack (st : Store) (cl : ClientDoc) (col : CollectionDoc) (p : Pack) (h : LogInv st) :
    LogInv (processPack st cl col p).store := logInv_processPack st cl col p h

theorem log_invariant_any_request (st : Store) (colName cuid : String) (packs : List Pack) (h : LogInv st) :
    LogInv (st.processPushPull colName cuid packs).1 := logInv_processPushPull st colName cuid packs h

/-- … and so do client registration, snapshot updates, collection creation and reset -/
theorem log_invariant_other_requests (st : Store) (admin : Bool) (colName duid name : String) (cl : ClientDoc)
    (h : LogInv st) :
    LogInv (st.processClient admin colName cl).1 ∧ LogInv (st.updateSnapshot duid colName) ∧
    LogInv (st.resetCollection name) ∧ LogInv (st.makeCollection name).1 :=
  ⟨logInv_processClient st admin colName cl h, logInv_updateSnapshot st duid colName h,
   logInv_resetCollection st name h, logInv_makeCollection st name h⟩

/-- the log only grows by appending; what is appended are accepted operations of the request, each once,
    in the order given -/
theorem pushed_stored_once_in_order (st : Store) (cl : ClientDoc) (col : CollectionDoc) (p : Pack) :
    ∃ newDocs : List OpDoc, (processPack st cl col p).store.operations = st.operations ++ newDocs ∧
      (newDocs.map (·.op)).Sublist p.ops := processPack_stores_pushed st cl col p

/-- neither the end of the log nor a client's acknowledged sequence ever goes back -/
theorem end_and_cseq_monotone (st : Store) (cl : ClientDoc) (col : CollectionDoc) (p : Pack) (d d' : DatatypeDoc)
    (s s' : SubClient) (h : LogInv st) (hd : d ∈ st.datatypes) (hs : d.sub cl.cuid false = some s)
    (hd' : d' ∈ (processPack st cl col p).store.datatypes) (hid : d'.duid = d.duid)
    (hs' : d'.sub cl.cuid false = some s') : s.cp.cseq ≤ s'.cp.cseq ∧ d.sseqEnd ≤ d'.sseqEnd :=
  cseq_monotone' st cl col p d d' s s' h hd hs hd' hid hs'

open Orda.SRef in
/-- the STORE-LEVEL server, on an ordinary request of a subscribed client, is the protocol's abstract `serve` step: the log grows by
    exactly the operations `pushOps` accepts from ⟨old length, recorded sequence⟩, the answer carries the OLD log after the
    request's position and the checkpoint that is recorded, the other clients' records and every other datatype are untouched,
    and the invariant is kept (`SRef.IsServe` lists the eleven facts) -/
theorem store_server_is_the_protocol_server {st : Store} {cl : ClientDoc} {col : CollectionDoc} {p : Pack} {d : DatatypeDoc}
    (inv : LogInv st) (h : Ordinary st cl col p d) {cp2 : CheckPoint} {docs : List OpDoc}
    (hpush : pushOps pDuid pCol ⟨(absLog st p.duid).length, (absRec st p.duid cl.cuid).cseq⟩ p.ops [] = .ok (cp2, docs)) :
    IsServe st cl p cp2 docs (processPack st cl col p) :=
  processPack_is_serve inv h hpush

open Orda.SRef in
/-- … and when `pushOps` refuses, nothing at all is stored and the answer is the error pack -/
theorem store_server_refusal_stores_nothing {st : Store} {cl : ClientDoc} {col : CollectionDoc} {p : Pack} {d : DatatypeDoc}
    (inv : LogInv st) (h : Ordinary st cl col p d) {code : Nat}
    (hpush : pushOps pDuid pCol ⟨(absLog st p.duid).length, (absRec st p.duid cl.cuid).cseq⟩ p.ops [] = .error code) :
    let r := processPack st cl col p
    r.store = st ∧ r.resp.error = true ∧ r.resp.ops = [⟨OpId.nil, .error code⟩] ∧
    r.resp.key = p.key ∧ r.resp.duid = p.duid ∧ r.pushed = 0 ∧ r.notif = none :=
  processPack_is_refuse inv h hpush

open Orda.SRef in
/-- a subscribe request is served like an empty request: the log is untouched, the client is recorded at the end of the log, the answer
    is the log after the request's position, under the STORED datatype id -/
theorem store_server_subscribe_is_empty_serve {st : Store} {cl : ClientDoc} {col : CollectionDoc} {p : Pack} {d : DatatypeDoc}
    (inv : LogInv st) (h : SubscribeReq st cl col p d) :
    let r := processPack st cl col p
    let cp2 : CheckPoint := ⟨(absLog st d.duid).length, (absRec st d.duid cl.cuid).cseq⟩
    absLog r.store d.duid = absLog st d.duid ∧
    absCps r.store d.duid = alSet cl.cuid cp2 (absCps st d.duid) ∧
    r.resp.ops = (absLog st d.duid).drop p.cp.sseq ∧
    r.resp.cp = cp2 ∧
    r.resp.error = false ∧ r.resp.subscribe = true ∧ r.resp.duid = d.duid ∧ r.resp.key = p.key ∧
    r.store.operations = st.operations ∧ r.pushed = 0 ∧
    (∀ u, u ≠ d.duid → r.store.getDatatype u = st.getDatatype u) ∧
    LogInv r.store :=
  processPack_is_serveSub inv h

end Orda.Props.C06
