/-
C06 — A datatype's server log is a gapless total order of exactly the pushed ops.
`LogInv` is an inductive invariant of the store under EVERY request of EVERY client (arbitrary
option bits, checkpoints, operation lists: empty, duplicated, gapped, foreign ids).
-/
import Orda.Proofs.ServerLog
namespace Orda.Props.C06
open Orda

theorem log_invariant_initially : LogInv {} := logInv_empty

/-- any pack of any client keeps the log gapless 1..End, ids unique, no orphaned operation,
    operations under their datatype's collection number, recorded checkpoints within the log -/
theorem log_invariant_any_pack (st : Store) (cl : ClientDoc) (col : CollectionDoc) (p : Pack) (h : LogInv st) :
    LogInv (processPack st cl col p).store := logInv_processPack st cl col p h

theorem log_invariant_any_request (st : Store) (colName cuid : String) (packs : List Pack) (h : LogInv st) :
    LogInv (st.processPushPull colName cuid packs).1 := logInv_processPushPull st colName cuid packs h

/-- … and so do client registration, snapshot updates, collection creation and reset -/
theorem log_invariant_other_requests (st : Store) (admin : Bool) (colName duid name : String) (cl : ClientDoc)
    (h : LogInv st) :
    LogInv (st.processClient admin colName cl).1 ∧ LogInv (st.updateSnapshot duid colName) ∧
    LogInv (st.resetCollection name) ∧ LogInv (st.makeCollection name).1 :=
  ⟨logInv_processClient st admin colName cl h, logInv_updateSnapshot st duid colName h,
   logInv_resetCollection st name h, logInv_makeCollection st name h⟩

/-- the log only grows by appending; what is appended are accepted operations of the request, each once,
    in the order given -/
theorem pushed_stored_once_in_order (st : Store) (cl : ClientDoc) (col : CollectionDoc) (p : Pack) :
    ∃ newDocs : List OpDoc, (processPack st cl col p).store.operations = st.operations ++ newDocs ∧
      (newDocs.map (·.op)).Sublist p.ops := processPack_stores_pushed st cl col p

/-- neither the end of the log nor a client's acknowledged sequence ever goes back -/
theorem end_and_cseq_monotone (st : Store) (cl : ClientDoc) (col : CollectionDoc) (p : Pack) (d d' : DatatypeDoc)
    (s s' : SubClient) (h : LogInv st) (hd : d ∈ st.datatypes) (hs : d.sub cl.cuid false = some s)
    (hd' : d' ∈ (processPack st cl col p).store.datatypes) (hid : d'.duid = d.duid)
    (hs' : d'.sub cl.cuid false = some s') : s.cp.cseq ≤ s'.cp.cseq ∧ d.sseqEnd ≤ d'.sseqEnd :=
  cseq_monotone' st cl col p d d' s s' h hd hs hd' hid hs'

end Orda.Props.C06
