/-
C15 — Operation and element identifiers are unique and respect causality.
Property theorems only; helper lemmas live in Orda/Proofs.
-/
import Orda.Proofs.HashCmp
namespace Orda.Props.C15
open Orda

/-- Identifier keys: the format found in the current source (Gen.hashFormat, regenerated on every
    run) renders distinct timestamps — any era, clock, client id and batch index — to distinct keys,
    so the Go index `Map[ts.Hash()]` is a map keyed by the identifier itself. -/
theorem hash_injective (a b : Ts) (h : hashKey a = hashKey b) : a = b :=
  hashKey_injective a b h

/-- the decidable separation criterion holds of the generated format (a proof obligation on the code) -/
theorem hash_format_well_separated : WellSeparated Gen.hashFormat = true :=
  hashFormat_wellSeparated

/-- the separator-less format this code base used to have is not injective (smallest witness) -/
theorem old_format_collides :
    renderHash [.era, .lamport, .delim, .cuid] ⟨0, 1, "c", 10⟩ =
      renderHash [.era, .lamport, .delim, .cuid] ⟨0, 11, "c", 0⟩ ∧ (1, 10) ≠ (11, 0) :=
  ⟨concat_format_collides, by decide⟩

/-- Timestamp comparison is a strict total order on (era, clock, client id) -/
theorem cmp_strict_total (a b c : Ts) :
    (a.cmp b = .eq ↔ a.key = b.key) ∧
    (a.cmp b = .gt ↔ b.cmp a = .lt) ∧
    (a.cmp b = .lt → b.cmp c = .lt → a.cmp c = .lt) ∧
    a.cmp a ≠ .lt ∧
    (a.cmp b = .lt ∨ a.cmp b = .eq ∨ a.cmp b = .gt) :=
  ⟨cmp_eq_iff a b, cmp_gt_iff_lt a b, cmp_lt_trans a b c, cmp_lt_irrefl a, by cases a.cmp b <;> simp⟩

/-- the comparison as written in the source (int32 / int64 differences; shape regenerated from the
    source) agrees with that order for all clocks below 2^63 and eras below 2^31 -/
theorem cmp_as_written (a b : Ts) (h : NoWrap a b) : a.cmp64 b = a.cmp b :=
  cmp64_eq_cmp a b h

/-- … and only there: beyond the guard it is not transitive (out of range for any real history) -/
theorem cmp_as_written_wraps : ∃ a b c : Ts, a.cmp64 b = .lt ∧ b.cmp64 c = .lt ∧ a.cmp64 c = .gt :=
  cmp64_not_transitive

/-- a later clock value of the same era orders after every earlier one, whatever the client ids:
    this is what makes a new local operation newer than everything its replica has applied -/
theorem later_clock_is_newer (a b : Ts) (he : a.era = b.era) (hl : a.lamport < b.lamport) :
    a.cmp b = .lt :=
  cmp_lt_of_lamport_lt a b he hl

-- non-vacuity of the guard
example : NoWrap ⟨0, 5, "a", 0⟩ ⟨0, 9, "b", 3⟩ := by unfold NoWrap; decide

end Orda.Props.C15
