/-
C15 — Operation and element identifiers are unique and respect causality.
Property theorems only; helper lemmas live in Orda/Proofs.
-/
import Orda.Proofs.HashCmp
import Orda.Proofs.SeqSnap
namespace Orda.Props.C15
open Orda

/-- Identifier keys: the format found in the current source (Gen.hashFormat, regenerated on every
    run) renders distinct timestamps — any era, clock, client id and batch index — to distinct keys,
    so the Go index `Map[ts.Hash()]` is a map keyed by the identifier itself. -/
theorem hash_injective (a b : Ts) (h : hashKey a = hashKey b) : a = b :=
  hashKey_injective a b h

/-- the decidable separation criterion holds of the generated format (a proof obligation on the code) -/
theorem hash_format_well_separated : WellSeparated Gen.hashFormat = true :=
  hashFormat_wellSeparated

/-- the separator-less format this code base used to have is not injective (smallest witness) -/
theorem old_format_collides :
    renderHash [.era, .lamport, .delim, .cuid] ⟨0, 1, "c", 10⟩ =
      renderHash [.era, .lamport, .delim, .cuid] ⟨0, 11, "c", 0⟩ ∧ (1, 10) ≠ (11, 0) :=
  ⟨concat_format_collides, by decide⟩

/-- Timestamp comparison is a strict total order on (era, clock, client id) -/
theorem cmp_strict_total (a b c : Ts) :
    (a.cmp b = .eq ↔ a.key = b.key) ∧
    (a.cmp b = .gt ↔ b.cmp a = .lt) ∧
    (a.cmp b = .lt → b.cmp c = .lt → a.cmp c = .lt) ∧
    a.cmp a ≠ .lt ∧
    (a.cmp b = .lt ∨ a.cmp b = .eq ∨ a.cmp b = .gt) :=
  ⟨cmp_eq_iff a b, cmp_gt_iff_lt a b, cmp_lt_trans a b c, cmp_lt_irrefl a, by cases a.cmp b <;> simp⟩

/-- the comparison as written in the source (int32 / int64 differences; shape regenerated from the
    source) agrees with that order for all clocks below 2^63 and eras below 2^31 -/
theorem cmp_as_written (a b : Ts) (h : NoWrap a b) : a.cmp64 b = a.cmp b :=
  cmp64_eq_cmp a b h

/-- … and only there: beyond the guard it is not transitive (out of range for any real history) -/
theorem cmp_as_written_wraps : ∃ a b c : Ts, a.cmp64 b = .lt ∧ b.cmp64 c = .lt ∧ a.cmp64 c = .gt :=
  cmp64_not_transitive

/-- a later clock value of the same era orders after every earlier one, whatever the client ids:
    this is what makes a new local operation newer than everything its replica has applied -/
theorem later_clock_is_newer (a b : Ts) (he : a.era = b.era) (hl : a.lamport < b.lamport) :
    a.cmp b = .lt :=
  cmp_lt_of_lamport_lt a b he hl

/-- each client numbers its queued operations base+1, base+2, … without gaps (base = 0 for a fresh
    datatype, the source's count for a restored one); kept by calls (failing ones included),
    transactions (rolled back ones included) and remote deliveries -/
theorem seq_gapless_new (typ : DtType) (cuid : String) (create : Bool) : (Replica.new typ cuid create).SeqInv 0 :=
  seqInv_new typ cuid create
theorem seq_gapless_call (base : Nat) (r : Replica) (c : Call) (h : r.SeqInv base)
    (hp : (r.call c).2.isPanic = false) : (r.call c).1.SeqInv base := seqInv_call base r c h hp
theorem seq_gapless_tx (base : Nat) (r : Replica) (tag : String) (calls : List Call) (stop fail : Bool)
    (h : r.SeqInv base) (hr : r.RbInv) (hp : (r.txCalls tag calls stop fail).2.2.isPanic = false) :
    (r.txCalls tag calls stop fail).1.SeqInv base := seqInv_txCalls base r tag calls stop fail h hr hp
theorem seq_gapless_receive (base : Nat) (r : Replica) (ops : List Op) (h : r.SeqInv base) :
    (r.receive ops).1.SeqInv base := seqInv_receive base r ops h

/-- the clock never goes back, is at least the clock of every operation that was executed, and every
    operation a call emits is stamped strictly later than the clock before the call -/
theorem clock_monotone (r : Replica) (c : Call) (ops : List Op) :
    r.opId.lamport ≤ (r.call c).1.opId.lamport ∧ r.opId.lamport ≤ (r.receive ops).1.opId.lamport :=
  ⟨lamport_mono_call r c, lamport_mono_receive r ops⟩
theorem clock_covers_applied (r : Replica) (ops : List Op) (h : (r.receive ops).2 = .ok ())
    (hdom : ∀ o ∈ ops, ¬ o.executed → ∃ o' ∈ ops, o'.executed ∧ o.id.lamport ≤ o'.id.lamport) :
    ∀ o ∈ ops, o.id.lamport ≤ (r.receive ops).1.opId.lamport :=
  receive_lamport_ge_of_headers_dominated r ops h hdom
theorem local_after_applied (r : Replica) (c : Call) :
    ∀ o ∈ (r.call c).1.buffer.drop r.buffer.length, r.opId.lamport < o.id.lamport :=
  call_emits_newer r c

-- non-vacuity of the guard
example : NoWrap ⟨0, 5, "a", 0⟩ ⟨0, 9, "b", 3⟩ := by unfold NoWrap; decide

end Orda.Props.C15
