import Orda.Model.Api
namespace Orda.Props.C15
end Orda.Props.C15
