import Orda.Model.Api
namespace Orda.Props.C03
end Orda.Props.C03
