/-
C03 — Without concurrency each datatype behaves as its plain data structure.
(counter, map, list; documents: see the `…_doc` section of DESIGN.md §6 C03 — correspondence only so far)
-/
import Orda.Proofs.PlainRefine
namespace Orda.Props.C03
open Orda

/-- the single-replica invariant holds initially and is kept by EVERY call, valid or not -/
theorem invariant_reachable (typ : DtType) (cuid : String) (create : Bool) (h : typ ≠ .document)
    (calls : List Call) :
    LocalInv (calls.foldl (fun r c => (r.call c).1) (Replica.new typ cuid create)) ∧
    isDocState (calls.foldl (fun r c => (r.call c).1) (Replica.new typ cuid create)).state = false := by
  have key : ∀ (cs : List Call) (r : Replica), LocalInv r → isDocState r.state = false →
      LocalInv (cs.foldl (fun r c => (r.call c).1) r) ∧
      isDocState (cs.foldl (fun r c => (r.call c).1) r).state = false := by
    intro cs
    induction cs with
    | nil => intro r h1 h2; exact ⟨h1, h2⟩
    | cons c cs ih =>
      intro r h1 h2
      have h1' := localInv_call r c h1 h2
      have h2' : isDocState (r.call c).1.state = false := by
        rcases call_cases r c h1 h2 with ⟨o, ho, _⟩ | ⟨s', b', ret, ho, _, _, _, hdoc⟩
        · rw [ho]; exact h2
        · rw [ho]; exact hdoc
      exact ih _ h1' h2'
  refine key calls _ (localInv_new typ cuid create h) ?_
  cases typ <;> cases create <;> simp_all [Replica.new, DState.fresh, isDocState]

/-- refinement: every call a typed handle can issue returns what the plain structure returns and
    leaves the readable state the plain structure's next value -/
theorem refines_plain (r : Replica) (c : Call) (h : LocalInv r) (hd : isDocState r.state = false)
    (hf : callFits r.state c = true) :
    (r.call c).2 = (Plain.step (Plain.abs r.state) c).2 ∧
    Plain.equiv (Plain.abs (r.call c).1.state) (Plain.step (Plain.abs r.state) c).1 :=
  call_refines_plain_typed r c h hd hf

/-- a refused call changes nothing at all: readable state, identifiers, queued operations -/
theorem refused_is_noop (r : Replica) (c : Call) (h : LocalInv r) (hd : isDocState r.state = false) (e : Nat)
    (he : (r.call c).2 = .err e) : (r.call c).1 = r :=
  call_err_noop r c h hd e he

/-- no call panics -/
theorem never_panics (r : Replica) (c : Call) (h : LocalInv r) (hd : isDocState r.state = false) (w : String) :
    (r.call c).2 ≠ .panic w :=
  call_no_panic r c h hd w

/-- a successful call queues nothing (a read) or exactly one operation carrying the next identifier -/
theorem ok_queues_at_most_one (r : Replica) (c : Call) (h : LocalInv r) (hd : isDocState r.state = false)
    (v : Ret) (hok : (r.call c).2 = .ok v) :
    (r.call c).1.buffer = r.buffer ∨ ∃ o : Op, (r.call c).1.buffer = r.buffer ++ [o] ∧ o.id = r.opId.next :=
  call_ok_queues_one r c h hd v hok

-- non-vacuity: a fresh list replica meets the hypotheses and an out-of-range delete is refused
example : LocalInv (Replica.new .list "c" true) := localInv_new .list "c" true (by decide)
example : ((Replica.new .list "c" true).call (.ldelete 0)).2 = .err Err.illegalParameters := by
  simp [Replica.call, Call.prepare, Replica.new, DState.fresh, Rga.validateRange, Rga.empty, Err.illegalParameters]

end Orda.Props.C03
