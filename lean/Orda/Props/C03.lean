/-
C03 — Without concurrency each datatype behaves as its plain data structure.
Counter, map, list: refinement to `Spec/Plain`.  Documents: refinement to the plain JSON tree of `Spec/PlainDoc`
(a handle is a pointer to a container node that sits at one path of the tree at any moment) — section `document` below.
-/
import Orda.Proofs.PlainRefine
import Orda.Proofs.DocPlain
import Orda.Proofs.DocRemoteInv
namespace Orda.Props.C03
open Orda

/-- the single-replica invariant holds initially and is kept by EVERY call, valid or not -/
theorem invariant_reachable (typ : DtType) (cuid : String) (create : Bool) (h : typ ≠ .document)
    (calls : List Call) :
    LocalInv (calls.foldl (fun r c => (r.call c).1) (Replica.new typ cuid create)) ∧
    isDocState (calls.foldl (fun r c => (r.call c).1) (Replica.new typ cuid create)).state = false := by
  have key : ∀ (cs : List Call) (r : Replica), LocalInv r → isDocState r.state = false →
      LocalInv (cs.foldl (fun r c => (r.call c).1) r) ∧
      isDocState (cs.foldl (fun r c => (r.call c).1) r).state = false := by
    intro cs
    induction cs with
    | nil => intro r h1 h2; exact ⟨h1, h2⟩
    | cons c cs ih =>
      intro r h1 h2
      have h1' := localInv_call r c h1 h2
      have h2' : isDocState (r.call c).1.state = false := by
        rcases call_cases r c h1 h2 with ⟨o, ho, _⟩ | ⟨s', b', ret, ho, _, _, _, hdoc⟩
        · rw [ho]; exact h2
        · rw [ho]; exact hdoc
      exact ih _ h1' h2'
  refine key calls _ (localInv_new typ cuid create h) ?_
  cases typ <;> cases create <;> simp_all [Replica.new, DState.fresh, isDocState]

/-- refinement: every call a typed handle can issue returns what the plain structure returns and
    leaves the readable state the plain structure's next value -/
theorem refines_plain (r : Replica) (c : Call) (h : LocalInv r) (hd : isDocState r.state = false)
    (hf : callFits r.state c = true) :
    (r.call c).2 = (Plain.step (Plain.abs r.state) c).2 ∧
    Plain.equiv (Plain.abs (r.call c).1.state) (Plain.step (Plain.abs r.state) c).1 :=
  call_refines_plain_typed r c h hd hf

/-- a refused call changes nothing at all: readable state, identifiers, queued operations -/
theorem refused_is_noop (r : Replica) (c : Call) (h : LocalInv r) (hd : isDocState r.state = false) (e : Nat)
    (he : (r.call c).2 = .err e) : (r.call c).1 = r :=
  call_err_noop r c h hd e he

/-- no call panics -/
theorem never_panics (r : Replica) (c : Call) (h : LocalInv r) (hd : isDocState r.state = false) (w : String) :
    (r.call c).2 ≠ .panic w :=
  call_no_panic r c h hd w

/-- a successful call queues nothing (a read) or exactly one operation carrying the next identifier -/
theorem ok_queues_at_most_one (r : Replica) (c : Call) (h : LocalInv r) (hd : isDocState r.state = false)
    (v : Ret) (hok : (r.call c).2 = .ok v) :
    (r.call c).1.buffer = r.buffer ∨ ∃ o : Op, (r.call c).1.buffer = r.buffer ++ [o] ∧ o.id = r.opId.next :=
  call_ok_queues_one r c h hd v hok

-- non-vacuity: a fresh list replica meets the hypotheses and an out-of-range delete is refused
example : LocalInv (Replica.new .list "c" true) := localInv_new .list "c" true (by decide)
example : ((Replica.new .list "c" true).call (.ldelete 0)).2 = .err Err.illegalParameters := by
  simp [Replica.call, Call.prepare, Replica.new, DState.fresh, Rga.validateRange, Rga.empty, Err.illegalParameters]

/-! ### documents -/

/-- the single-replica invariant of a document holds initially and is kept by EVERY call, valid or not
    (`CallKeysND`: no object in an argument has a duplicate key — a Go map cannot have one) -/
theorem doc_invariant_reachable (cuid : String) (create : Bool) (cs : List Call) (hk : ∀ c ∈ cs, DP.CallKeysND c) :
    DP.DocInv (cs.foldl (fun r c => (r.call c).1) (Replica.new .document cuid create)) :=
  DP.docInv_calls cuid create cs hk

/-- refinement: a call made through a handle that currently sits at path π of the JSON tree returns what the plain
    tree returns (values in canonical form) and changes the JSON view exactly as the plain tree changes —
    put / remove / insert / delete / update at that path, nothing else; refused calls return the plain tree's error code -/
theorem doc_refines_plain_tree (r : Replica) (d : Doc) (hs : r.state = .doc d) (h : DP.DocInv r) (π : List PlainDoc.Seg)
    (hd : Ts) (hloc : d.locate π Ts.oldest = some hd) (c : Call) (hc : PlainDoc.handleOf c = some hd)
    (hk : DP.CallKeysND c) :
    ∃ d', (r.call c).1.state = .doc d' ∧
      d'.view.canon = (PlainDoc.step d.view.canon π c).1 ∧
      PlainDoc.outCanon (r.call c).2 = (PlainDoc.step d.view.canon π c).2 :=
  DP.doc_call_refines r d hs h π hd hloc c hc hk

/-- the handles of the live tree are exactly the nodes that are not garbage: every live node sits at a path … -/
theorem doc_live_handle_sits_at_a_path (r : Replica) (d : Doc) (hs : r.state = .doc d) (h : DP.DocInv r) (hd : Ts)
    (n : DNode) (hf : d.find hd = some n) (hg : d.garbage hd = false) : ∃ π, d.locate π Ts.oldest = some hd :=
  DP.doc_live_handle_has_path r d hs h hd n hf hg

/-- … and a node that sits at a path is live -/
theorem doc_path_means_live (r : Replica) (d : Doc) (hs : r.state = .doc d) (h : DP.DocInv r) (π : List PlainDoc.Seg)
    (hd : Ts) (hloc : d.locate π Ts.oldest = some hd) : d.garbage hd = false ∧ (d.find hd).isSome :=
  DP.doc_located_not_garbage r d hs h π hd hloc

/-- an already deleted container (the node or one of its ancestors was removed or replaced): every mutating call
    through its handle is refused … -/
theorem doc_deleted_container_is_refused (r : Replica) (d : Doc) (hs : r.state = .doc d) (h : DP.DocInv r) (hd : Ts)
    (hg : d.garbage hd = true) (c : Call) (hc : PlainDoc.handleOf c = some hd) (hm : DP.isMutating c = true) :
    ∃ e, (r.call c).2 = .err e :=
  DP.doc_deleted_container_refused r d hs h hd hg c hc hm

/-- … and a refused document call (whatever the reason: wrong container kind, null value, index out of range, deleted
    container, unknown handle) changes nothing at all: readable state, identifiers, queued operations -/
theorem doc_refused_is_noop (r : Replica) (c : Call) (h : DP.DocInv r) (e : Nat) (he : (r.call c).2 = .err e) :
    (r.call c).1 = r :=
  DP.doc_call_err_noop r c h e he

/-- no document call panics -/
theorem doc_never_panics (r : Replica) (c : Call) (h : DP.DocInv r) (w : String) : (r.call c).2 ≠ .panic w :=
  DP.doc_call_no_panic r c h w

/-- a successful document call queues nothing (a read) or exactly one operation carrying the next identifier -/
theorem doc_ok_queues_at_most_one (r : Replica) (c : Call) (h : DP.DocInv r) (v : Ret) (hok : (r.call c).2 = .ok v) :
    (r.call c).1.buffer = r.buffer ∨ ∃ o : Op, (r.call c).1.buffer = r.buffer ++ [o] ∧ o.id = r.opId.next :=
  DP.doc_call_ok_queues_one r c h v hok

/-! ### documents shaped by concurrency
C03 itself is about a single replica without remote operations; the refinement nevertheless holds in every state reached by
calls AND deliveries (what a Document handle is used on in practice). -/

/-- the document invariant is kept by every applicable remote operation (parent and targets present, fresh identifiers —
    what causal delivery from well-formed replicas guarantees), winning or losing -/
theorem doc_invariant_survives_delivery (r : Replica) (d : Doc) (hs : r.state = .doc d) (h : DP.DocInv r) (o : Op)
    (x : DM.DOp) (hx : DR.toDOp o = some x) (hok : DM.GoodD d [x]) (hera : o.id.era = r.opId.era) (hv : DR.ValuesOK x) :
    DP.DocInv (r.execRemoteBase o).1 := DR.docInv_remote r d hs h o x hx hok hera hv

/-- in every state of a replica's life (calls and deliveries in any order) a call through a located handle acts as on
    the plain JSON tree -/
theorem doc_refines_plain_tree_in_any_reachable_state (cuid : String) (create : Bool) (r : Replica)
    (h : DR.Life cuid create r) (d : Doc) (hs : r.state = .doc d) (π : List PlainDoc.Seg) (hd : Ts)
    (hloc : d.locate π Ts.oldest = some hd) (c : Call) (hc : PlainDoc.handleOf c = some hd) (hk : DP.CallKeysND c) :
    ∃ d', (r.call c).1.state = .doc d' ∧ d'.view.canon = (PlainDoc.step d.view.canon π c).1 ∧
      PlainDoc.outCanon (r.call c).2 = (PlainDoc.step d.view.canon π c).2 :=
  DR.life_call_refines cuid create r h d hs π hd hloc c hc hk

end Orda.Props.C03
