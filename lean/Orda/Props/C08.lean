/-
C08 — A storage failure during a sync leaves recoverable, consistent state.
A push is persisted by two writes; the datatype document (end of log, checkpoints) is the commit
point.  Operation documents beyond the recorded end of log are uncommitted leftovers: never handed
out (`committedView`), removed by the next push.  `processPushPullFault` is a request during which
one database command fails (or is the last one before the server restarts: nothing after it runs).
-/
import Orda.Proofs.FaultRecovery
namespace Orda.Props.C08
open Orda

/-- in every state satisfying the log invariant there are no leftovers -/
theorem invariant_states_have_no_leftovers (st : Store) (h : LogInv st) : st.committedView = (st, []) :=
  committedView_of_logInv st h

/-- a fault at a read command: the store is unchanged and the client gets an error (RPC error, error pack,
    or the refusal it would have got anyway) — never silence -/
theorem read_fault_is_clean_error (st : Store) (colName cuid : String) (p : Pack) (f : FaultAt)
    (hf : f = .findCollections ∨ f = .findClients ∨ f = .findDatatypes ∨ f = .findOperations) :
    (st.processPushPullFault colName cuid p f).1 = st ∧
    ((∃ code, (st.processPushPullFault colName cuid p f).2.1 = .rpcErr code) ∨
     (∃ code, (st.processPushPullFault colName cuid p f).2.1 = .errPack code) ∨
     (∃ rp, (st.processPushPullFault colName cuid p f).2.1 = .normal rp ∧ rp.error = true)) :=
  fault_before_write_unchanged' st colName cuid p f hf

/-- the window between the two writes: only operation documents were appended … -/
theorem between_writes_only_appends (st : Store) (colName cuid : String) (p : Pack) :
    let st' := (st.processPushPullFault colName cuid p .updateDatatypes).1
    st'.datatypes = st.datatypes ∧ st'.clients = st.clients ∧ st'.collections = st.collections ∧
    st'.snapshots = st.snapshots ∧ st'.userDocs = st.userDocs ∧ st'.counter = st.counter ∧
    ∃ extra, st'.operations = st.operations ++ extra :=
  fault_between_writes_shape st colName cuid p

/-- … and they are invisible: the committed view after the fault IS the state before the request, so every
    later request — the retry included — behaves as if the failed request had never happened -/
theorem between_writes_recoverable (st : Store) (colName cuid : String) (p : Pack) (h : LogInv st) :
    ((st.processPushPullFault colName cuid p .updateDatatypes).1).committedView.1 = st :=
  fault_between_writes_invisible st colName cuid p h

/-- nothing acknowledged is lost: whatever command fails, committed operation documents are never removed
    or rewritten — the committed view only grows -/
theorem acknowledged_never_lost (st : Store) (colName cuid : String) (p : Pack) (f : FaultAt) (h : LogInv st) :
    ∃ extra, ((st.processPushPullFault colName cuid p f).1).committedView.1.operations = st.operations ++ extra :=
  fault_keeps_committed st colName cuid p f h

/-- the stored log stays a gapless exactly-once order: the committed view after ANY faulted request
    satisfies the log invariant of C06 -/
theorem log_invariant_after_any_fault (st : Store) (colName cuid : String) (p : Pack) (f : FaultAt) (h : LogInv st) :
    LogInv ((st.processPushPullFault colName cuid p f).1).committedView.1 :=
  logInv_after_fault st colName cuid p f h

/-- a fault during the post-response snapshot update leaves what the request committed untouched -/
theorem background_fault_harmless (st : Store) (colName cuid : String) (p : Pack) (col : CollectionDoc) (cl : ClientDoc)
    (hcol : st.getCollection colName = some col) (hcl : st.getClient cuid = some cl) (hnum : cl.colNum = col.num)
    (f : FaultAt) (hf : f = .background ∨ f = .bgUserDoc) :
    (st.processPushPullFault colName cuid p f).1 = (processPack st cl col p).store :=
  background_fault_commits st colName cuid p col cl hcol hcl hnum f hf

end Orda.Props.C08
