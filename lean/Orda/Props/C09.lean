/-
C09 — Transactions are all-or-nothing, locally and on every replica.
Generic over the datatype: rollback = restore the rollback snapshot and replay; the invariant `RbInv`
("replaying the rollback operations on the rollback snapshot yields exactly the current state")
holds in every state reachable without a panic, whatever the prior history.
-/
import Orda.Proofs.Replay
namespace Orda.Props.C09
open Orda

/-- the rollback invariant holds initially and is kept by calls, transactions and remote deliveries -/
theorem rollback_invariant_new (typ : DtType) (cuid : String) (create : Bool) :
    (Replica.new typ cuid create).RbInv := rbInv_new typ cuid create
theorem rollback_invariant_call (r : Replica) (c : Call) (h : r.RbInv) (hp : (r.call c).2.isPanic = false) :
    (r.call c).1.RbInv := rbInv_call r c h hp
theorem rollback_invariant_tx (r : Replica) (tag : String) (calls : List Call) (stop fail : Bool) (h : r.RbInv)
    (hp : (r.txCalls tag calls stop fail).2.2.isPanic = false) :
    (r.txCalls tag calls stop fail).1.RbInv := rbInv_txCalls r tag calls stop fail h hp
theorem rollback_invariant_receive (r : Replica) (ops : List Op) (h : r.RbInv)
    (hforeign : ∀ o ∈ ops, o.id.cuid ≠ r.opId.cuid) (hp : (r.receive ops).2.isPanic = false) :
    (r.receive ops).1.RbInv := rbInv_receive r ops h hforeign hp

/-- a transaction whose body returns an error — any body: valid and invalid calls, reads, early
    return — leaves readable state, pending operations, next identifiers and checkpoint as they were -/
theorem failed_transaction_restores (r : Replica) (h : r.RbInv) (tag : String) (calls : List Call)
    (stop fail : Bool) (c : Nat) (herr : (r.txCalls tag calls stop fail).2.2 = .err c) :
    let r' := (r.txCalls tag calls stop fail).1
    r'.opId = r.opId ∧ r'.state = r.state ∧ r'.buffer = r.buffer ∧ r'.cp = r.cp :=
  txCalls_fail_restores r h tag calls stop fail c herr

/-- the rollback itself never fails: a transaction can only end in a panic if one of its own calls did -/
theorem rollback_never_fails (r : Replica) (h : r.RbInv) (tag : String) (calls : List Call)
    (stop fail : Bool) (w : String) (hpan : (r.txCalls tag calls stop fail).2.2 = .panic w) :
    ∃ o ∈ (r.txCalls tag calls stop fail).2.1, o.isPanic = true :=
  txCalls_panic_only_from_body r h tag calls stop fail w hpan

/-- a committed transaction is queued as ONE contiguous unit that announces its own length -/
theorem committed_is_one_unit (r : Replica) (tag : String) (calls : List Call) (stop fail : Bool)
    (hok : (r.txCalls tag calls stop fail).2.2 = .ok ()) :
    let r' := (r.txCalls tag calls stop fail).1
    ∃ unit : List Op, r'.buffer = r.buffer ++ unit ∧
      (unit.head?.map (·.body)) = some (.transaction tag unit.length) ∧
      unit.map (·.id.seq) = List.range' (r.opId.seq + 1) unit.length ∧
      r'.opId.seq = r.opId.seq + unit.length :=
  txCalls_commit_unit r tag calls stop fail hok

/-- remote half: an announced unit is applied completely or, if refused, not at all -/
theorem refused_unit_unchanged (r : Replica) (unit : List Op) (c : Nat)
    (h : (r.applyUnit unit).2 = .err c) : (r.applyUnit unit).1 = r :=
  applyUnit_err_unchanged r unit c h

/-- a header announcing a non-positive length, or more operations than were received, is refused
    before anything is applied — no loop, no panic -/
theorem malformed_header_refused (r : Replica) (hd : Op) (rest : List Op) (tag : String) (n : Int)
    (hb : hd.body = .transaction tag n) (hbad : n < 1 ∨ n.toNat > (hd :: rest).length) :
    r.receive (hd :: rest) = (r, .err Err.transaction) :=
  receive_bad_header r hd rest tag n hb hbad

end Orda.Props.C09
