/-
C09 — Transactions are all-or-nothing, locally and on every replica.
Generic over the datatype: rollback = restore the rollback snapshot and replay; the invariant `RbInv`
("replaying the rollback operations on the rollback snapshot yields exactly the current state")
holds in every state reachable without a panic, whatever the prior history.
-/
import Orda.Proofs.Replay
import Orda.Proofs.ListTxNet
import Orda.Proofs.MapTxNet
import Orda.Proofs.DocTxNet
import Orda.Proofs.TxNetCreate
import Orda.Proofs.FlatTxNetCreate
namespace Orda.Props.C09
open Orda

/-- the rollback invariant holds initially and is kept by calls, transactions and remote deliveries -/
theorem rollback_invariant_new (typ : DtType) (cuid : String) (create : Bool) :
    (Replica.new typ cuid create).RbInv := rbInv_new typ cuid create
theorem rollback_invariant_call (r : Replica) (c : Call) (h : r.RbInv) (hp : (r.call c).2.isPanic = false) :
    (r.call c).1.RbInv := rbInv_call r c h hp
theorem rollback_invariant_tx (r : Replica) (tag : String) (calls : List Call) (stop fail : Bool) (h : r.RbInv)
    (hp : (r.txCalls tag calls stop fail).2.2.isPanic = false) :
    (r.txCalls tag calls stop fail).1.RbInv := rbInv_txCalls r tag calls stop fail h hp
theorem rollback_invariant_receive (r : Replica) (ops : List Op) (h : r.RbInv)
    (hforeign : ∀ o ∈ ops, o.id.cuid ≠ r.opId.cuid) (hp : (r.receive ops).2.isPanic = false) :
    (r.receive ops).1.RbInv := rbInv_receive r ops h hforeign hp

/-- a transaction whose body returns an error — any body: valid and invalid calls, reads, early
    return — leaves readable state, pending operations, next identifiers and checkpoint as they were -/
theorem failed_transaction_restores (r : Replica) (h : r.RbInv) (tag : String) (calls : List Call)
    (stop fail : Bool) (c : Nat) (herr : (r.txCalls tag calls stop fail).2.2 = .err c) :
    let r' := (r.txCalls tag calls stop fail).1
    r'.opId = r.opId ∧ r'.state = r.state ∧ r'.buffer = r.buffer ∧ r'.cp = r.cp :=
  txCalls_fail_restores r h tag calls stop fail c herr

/-- the rollback itself never fails: a transaction can only end in a panic if one of its own calls did -/
theorem rollback_never_fails (r : Replica) (h : r.RbInv) (tag : String) (calls : List Call)
    (stop fail : Bool) (w : String) (hpan : (r.txCalls tag calls stop fail).2.2 = .panic w) :
    ∃ o ∈ (r.txCalls tag calls stop fail).2.1, o.isPanic = true :=
  txCalls_panic_only_from_body r h tag calls stop fail w hpan

/-- a committed transaction is queued as ONE contiguous unit that announces its own length -/
theorem committed_is_one_unit (r : Replica) (tag : String) (calls : List Call) (stop fail : Bool)
    (hok : (r.txCalls tag calls stop fail).2.2 = .ok ()) :
    let r' := (r.txCalls tag calls stop fail).1
    ∃ unit : List Op, r'.buffer = r.buffer ++ unit ∧
      (unit.head?.map (·.body)) = some (.transaction tag unit.length) ∧
      unit.map (·.id.seq) = List.range' (r.opId.seq + 1) unit.length ∧
      r'.opId.seq = r.opId.seq + unit.length :=
  txCalls_commit_unit r tag calls stop fail hok

/-- remote half: an announced unit is applied completely or, if refused, not at all -/
theorem refused_unit_unchanged (r : Replica) (unit : List Op) (c : Nat)
    (h : (r.applyUnit unit).2 = .err c) : (r.applyUnit unit).1 = r :=
  applyUnit_err_unchanged r unit c h

/-- a header announcing a non-positive length, or more operations than were received, is refused
    before anything is applied — no loop, no panic -/
theorem malformed_header_refused (r : Replica) (hd : Op) (rest : List Op) (tag : String) (n : Int)
    (hb : hd.body = .transaction tag n) (hbad : n < 1 ∨ n.toNat > (hd :: rest).length) :
    r.receive (hd :: rest) = (r, .err Err.transaction) :=
  receive_bad_header r hd rest tag n hb hbad

/-! ### END TO END (`LTx`, Proofs/ListTxNet; List datatype): n replicas with pairwise distinct client ids and one server log;
steps: any public call, any user TRANSACTION (`Replica.txCalls`: body of arbitrary calls, stop-on-error or not, user function
failing at the end or not), push of a replica's whole pending buffer in one request, pull of the whole rest of the log through ONE
`Replica.receive` — in any interleaving. -/

open Orda.LTx in
/-- a transaction whose body returns an error leaves the readable state, the pending operations, the next operation identifier
    and the checkpoint exactly as they were — in every reachable state of the system; and a transaction never panics -/
theorem failed_transaction_changes_nothing_anywhere (cuid : Nat → String) (n : Nat) (net : LNet.Net) (h : LTx.Reach cuid n net)
    (i : Nat) (nd : LNet.Node) (hi : net.nodes[i]? = some nd) (tag : String) (calls : List Call) (stopOnErr failAtEnd : Bool) :
    ((nd.r.txCalls tag calls stopOnErr failAtEnd).2.2 = .ok () ∨ ∃ c, (nd.r.txCalls tag calls stopOnErr failAtEnd).2.2 = .err c) ∧
    (∀ c, (nd.r.txCalls tag calls stopOnErr failAtEnd).2.2 = .err c →
      (nd.r.txCalls tag calls stopOnErr failAtEnd).1.opId = nd.r.opId ∧
      (nd.r.txCalls tag calls stopOnErr failAtEnd).1.state = nd.r.state ∧
      (nd.r.txCalls tag calls stopOnErr failAtEnd).1.buffer = nd.r.buffer ∧
      (nd.r.txCalls tag calls stopOnErr failAtEnd).1.cp = nd.r.cp) :=
  ⟨ltx_tx_never_panics h hi tag calls stopOnErr failAtEnd,
   fun c hc => ltx_failed_tx_is_noop h hi tag calls stopOnErr failAtEnd c hc⟩

open Orda.LTx in
/-- a committed transaction is queued as ONE contiguous unit that announces its own length -/
theorem committed_transaction_is_one_announced_unit (cuid : Nat → String) (n : Nat) (net : LNet.Net)
    (h : LTx.Reach cuid n net) (i : Nat) (nd : LNet.Node) (hi : net.nodes[i]? = some nd) (tag : String) (calls : List Call)
    (stopOnErr failAtEnd : Bool) (hok : (nd.r.txCalls tag calls stopOnErr failAtEnd).2.2 = .ok ()) :
    ∃ ops, (nd.r.txCalls tag calls stopOnErr failAtEnd).1.buffer =
        nd.r.buffer ++ (⟨nd.r.opId.next, .transaction tag (ops.length + 1)⟩ :: ops) ∧
      IsUnit (⟨nd.r.opId.next, .transaction tag (ops.length + 1)⟩ :: ops) := by
  obtain ⟨ops, h1, h2, _⟩ := ltx_committed_tx_is_one_unit h hi tag calls stopOnErr failAtEnd hok
  exact ⟨ops, h1, h2⟩

open Orda.LTx in
/-- ALL OR NOTHING on every replica: the log is a concatenation of units, and every replica has applied, of every unit written
    by another replica, either ALL operations or NONE — at every moment; `receive` never refuses or panics in the system -/
theorem every_replica_applies_all_of_a_unit_or_none (cuid : Nat → String) (n : Nat) (net : LNet.Net) (h : LTx.Reach cuid n net) :
    (∃ units : List (Nat × List Op),
      net.log = units.flatMap (fun (a, u) => u.map (a, ·)) ∧ (∀ au ∈ units, IsUnit au.2) ∧
      ∀ i nd, net.nodes[i]? = some nd → ∀ au ∈ units, au.1 ≠ i →
        (∀ o ∈ au.2, Applied net i (au.1, o)) ∨ (∀ o ∈ au.2, ¬ Applied net i (au.1, o))) ∧
    (∀ (i : Nat) (nd : LNet.Node), net.nodes[i]? = some nd →
      (nd.r.receive (pullOps net.log i nd)).2 = Outcome.ok ()) :=
  ⟨ltx_all_or_nothing h, fun _ _ hi => ltx_receive_ok h hi⟩

open Orda.LTx in
/-- … and transactions do not disturb convergence: at quiescence all replicas hold the same list state -/
theorem with_transactions_replicas_still_converge (cuid : Nat → String) (n : Nat) (net : LNet.Net) (h : LTx.Reach cuid n net)
    (hq : LNet.Quiescent net) (i j : Nat) (hi : i < net.nodes.length) (hj : j < net.nodes.length) :
    net.nodes[i].r.state = net.nodes[j].r.state :=
  ltx_quiescent_converged h hq i j hi hj

/-! ### the same END TO END for maps, counters (`MTx`, Proofs/MapTxNet) and documents (`DTx`, Proofs/DocTxNet, where PatchByJSON is a
step too) -/

open Orda.MTx in
theorem map_counter_units_all_or_nothing (typ : DtType) (hf : MNet.Flat typ) (cuid : Nat → String) (n : Nat) (net : MNet.Net)
    (h : MTx.Reach typ cuid n net) :
    ∃ units : List (Nat × List Op),
      net.log = units.flatMap (fun (a, u) => u.map (a, ·)) ∧ (∀ au ∈ units, LTx.IsUnit au.2) ∧
      ∀ (i : Nat) (nd : MNet.Node), net.nodes[i]? = some nd → ∀ au ∈ units, au.1 ≠ i →
        (∀ o ∈ au.2, MTx.Applied net i (au.1, o)) ∨ (∀ o ∈ au.2, ¬ MTx.Applied net i (au.1, o)) :=
  mtx_all_or_nothing hf h

open Orda.DTx in
theorem document_units_all_or_nothing (cuid : Nat → String) (n : Nat) (net : DNet.Net) (h : DTx.Reach cuid n net) :
    ∃ units : List (Nat × List Op),
      net.log = units.flatMap (fun (a, u) => u.map (a, ·)) ∧ (∀ au ∈ units, LTx.IsUnit au.2) ∧
      ∀ (i : Nat) (nd : DNet.Node), net.nodes[i]? = some nd → ∀ au ∈ units, au.1 ≠ i →
        (∀ o ∈ au.2, DTx.Applied net i (au.1, o)) ∨ (∀ o ∈ au.2, ¬ DTx.Applied net i (au.1, o)) :=
  dtx_all_or_nothing h

open Orda.DTx in
/-- a failing document transaction (any body of valid calls) changes nothing, in every reachable state -/
theorem document_failed_transaction_changes_nothing (cuid : Nat → String) (n : Nat) (net : DNet.Net) (h : DTx.Reach cuid n net)
    (i : Nat) (nd : DNet.Node) (hi : net.nodes[i]? = some nd) (tag : String) (calls : List Call) (stopOnErr failAtEnd : Bool)
    (c : Nat) (he : (nd.r.txCalls tag calls stopOnErr failAtEnd).2.2 = .err c) :
    (nd.r.txCalls tag calls stopOnErr failAtEnd).1.opId = nd.r.opId ∧
    (nd.r.txCalls tag calls stopOnErr failAtEnd).1.state = nd.r.state ∧
    (nd.r.txCalls tag calls stopOnErr failAtEnd).1.buffer = nd.r.buffer ∧
    (nd.r.txCalls tag calls stopOnErr failAtEnd).1.cp = nd.r.cp :=
  dtx_failed_tx_is_noop h hi tag calls stopOnErr failAtEnd c he

/-! ## Documents, the system as it really starts (creating client, snapshot operation at the head of the log; Proofs/TxNetCreate) -/

open Orda.DNet Orda.DTx Orda.TxNetC in
/-- a failing user transaction on ANY node of ANY reachable state of the created system leaves the log and every node — operation
    identifier, state, buffer, checkpoint, counters — unchanged -/
theorem created_failed_transaction_changes_nothing_anywhere {cuid : Nat → String} {n : Nat} {net : Net} (h : ReachC cuid n net)
    {i : Nat} {nd : Node} (hi : net.nodes[i]? = some nd) (tag : String) (calls : List Call) (stopOnErr failAtEnd : Bool) (c : Nat)
    (herr : (nd.r.txCalls tag calls stopOnErr failAtEnd).2.2 = .err c) {net' : Net}
    (hnet : net' = ⟨net.nodes.set i { nd with r := (nd.r.txCalls tag calls stopOnErr failAtEnd).1 }, net.log⟩) :
    net'.log = net.log ∧ ∀ (j : Nat) (nd' : Node), net'.nodes[j]? = some nd' →
      ∃ ndj, net.nodes[j]? = some ndj ∧ nd'.r.opId = ndj.r.opId ∧ nd'.r.state = ndj.r.state ∧
        nd'.r.buffer = ndj.r.buffer ∧ nd'.r.cp = ndj.r.cp ∧ nd'.pushed = ndj.pushed ∧ nd'.pulled = ndj.pulled :=
  created_dtx_failed_transaction_changes_nothing h hi tag calls stopOnErr failAtEnd c herr hnet

open Orda.DNet Orda.TxNetC in
/-- the log is a sequence of units (the creation snapshot operation is a unit of one), and every node has applied each foreign unit
    entirely or not at all -/
theorem created_committed_transaction_all_or_nothing_everywhere {cuid : Nat → String} {n : Nat} {net : Net} (h : ReachC cuid n net) :
    ∃ units : List (Nat × List Op),
    net.log = units.flatMap (fun (a, u) => u.map (a, ·)) ∧ (∀ au ∈ units, LTx.IsUnit au.2) ∧
    ∀ (i : Nat) (nd : Node), net.nodes[i]? = some nd → ∀ au ∈ units, au.1 ≠ i →
      (∀ o ∈ au.2, TxNetC.Applied net i (au.1, o)) ∨ (∀ o ∈ au.2, ¬ TxNetC.Applied net i (au.1, o)) :=
  created_dtx_committed_transaction_all_or_nothing h

open Orda.DNet Orda.DTx Orda.TxNetC Orda.DA in
/-- with transactions and patches as steps, creator included: at quiescence all replicas hold the same document -/
theorem created_transactional_net_converges {cuid : Nat → String} {n : Nat} {net : Net} (h : ReachC cuid n net) (hq : Quiescent net)
    (i j : Nat) (hi : i < net.nodes.length) (hj : j < net.nodes.length) (di dj : Doc) (hdi : net.nodes[i].r.state = .doc di)
    (hdj : net.nodes[j].r.state = .doc dj) : ASim di dj ∧ di.view.canon = dj.view.canon :=
  created_dtx_quiescent_converged h hq i j hi hj di dj hdi hdj

/-! ## Lists, maps and counters with transactions, the system as it really starts (Proofs/FlatTxNetCreate) -/

/-- LIST: a failing user transaction on any node of any reachable state of the created system changes nothing anywhere -/
theorem created_list_failed_transaction_changes_nothing_anywhere {cuid : Nat → String} {n : Nat} {net : LNet.Net}
    (h : FTxNetC.L.ReachC cuid n net) {i : Nat} {nd : LNet.Node} (hi : net.nodes[i]? = some nd) (tag : String) (calls : List Call)
    (stopOnErr failAtEnd : Bool) (c : Nat) (herr : (nd.r.txCalls tag calls stopOnErr failAtEnd).2.2 = .err c) {net' : LNet.Net}
    (hnet : net' = ⟨net.nodes.set i { nd with r := (nd.r.txCalls tag calls stopOnErr failAtEnd).1 }, net.log⟩) :
    net'.log = net.log ∧ ∀ (j : Nat) (nd' : LNet.Node), net'.nodes[j]? = some nd' →
      ∃ ndj, net.nodes[j]? = some ndj ∧ nd'.r.opId = ndj.r.opId ∧ nd'.r.state = ndj.r.state ∧
        nd'.r.buffer = ndj.r.buffer ∧ nd'.r.cp = ndj.r.cp ∧ nd'.pushed = ndj.pushed ∧ nd'.pulled = ndj.pulled :=
  FTxNetC.L.created_ltx_failed_transaction_changes_nothing h hi tag calls stopOnErr failAtEnd c herr hnet

/-- LIST: with transactions as steps and the creating client: at quiescence all replicas hold the same list state -/
theorem created_list_transactional_net_converges {cuid : Nat → String} {n : Nat} {net : LNet.Net} (h : FTxNetC.L.ReachC cuid n net)
    (hq : LNet.Quiescent net) (i j : Nat) (hi : i < net.nodes.length) (hj : j < net.nodes.length) :
    net.nodes[i].r.state = net.nodes[j].r.state :=
  FTxNetC.L.created_ltx_quiescent_converged h hq i j hi hj

/-- MAP / COUNTER: a failing user transaction changes nothing anywhere -/
theorem created_flat_failed_transaction_changes_nothing_anywhere {typ : DtType} {cuid : Nat → String} {n : Nat} {net : MNet.Net}
    (hf : MNet.Flat typ) (h : FTxNetC.M.ReachC typ cuid n net) {i : Nat} {nd : MNet.Node} (hi : net.nodes[i]? = some nd) (tag : String)
    (calls : List Call) (stopOnErr failAtEnd : Bool) (c : Nat) (herr : (nd.r.txCalls tag calls stopOnErr failAtEnd).2.2 = .err c)
    {net' : MNet.Net}
    (hnet : net' = ⟨net.nodes.set i { nd with r := (nd.r.txCalls tag calls stopOnErr failAtEnd).1 }, net.log⟩) :
    net'.log = net.log ∧ ∀ (j : Nat) (nd' : MNet.Node), net'.nodes[j]? = some nd' →
      ∃ ndj, net.nodes[j]? = some ndj ∧ nd'.r.opId = ndj.r.opId ∧ nd'.r.state = ndj.r.state ∧
        nd'.r.buffer = ndj.r.buffer ∧ nd'.r.cp = ndj.r.cp ∧ nd'.pushed = ndj.pushed ∧ nd'.pulled = ndj.pulled :=
  FTxNetC.M.created_mtx_failed_transaction_changes_nothing hf h hi tag calls stopOnErr failAtEnd c herr hnet

/-- COUNTER: with transactions and the creating client: at quiescence all replicas hold the same value -/
theorem created_counter_transactional_net_converges {cuid : Nat → String} {n : Nat} {net : MNet.Net}
    (h : FTxNetC.M.ReachC .counter cuid n net) (hq : MNet.Quiescent net) (i j : Nat) (hi : i < net.nodes.length)
    (hj : j < net.nodes.length) : net.nodes[i].r.state = net.nodes[j].r.state :=
  FTxNetC.M.created_ctx_quiescent_converged h hq i j hi hj

/-- MAP: with transactions and the creating client: at quiescence all replicas answer every read alike -/
theorem created_map_transactional_net_converges {cuid : Nat → String} {n : Nat} {net : MNet.Net}
    (h : FTxNetC.M.ReachC .map cuid n net) (hq : MNet.Quiescent net) (i j : Nat)
    (hi : i < net.nodes.length) (hj : j < net.nodes.length) (mi mj : LwwMap)
    (hmi : net.nodes[i].r.state = .map mi) (hmj : net.nodes[j].r.state = .map mj) :
    (∀ k, mi.get k = mj.get k) ∧ mi.size = mj.size ∧
    (∀ k, alFind k mi.live = alFind k mj.live) ∧ mi.live.Perm mj.live ∧ MNet.sortedView mi = MNet.sortedView mj ∧
    MNet.jsonView mi = MNet.jsonView mj :=
  FTxNetC.M.created_mtx_quiescent_converged h hq i j hi hj mi mj hmi hmj

end Orda.Props.C09
