import Orda.Model.Api
namespace Orda.Props.C09
end Orda.Props.C09
