import Orda.Model.Api
namespace Orda.Props.C02
end Orda.Props.C02
