/-
C02 — Conflicts resolve by operation timestamp, identically on every replica.
The outcome is a fixed function (Spec/Denote) of the SET of operations.
-/
import Orda.Proofs.MapCounter
import Orda.Proofs.Rga
namespace Orda.Props.C02
open Orda

/-- map: after ANY causal application order, every key holds the value of the put/remove with the
    greatest timestamp (absent if that is a remove) -/
theorem map_key_is_max_timestamp (ops : List Op) (hc : MapCausal ops) (hd : DistinctTs ops) (k : String) :
    (mapApplyAll LwwMap.empty ops).get k = Spec.mapGet ops k :=
  map_denote ops hc hd k

/-- map: Size is the number of live keys of that outcome -/
theorem map_size_is_live_keys (ops : List Op) (hc : MapCausal ops) (hd : DistinctTs ops) :
    (mapApplyAll LwwMap.empty ops).size = ((Spec.mapView ops).length : Int) :=
  map_size_denote ops hc hd

/-- the rule does not depend on arrival order -/
theorem map_rule_order_independent (ops ops' : List Op) (hp : ops.Perm ops') (hd : DistinctTs ops) (k : String) :
    Spec.mapGet ops k = Spec.mapGet ops' k :=
  spec_mapGet_perm ops ops' hp hd k

/-- a local remove is the remote application of its own operation (so the issuing replica computes
    the same outcome as everyone else) -/
theorem map_local_remove_is_remote (m : LwwMap) (k : String) (ts : Ts) (e : MEntry)
    (hf : m.find k = some e) (hl : e.v.isSome = true) (hn : e.t.cmp ts = .lt) :
    (m.removeLocal k ts).1 = (m.removeRemote k ts).1 :=
  removeLocal_eq_removeRemote m k ts e hf hl hn

/-- counter: the value is the sum of all increments with 32-bit wrap-around -/
theorem counter_is_wrapped_sum (ops : List Op) : ops.foldl counterApply 0 = Spec.counter ops :=
  counter_denote ops

theorem counter_in_int32 (x : Int) : -2147483648 ≤ wrap32 x ∧ wrap32 x < 2147483648 := wrap32_range x

/-- list: elements inserted concurrently at the same place appear newest first -/
theorem list_siblings_newest_first (ops : List InsOp) (hc : InsCausal ops) (a b : InsOp)
    (ha : a ∈ ops) (hb : b ∈ ops) (hanch : a.anchor = b.anchor) (hlt : a.ts.cmp b.ts = .lt) :
    ∃ l1 l2 l3, (Rga.empty.applyAllIns ops).ids = l1 ++ b.ts :: l2 ++ a.ts :: l3 :=
  rga_siblings_newest_first ops hc a b ha hb hanch hlt

/-- list: a deleted element stays deleted — an update never revives it, in either arrival order -/
theorem list_delete_dominates (s s' : Rga) (tg : List Ts) (vs : List JVal) (ts : Ts) (x : Ts)
    (hu : s.updateRemote tg vs ts = .ok s') (h : ∃ n ∈ s.nodes, n.o = x ∧ n.v = none) :
    ∃ n ∈ s'.nodes, n.o = x ∧ n.v = none :=
  updateRemote_keeps_tomb s s' tg vs ts x hu h

-- non-vacuity: a concrete conflict (remove older than a concurrent put) resolves to the put
example :
    let ops : List Op := [⟨⟨0, 1, "a", 1⟩, .put "k" (.num 1)⟩, ⟨⟨0, 3, "b", 1⟩, .put "k" (.num 2)⟩,
                          ⟨⟨0, 2, "a", 2⟩, .remove "k"⟩]
    MapCausal ops ∧ DistinctTs ops := by
  refine ⟨?_, ?_⟩
  · intro i hi k hb
    match i, hi with
    | 0, _ => simp at hb
    | 1, _ => simp at hb
    | 2, _ => exact ⟨0, by omega, .num 1, by simp_all⟩
  · simp [DistinctTs, Ts.cmp, OpId.ts, strCmp]

end Orda.Props.C02
