/-
C02 — Conflicts resolve by operation timestamp, identically on every replica.
The outcome is a fixed function (Spec/Denote) of the SET of operations.
-/
import Orda.Proofs.MapCounter
import Orda.Proofs.Rga
import Orda.Proofs.RgaFull
import Orda.Proofs.DocConv
import Orda.Proofs.DocArr
import Orda.Proofs.MapNet
import Orda.Proofs.FlatNetCreate
namespace Orda.Props.C02
open Orda

/-- map: after ANY causal application order, every key holds the value of the put/remove with the
    greatest timestamp (absent if that is a remove) -/
theorem map_key_is_max_timestamp (ops : List Op) (hc : MapCausal ops) (hd : DistinctTs ops) (k : String) :
    (mapApplyAll LwwMap.empty ops).get k = Spec.mapGet ops k :=
  map_denote ops hc hd k

/-- map: Size is the number of live keys of that outcome -/
theorem map_size_is_live_keys (ops : List Op) (hc : MapCausal ops) (hd : DistinctTs ops) :
    (mapApplyAll LwwMap.empty ops).size = ((Spec.mapView ops).length : Int) :=
  map_size_denote ops hc hd

/-- the rule does not depend on arrival order -/
theorem map_rule_order_independent (ops ops' : List Op) (hp : ops.Perm ops') (hd : DistinctTs ops) (k : String) :
    Spec.mapGet ops k = Spec.mapGet ops' k :=
  spec_mapGet_perm ops ops' hp hd k

/-- a local remove is the remote application of its own operation (so the issuing replica computes
    the same outcome as everyone else) -/
theorem map_local_remove_is_remote (m : LwwMap) (k : String) (ts : Ts) (e : MEntry)
    (hf : m.find k = some e) (hl : e.v.isSome = true) (hn : e.t.cmp ts = .lt) :
    (m.removeLocal k ts).1 = (m.removeRemote k ts).1 :=
  removeLocal_eq_removeRemote m k ts e hf hl hn

/-- counter: the value is the sum of all increments with 32-bit wrap-around -/
theorem counter_is_wrapped_sum (ops : List Op) : ops.foldl counterApply 0 = Spec.counter ops :=
  counter_denote ops

theorem counter_in_int32 (x : Int) : -2147483648 ≤ wrap32 x ∧ wrap32 x < 2147483648 := wrap32_range x

/-- list: elements inserted concurrently at the same place appear newest first -/
theorem list_siblings_newest_first (ops : List InsOp) (hc : InsCausal ops) (a b : InsOp)
    (ha : a ∈ ops) (hb : b ∈ ops) (hanch : a.anchor = b.anchor) (hlt : a.ts.cmp b.ts = .lt) :
    ∃ l1 l2 l3, (Rga.empty.applyAllIns ops).ids = l1 ++ b.ts :: l2 ++ a.ts :: l3 :=
  rga_siblings_newest_first ops hc a b ha hb hanch hlt

/-- list: a deleted element stays deleted — an update never revives it, in either arrival order -/
theorem list_delete_dominates (s s' : Rga) (tg : List Ts) (vs : List JVal) (ts : Ts) (x : Ts)
    (hu : s.updateRemote tg vs ts = .ok s') (h : ∃ n ∈ s.nodes, n.o = x ∧ n.v = none) :
    ∃ n ∈ s'.nodes, n.o = x ∧ n.v = none :=
  updateRemote_keeps_tomb s s' tg vs ts x hu h

/-- list, the whole merge rule for EVERY history of inserts/updates/deletes applied in any causal order:
    an element is a tombstone iff some delete of the history targeted it (delete dominates whatever the
    timestamps and the arrival order; an update never revives it) … -/
theorem list_deleted_iff_some_delete (ops : List LOp) (hc : LCausal ops) (n : RNode)
    (hn : n ∈ (Rga.empty.applyAllL ops).nodes) :
    n.v = none ↔ ∃ tgs ts, LOp.del tgs ts ∈ ops ∧ n.o ∈ tgs :=
  rga_tombstone_iff ops hc n hn

/-- … and an element that was never deleted holds the value of its newest update (greatest timestamp among
    the updates newer than its insert), or the inserted value when there is none; a deleted element is
    stamped with the greatest delete stamp. A fixed function of the SET of operations. -/
theorem list_element_is_newest_update (ops : List LOp) (hc : LCausal ops) (n : RNode)
    (hn : n ∈ (Rga.empty.applyAllL ops).nodes) :
    ∃ a ts vals v0, LOp.ins a ts vals ∈ ops ∧ (⟨n.o, some v0, n.o⟩ : RNode) ∈ mkNodes ts vals ∧
      ((∃ p ∈ ops, ∃ t, p.eff n.o = .del t) →
        n.v = none ∧ (∃ p ∈ ops, p.eff n.o = .del n.t) ∧
        ∀ p ∈ ops, ∀ t, p.eff n.o = .del t → t.cmp n.t ≠ .gt) ∧
      ((¬ ∃ p ∈ ops, ∃ t, p.eff n.o = .del t) →
        (n.v = some v0 ∧ n.t = n.o ∧ ∀ p ∈ ops, ∀ v t, p.eff n.o = .upd v t → n.o.cmp t ≠ .lt) ∨
        (∃ p ∈ ops, ∃ v, p.eff n.o = .upd v n.t ∧ n.v = some v ∧ n.o.cmp n.t = .lt ∧
          ∀ q ∈ ops, ∀ v' t', q.eff n.o = .upd v' t' → t'.cmp n.t ≠ .gt)) :=
  rga_payload_spec ops hc n hn

/-- the maxima above are unique: two effective deletes/updates of one element with equal stamps are the
    same operation -/
theorem list_newest_is_unique (ops : List LOp) (hc : LCausal ops) (x : Ts) (p q : LOp) (hp : p ∈ ops)
    (hq : q ∈ ops) (t1 t2 : Ts) (h1 : (p.eff x).stamp? = some t1) (h2 : (q.eff x).stamp? = some t2)
    (he : t1.cmp t2 = .eq) : p = q :=
  eff_stamp_unique ops hc x p q hp hq t1 t2 h1 h2 he

open Orda.DC in
/-- document object key: after ANY order of puts/removes, the LWW state of key k of object p is the
    initial state merged with the operation of the greatest timestamp on (p,k) — the document analogue of
    `map_key_is_max_timestamp` -/
theorem doc_key_is_max_timestamp {d : Doc} {ops : List ObjOp} (h : Good d ops) {p : Ts} {n : DNode}
    (hp : d.find p = some n) (k : String) :
    keyOf' (applyAll d ops) p k = lww (keyOf' d p k) (Spec.maxBy ObjOp.ts (keyOps p k ops)) :=
  key_denote h hp k

open Orda.DC in
/-- … if that operation is a put, the key shows that put's value (any nesting depth), in any order -/
theorem doc_key_shows_newest_put {d : Doc} {l : List ObjOp} (h : Good d l) (hv : ViewOK d) (hk : ∀ o ∈ l, OpKeysND o)
    {p : Ts} {n : DNode} (hp : d.find p = some n) {k : String} {p' : Ts} {k' : String} {v : JVal} {ts : Ts}
    (hw : Spec.maxBy ObjOp.ts (keyOps p k l) = some (.put p' k' v ts))
    (hnew : ∀ st, keyOf' d p k = some st → st.time.cmp ts = .lt) :
    ((applyAll d l).viewAt ts).canon = v.canon := key_value_denote h hv hk hp hw hnew

open Orda.DC in
/-- … if it is a remove, the key's occupant is a tombstone stamped with the remove (absent from the view) -/
theorem doc_key_removed_by_newest_remove {d : Doc} {ops : List ObjOp} (h : Good d ops) {p : Ts} {n : DNode}
    (hp : d.find p = some n) {k : String} {p' : Ts} {k' : String} {ts : Ts}
    (hw : Spec.maxBy ObjOp.ts (keyOps p k ops) = some (.del p' k' ts))
    (hnew : ∀ st, keyOf' d p k = some st → st.time.cmp ts = .lt) :
    ∃ c, occupant (applyAll d ops) p k = some c ∧ (applyAll d ops).isTomb c = true ∧
      (applyAll d ops).timeOf c = ts := key_denote_del h hp hw hnew

open Orda.DA Orda.DC in
/-- document array slot: a delete acts on the slot exactly like the flat list's delete effect (it dominates,
    the tombstone keeps the greatest delete stamp) … -/
theorem doc_array_delete_is_list_delete (t c o : Ts) (w w' : JVal) (st : KeySt) :
    stR o w' (aDelStep t c st).st = (RF.Eff.del t).app (stR o w st) := del_eff t c o w w' st

open Orda.DA Orda.DC in
/-- … and an update like the flat list's update effect (the newer one wins on a live slot, a tombstone is
    never revived): the merge rule of `list_element_is_newest_update` is the rule of document arrays -/
theorem doc_array_update_is_list_update (n c o : Ts) (w v : JVal) (st : KeySt) :
    stR o (if !st.tomb && st.time.cmp n == .lt then v else w) (aUpdStep n c st).st =
      (RF.Eff.upd v n).app (stR o w st) := upd_eff n c o w v st

-- non-vacuity: a concrete conflict (remove older than a concurrent put) resolves to the put
example :
    let ops : List Op := [⟨⟨0, 1, "a", 1⟩, .put "k" (.num 1)⟩, ⟨⟨0, 3, "b", 1⟩, .put "k" (.num 2)⟩,
                          ⟨⟨0, 2, "a", 2⟩, .remove "k"⟩]
    MapCausal ops ∧ DistinctTs ops := by
  refine ⟨?_, ?_⟩
  · intro i hi k hb
    match i, hi with
    | 0, _ => simp at hb
    | 1, _ => simp at hb
    | 2, _ => exact ⟨0, by omega, .num 1, by simp_all⟩
  · simp [DistinctTs, Ts.cmp, OpId.ts, strCmp]

/-! ### end to end (Proofs/MapNet): in the system of n replicas and one server log, ANY public call -/

open Orda.MNet in
/-- every replica's reads ARE the specification evaluated on the operations it has applied: `get k` is the value of the
    greatest-timestamp put/remove of k, Size the number of live keys — in every reachable state, with no causality hypothesis -/
theorem map_reads_are_the_rule_everywhere (cuid : Nat → String) (n : Nat) (net : MNet.Net) (h : MNet.Reach .map cuid n net)
    (i : Nat) (nd : MNet.Node) (hi : net.nodes[i]? = some nd) (m : LwwMap) (hs : nd.r.state = .map m) :
    (∀ k, m.get k = Spec.mapGet (appliedOps net.log i nd) k) ∧
      m.size = ((Spec.mapView (appliedOps net.log i nd)).length : Int) :=
  mnet_reads_are_spec net h i nd m hi hs

open Orda.MNet in
/-- … and a counter IS the wrapped sum of the increments it has applied -/
theorem counter_is_the_sum_everywhere (cuid : Nat → String) (n : Nat) (net : MNet.Net) (h : MNet.Reach .counter cuid n net)
    (i : Nat) (nd : MNet.Node) (hi : net.nodes[i]? = some nd) :
    nd.r.state = DState.counter (Spec.counter (appliedOps net.log i nd)) :=
  cnet_value_is_spec net h i nd hi

open Orda.FNetC in
/-- with the creating client and its snapshot operation: the value of EVERY node at EVERY moment is the wrapped sum of the increments
    among the operations it has applied -/
theorem counter_is_the_sum_everywhere_created {cuid : Nat → String} {n : Nat} (net : MNet.Net) (h : M.ReachC .counter cuid n net)
    (i : Nat) (nd : MNet.Node) (hi : net.nodes[i]? = some nd) :
    nd.r.state = DState.counter (Spec.counter (MNet.appliedOps net.log i nd)) :=
  created_counter_net_value_is_spec net h i nd hi

open Orda.FNetC in
/-- … and two map replicas that have applied the same operations answer every read alike, at every moment -/
theorem map_reads_agree_everywhere_created {cuid : Nat → String} {n : Nat} (net : MNet.Net) (h : M.ReachC .map cuid n net)
    (i j : Nat) (hi : i < net.nodes.length) (hj : j < net.nodes.length) (mi mj : LwwMap)
    (hmi : net.nodes[i].r.state = .map mi) (hmj : net.nodes[j].r.state = .map mj) (hso : MNet.SameOps net i j) :
    (∀ k, mi.get k = mj.get k) ∧ mi.size = mj.size ∧
    (∀ k, alFind k mi.live = alFind k mj.live) ∧ mi.live.Perm mj.live ∧ MNet.sortedView mi = MNet.sortedView mj ∧
    MNet.jsonView mi = MNet.jsonView mj :=
  created_map_net_same_operations_same_reads net h i j hi hj mi mj hmi hmj hso

end Orda.Props.C02
