import Orda.Model.Api
namespace Orda.Props.C04
end Orda.Props.C04
