/-
C04 — List (and array) elements are never duplicated, lost, resurrected or reordered.
Theorems about the RGA model (list.go / ordered.go) and, END TO END, about the system of n replicas and one server log
(Proofs/ListNet, ListNetOrder: any public call, pushes and pulls in any interleaving — no causality hypothesis).
Document arrays use the same skip rule (Model/Doc calls the same `insertAfterId`); end to end: Proofs/DocNetOrder.
-/
import Orda.Proofs.Rga
import Orda.Proofs.RgaFull
import Orda.Proofs.DocArr
import Orda.Proofs.ListNetOrder
import Orda.Proofs.DocNetOrder
namespace Orda.Props.C04
open Orda

/-- never reordered on a replica, at any moment: applying an insert only ADDS elements — the old
    identity sequence is a sublist of the new one (deletes and updates keep it unchanged, below) -/
theorem insert_only_adds (s : Rga) (o : InsOp) : s.ids.Sublist (s.applyIns o).ids := applyIns_sublist s o

/-- present exactly once wherever its insert was applied: exactly the batch identities are added … -/
theorem insert_adds_exactly_batch (s : Rga) (o : InsOp) (h : o.anchor = Ts.oldest ∨ o.anchor ∈ s.ids) :
    (s.applyIns o).ids.Perm (o.ids ++ s.ids) := applyIns_perm s o h
/-- … and no identity ever occurs twice -/
theorem no_duplicates (ops : List InsOp) (hc : InsCausal ops) : (Rga.empty.applyAllIns ops).ids.Nodup :=
  rga_ids_nodup ops hc

/-- same relative order on every replica: two replicas that applied the same inserts, each in any
    causal order, hold the SAME sequence; together with `insert_only_adds` every intermediate state of
    every replica is a subsequence of that common sequence, so any two elements have the same relative
    order everywhere and at every moment -/
theorem same_order_everywhere (ops ops' : List InsOp) (hp : ops.Perm ops')
    (hc : InsCausal ops) (hc' : InsCausal ops') :
    (Rga.empty.applyAllIns ops).ids = (Rga.empty.applyAllIns ops').ids := rga_converge ops ops' hp hc hc'

/-- corollary: relative order of two elements in a prefix state agrees with the final order -/
theorem prefix_order_agrees (ops more : List InsOp) (x y : Ts) :
    [x, y].Sublist (Rga.empty.applyAllIns ops).ids → [x, y].Sublist (Rga.empty.applyAllIns (ops ++ more)).ids := by
  intro h
  have hsub : (Rga.empty.applyAllIns ops).ids.Sublist (Rga.empty.applyAllIns (ops ++ more)).ids := by
    unfold Rga.applyAllIns
    rw [List.foldl_append]
    generalize List.foldl Rga.applyIns Rga.empty ops = s
    induction more generalizing s with
    | nil => exact List.Sublist.refl _
    | cons o rest ih => exact (applyIns_sublist s o).trans (ih (s.applyIns o))
  exact h.trans hsub

/-- a local insert at index i is the remote application of its own operation (hence readable at i,
    and every replica places it identically) in every state reached by a causal insert history -/
theorem local_insert_is_remote (ops : List InsOp) (hc : InsCausal ops)
    (pos : Nat) (ts : Ts) (vs : List JVal) (a : Ts) (s' : Rga)
    (hnew : ∀ n ∈ (Rga.empty.applyAllIns ops).nodes, n.o.cmp ts = .lt)
    (h : (Rga.empty.applyAllIns ops).insertLocal pos ts vs = .ok (s', a)) :
    (Rga.empty.applyAllIns ops).insertRemote a ts vs = .ok s' :=
  insertLocal_eq_insertRemote_reachable ops hc pos ts vs a s' hnew h

/-- never lost, never resurrected: deletes and updates keep the identity sequence; a deleted element
    stays deleted whatever arrives later; a delete always wins over a live value -/
theorem delete_keeps_sequence (s : Rga) (tg : List Ts) (ts : Ts) : (s.deleteRemote tg ts).ids = s.ids :=
  deleteRemote_ids s tg ts
theorem update_keeps_sequence (s s' : Rga) (tg : List Ts) (vs : List JVal) (ts : Ts)
    (h : s.updateRemote tg vs ts = .ok s') : s'.ids = s.ids := updateRemote_ids s s' tg vs ts h
theorem deleted_stays_deleted (s s' : Rga) (tg : List Ts) (vs : List JVal) (ts : Ts) (x : Ts)
    (h : ∃ n ∈ s.nodes, n.o = x ∧ n.v = none) :
    (∃ n ∈ (s.deleteRemote tg ts).nodes, n.o = x ∧ n.v = none) ∧
    (s.updateRemote tg vs ts = .ok s' → ∃ n ∈ s'.nodes, n.o = x ∧ n.v = none) :=
  ⟨deleteRemote_keeps_tomb s tg ts x h, fun hu => updateRemote_keeps_tomb s s' tg vs ts x hu h⟩
theorem delete_wins (s : Rga) (tg : List Ts) (ts : Ts) (x : Ts) (hx : x ∈ tg) (hn : s.ids.Nodup) (hin : x ∈ s.ids) :
    ∃ n ∈ (s.deleteRemote tg ts).nodes, n.o = x ∧ n.v = none := deleteRemote_kills s tg ts x hx hn hin

/-- mixed histories: in ANY history of inserts, updates and deletes (no hypothesis at all) the identity
    sequence is the one produced by the inserts alone — updates and deletes neither remove, duplicate nor
    move an element; so `same_order_everywhere`, `no_duplicates` and `prefix_order_agrees` carry over to
    every mixed history -/
theorem mixed_history_order_is_insert_order (ops : List LOp) :
    (Rga.empty.applyAllL ops).ids = (Rga.empty.applyAllIns (RF.insOps ops)).ids := RF.applyAllL_ids ops

/-- mixed histories, same order on every replica: two causal orders of the same operations give the same
    sequence (and the same values/tombstones) -/
theorem mixed_history_same_order (ops ops' : List LOp) (hp : ops.Perm ops') (hc : LCausal ops) (hc' : LCausal ops') :
    (Rga.empty.applyAllL ops).nodes = (Rga.empty.applyAllL ops').nodes := rga_full_converge ops ops' hp hc hc'

/-- never visible after its delete was received, whatever else arrives: tombstone ⇔ a delete of the history targets it -/
theorem deleted_iff_delete_received (ops : List LOp) (hc : LCausal ops) (n : RNode)
    (hn : n ∈ (Rga.empty.applyAllL ops).nodes) :
    n.v = none ↔ ∃ tgs ts, LOp.del tgs ts ∈ ops ∧ n.o ∈ tgs := rga_tombstone_iff ops hc n hn

/-- document arrays: deletes never change any array's slot order, updates only replace children -/
theorem doc_array_delete_keeps_order (d : Doc) (p : Ts) (tgs : List Ts) (t q : Ts) :
    DA.slotIds (DA.applyA d (.del p tgs t)) q = DA.slotIds d q := DA.del_slotIds d p tgs t q
theorem doc_array_update_keeps_order (d : Doc) (p t : Ts) (tgs : List Ts) (vs : List JVal) (q : Ts) (hq : q.key ≠ t.key) :
    DA.slotIds (DA.applyA d (.upd p t tgs vs)) q = DA.slotIds d q := DA.upd_slotIds d p t tgs vs q hq

/-! ### END TO END (`LNet`): every statement of C04 in every reachable state of the system, at every moment -/

open Orda.LNet in
/-- any two elements appear in the same relative order on every replica and at EVERY moment of the history, not only at
    quiescence -/
theorem same_relative_order_everywhere_at_every_moment (cuid : Nat → String) (n : Nat) (net : LNet.Net)
    (h : LNet.Reach cuid n net) (i j : Nat) (li lj : Rga) (x y : Ts)
    (hi : (net.nodes[i]?.map (·.r.state)) = some (DState.list li))
    (hj : (net.nodes[j]?.map (·.r.state)) = some (DState.list lj))
    (hxi : x ∈ li.ids) (hyi : y ∈ li.ids) (hxj : x ∈ lj.ids) (hyj : y ∈ lj.ids) :
    ([x, y].Sublist li.ids ↔ [x, y].Sublist lj.ids) :=
  lnet_same_relative_order_everywhere h i j li lj x y hi hj hxi hyi hxj hyj

open Orda.LNet in
/-- present exactly once on every replica that has received its insert: a replica's identities are, without repetition,
    exactly the identities inserted by the operations it has applied -/
theorem present_exactly_once_where_received (cuid : Nat → String) (n : Nat) (net : LNet.Net) (h : LNet.Reach cuid n net)
    (i : Nat) (nd : LNet.Node) (l : Rga) (hi : net.nodes[i]? = some nd) (hs : nd.r.state = .list l) :
    l.ids.Nodup ∧ ∀ x, x ∈ l.ids ↔ ∃ o ∈ appliedOps net.log i nd, x ∈ insertedIds o :=
  lnet_ids_are_the_inserted h i nd l hi hs

open Orda.LNet in
/-- deleted iff its delete has been received (and it never comes back: next theorem) -/
theorem deleted_iff_its_delete_was_received (cuid : Nat → String) (n : Nat) (net : LNet.Net) (h : LNet.Reach cuid n net)
    (i : Nat) (nd : LNet.Node) (l : Rga) (hi : net.nodes[i]? = some nd) (hs : nd.r.state = .list l) :
    ∀ e ∈ l.nodes, (e.v = none ↔ ∃ o ∈ appliedOps net.log i nd, e.o ∈ deleteTargets o) :=
  lnet_deleted_iff_delete_applied h i nd l hi hs

open Orda.LNet in
/-- no step of the system — call, push, pull — removes or reorders an element on any replica, and none resurrects one -/
theorem no_step_loses_reorders_or_resurrects (cuid : Nat → String) (n : Nat) (net net' : LNet.Net)
    (h : LNet.Reach cuid n net) (hs : LNet.Step net net') (i : Nat) (l l' : Rga)
    (hl : (net.nodes[i]?.map (·.r.state)) = some (DState.list l))
    (hl' : (net'.nodes[i]?.map (·.r.state)) = some (DState.list l')) :
    l.ids.Sublist l'.ids ∧
      ∀ x, (∃ nd ∈ l.nodes, nd.o = x ∧ nd.v = none) → (∃ nd ∈ l'.nodes, nd.o = x ∧ nd.v = none) :=
  ⟨lnet_step_only_adds h hs i l l' hl hl', fun x hx => lnet_step_keeps_tombstones h hs i l l' x hl hl' hx⟩

open Orda.LNet in
/-- a local insert at index i is immediately readable at index i -/
theorem local_insert_is_immediately_readable (cuid : Nat → String) (n : Nat) (net : LNet.Net) (h : LNet.Reach cuid n net)
    (i : Nat) (nd : LNet.Node) (pos : Int) (vs : List JVal) (hi : net.nodes[i]? = some nd) (hne : vs ≠ [])
    (hok : (nd.r.call (.linsert pos vs)).2 = .ok (.vals vs)) :
    ((nd.r.call (.linsert pos vs)).1.call (.lgetMany pos vs.length)).2 = .ok (.vals vs) :=
  lnet_local_insert_readable h i nd pos vs hi hne hok

open Orda.LNet in
/-- every reachable state can be continued to a quiescent one (where all replicas hold one state: C01) -/
theorem quiescence_is_reachable (cuid : Nat → String) (n : Nat) (net : LNet.Net) (h : LNet.Reach cuid n net) :
    ∃ net', LNet.Reaches net net' ∧ LNet.Quiescent net' := lnet_can_quiesce h

/-! ### Document arrays END TO END (`DNet`, Proofs/DocNetOrder) -/

open Orda.DNet Orda.DA in
/-- at EVERY moment, on ANY two replicas, for ANY array node of the document, any two slots present on both appear in the
    same relative order -/
theorem doc_array_same_relative_order_everywhere (cuid : Nat → String) (n : Nat) (net : DNet.Net) (h : DNet.Reach cuid n net)
    (i j : Nat) (di dj : Doc) (p x y : Ts) (hi : Holds net i di) (hj : Holds net j dj)
    (hxi : x ∈ slotIds di p) (hyi : y ∈ slotIds di p) (hxj : x ∈ slotIds dj p) (hyj : y ∈ slotIds dj p) :
    ([x, y].Sublist (slotIds di p) ↔ [x, y].Sublist (slotIds dj p)) :=
  dnet_same_relative_order_everywhere h i j di dj p x y hi hj hxi hyi hxj hyj

open Orda.DNet Orda.DA in
/-- no step removes or reorders a slot of any array on any replica, none revives a deleted slot, and no slot occurs twice -/
theorem doc_array_no_step_loses_reorders_or_resurrects (cuid : Nat → String) (n : Nat) (net net' : DNet.Net)
    (h : DNet.Reach cuid n net) (hs : DNet.Step net net') (i : Nat) (d d' : Doc) (p : Ts)
    (hd : Holds net i d) (hd' : Holds net' i d') :
    (slotIds d p).Sublist (slotIds d' p) ∧ (∀ o, slotDead d p o → slotDead d' p o) ∧ (slotIds d p).Nodup :=
  ⟨dnet_step_only_adds_slots h hs i d d' p hd hd', fun o ho => dnet_step_keeps_deleted_slots h hs i d d' p o hd hd' ho,
   dnet_slots_nodup h i d p hd⟩

end Orda.Props.C04
