/-
Line-protocol driver (lean_exe `ordamodel`): reads a trace (JSON lines), runs the executable model,
prints one observation line per step.  Imports Model + Spec + Lean.Data.Json only (no Mathlib).
-/
import Orda.Codec
import Orda.Model.Api
import Orda.Spec.Denote
import Orda.Model.Server
import Orda.Model.Patch
import Orda.Model.Rest
import Orda.Model.Fault
import Orda.Spec.PlainDoc
open Lean
namespace Orda

structure Sim where
  reps : Array Replica := #[]
  log : Array (Nat × List Op) := #[]       -- (author replica, unit) in server-log order
  pubCur : Array Nat := #[]                -- per replica: number of buffer ops already published
  dlvCur : Array Nat := #[]                -- per replica: next log index to look at
  emitCur : Array Nat := #[]               -- per replica: buffer length already reported as emitted
  aid : Array Nat := #[]                   -- author identity (a snapshot twin carries its source's)
  applied : Array (List Op) := #[]         -- per replica: operations applied so far (own + delivered)
  handles : Array (List (String × Ts)) := #[]  -- per replica: Document handles (name ↦ node)
  -- service level
  store : Store := {}
  sclients : Array (ClientDoc × String) := #[]     -- (registration data, collection the client object is bound to)
  wkey : Array String := #[]
  wduid : Array String := #[]
  wstate : Array DtState := #[]
  wowner : Array Nat := #[]
  held : List (Nat × List Nat × List Pack) := []
deriving Inhabited

def outcomeJ {α} (f : α → Json) : Outcome α → List (String × Json)
  | .ok a => [("ret", f a), ("err", jnat 0)]
  | .err c => [("ret", Json.null), ("err", jnat c)]
  | .panic _ => [("ret", Json.null), ("err", jnat 0), ("panic", Json.bool true)]

def outcomeErr {α} : Outcome α → List (String × Json)
  | .ok _ => [("err", jnat 0)]
  | .err c => [("err", jnat c)]
  | .panic _ => [("err", jnat 0), ("panic", Json.bool true)]

def specView (typ : DtType) (ops : List Op) : List (String × Json) :=
  match typ with
  | .counter => [("spec", Json.mkObj [("Counter", jint (Spec.counter ops))]), ("specSize", Json.null)]
  | .map =>
    let v := Spec.mapView ops
    [("spec", Json.mkObj (v.map fun (k, x) => (k, x.toJson))), ("specSize", jnat v.length)]
  | .list =>
    let v := Spec.listView ops
    [("spec", Json.mkObj [("List", listJ JVal.toJson v)]), ("specSize", jnat v.length)]
  | .document => []

def parseCall (hs : List (String × Ts)) (j : Json) : Option Call :=
  let a := getJ j "a"
  let h : Ts := (alFind (getS j "h") hs).getD Ts.oldest
  match getS j "m" with
  | "dput" => some (.dput h (getS a "k") (JVal.ofJson (getJ a "v")))
  | "dremove" => some (.dremove h (getS a "k"))
  | "dinsert" => some (.dinsert h (getI a "pos") (getVals a "vs"))
  | "ddelete" => some (.ddelete h (getI a "pos"))
  | "ddeleteMany" => some (.ddeleteMany h (getI a "pos") (getI a "n"))
  | "dupdate" => some (.dupdate h (getI a "pos") (getVals a "vs"))
  | "dgetObj" => some (.dgetObj h (getS a "k"))
  | "dgetArr" => some (.dgetArr h (getI a "pos") (getI a "n"))
  | "dvalue" => some (.dvalue h)
  | "inc" => some (.inc (getI a "d"))
  | "mput" => some (.mput (getS a "k") (JVal.ofJson (getJ a "v")))
  | "mremove" => some (.mremove (getS a "k"))
  | "mget" => some (.mget (getS a "k"))
  | "msize" => some .msize
  | "linsert" => some (.linsert (getI a "pos") (getVals a "vs"))
  | "ldelete" => some (.ldelete (getI a "pos"))
  | "ldeleteMany" => some (.ldeleteMany (getI a "pos") (getI a "n"))
  | "lupdate" => some (.lupdate (getI a "pos") (getVals a "vs"))
  | "lget" => some (.lget (getI a "pos"))
  | "lgetMany" => some (.lgetMany (getI a "pos") (getI a "n"))
  | "lsize" => some .lsize
  | _ => none

/-- path of a live handle (climbing the parents); `none` for a handle that sits nowhere in the live tree -/
def Doc.pathOf (d : Doc) : Nat → Ts → Option (List PlainDoc.Seg)
  | 0, _ => none
  | fuel + 1, h =>
    if h = Ts.oldest then some []
    else match d.find h with
      | none => none
      | some n =>
        match n.parent with
        | none => none
        | some p =>
          match d.find p with
          | some ⟨_, _, _, .obj m _⟩ =>
            (match m.find? (fun kc => kc.2 = h) with
             | some (k, _) => (d.pathOf fuel p).map (· ++ [PlainDoc.Seg.key k])
             | none => none)
          | some ⟨_, _, _, .arr _ _⟩ =>
            (match (d.liveChildren p).findIdx? (· = h) with
             | some i => (d.pathOf fuel p).map (· ++ [PlainDoc.Seg.idx i])
             | none => none)
          | _ => none

/-- C03 for documents, evaluated per step: the reaction of the plain JSON tree (Spec/PlainDoc) to the call, computed
    from the state before the call; `located = false` for a handle of a deleted container (the call must be refused) -/
def plainDocJ (pre : DState) (c : Call) : List (String × Json) :=
  match pre, PlainDoc.handleOf c with
  | .doc d, some h =>
    match d.pathOf (d.table.length + 1) h with
    | some π =>
      if d.locate π Ts.oldest = some h then
        let (t', o) := PlainDoc.step d.view.canon π c
        [("plain", Json.mkObj ([("located", Json.bool true), ("view", t'.toJson)] ++ outcomeJ Ret.toJson o))]
      else [("plain", Json.mkObj [("located", Json.bool false)])]
    | none => [("plain", Json.mkObj [("located", Json.bool false)])]
  | _, _ => []

def parseDt : String → DtType
  | "counter" => .counter
  | "map" => .map
  | "list" => .list
  | _ => .document

/-- post-state summary of replica `i`, and the operations it emitted since the last summary -/
def Sim.post (s : Sim) (i : Nat) : Sim × List (String × Json) :=
  let r := s.reps[i]!
  let from_ := s.emitCur[i]!
  let emitted := r.buffer.drop from_
  let app := s.applied[i]! ++ emitted
  ({ s with emitCur := s.emitCur.set! i r.buffer.length, applied := s.applied.set! i app },
   [("view", r.state.view), ("size", r.state.sizeJ),
    ("opid", r.opId.toJson), ("emitted", listJ Op.toJson emitted)] ++ specView r.typ app)

/-- split a replica's unpublished buffer suffix into units (a transaction header announces its length) -/
partial def splitUnits : List Op → List (List Op)
  | [] => []
  | o :: rest =>
    match o.body with
    | .transaction _ n =>
      let k := if n < 1 then 1 else n.toNat
      ((o :: rest).take k) :: splitUnits ((o :: rest).drop k)
    | _ => [o] :: splitUnits rest

/-- mutate a unit as the harness does for C09 -/
def mutateUnit (mu : String) (u : List Op) : List Op :=
  match mu, u with
  | "truncate", _ => u.dropLast
  | "countplus", hd :: tl =>
    match hd.body with
    | .transaction tag n => { hd with body := .transaction tag (n + 1) } :: tl
    | _ => u
  | "countminus", hd :: tl =>
    match hd.body with
    | .transaction tag n => { hd with body := .transaction tag (n - 1) } :: tl
    | _ => u
  | "countzero", hd :: tl =>
    match hd.body with
    | .transaction tag _ => { hd with body := .transaction tag 0 } :: tl
    | _ => u
  | "countneg", hd :: tl =>
    match hd.body with
    | .transaction tag _ => { hd with body := .transaction tag (-1) } :: tl
    | _ => u
  | _, _ => u

/-- next `n` log units for replica `j` that it did not author -/
partial def Sim.nextUnits (s : Sim) (j n : Nat) (cur : Nat) (acc : List (List Op)) : Nat × List (List Op) :=
  if n = 0 || cur ≥ s.log.size then (cur, acc)
  else
    let (a, u) := s.log[cur]!
    if a = s.aid[j]! then s.nextUnits j n (cur + 1) acc else s.nextUnits j (n - 1) (cur + 1) (acc ++ [u])


/-! ### service level -/

def dtName : DtType → String
  | .counter => "COUNTER" | .map => "MAP" | .list => "LIST" | .document => "DOCUMENT"
def dtOfName : String → DtType
  | "COUNTER" => .counter | "MAP" => .map | "LIST" => .list | _ => .document
def stateName : DtState → String
  | .dueToCreate => "DUE_TO_CREATE" | .dueToSubscribe => "DUE_TO_SUBSCRIBE"
  | .dueToSubscribeCreate => "DUE_TO_SUBSCRIBE_CREATE" | .subscribed => "SUBSCRIBED"
  | .dueToUnsubscribe => "DUE_TO_UNSUBSCRIBE" | .closed => "CLOSED" | .deleted => "DELETED"

def Pack.optBits (p : Pack) : Nat :=
  (if p.create then 1 else 0) + (if p.subscribe then 2 else 0) + (if p.unsubscribe then 4 else 0) +
  (if p.delete then 8 else 0) + (if p.snapshot then 16 else 0) + (if p.error then 32 else 0) +
  (if p.readOnly then 64 else 0)

def Pack.setBits (p : Pack) (b : Nat) : Pack :=
  { p with create := b % 2 = 1, subscribe := (b / 2) % 2 = 1, unsubscribe := (b / 4) % 2 = 1,
           delete := (b / 8) % 2 = 1, snapshot := (b / 16) % 2 = 1, error := (b / 32) % 2 = 1,
           readOnly := (b / 64) % 2 = 1 }

def Pack.toJson (p : Pack) : Json :=
  Json.mkObj [("key", Json.str p.key), ("duid", Json.str p.duid), ("opt", jnat p.optBits),
              ("cp", Json.arr #[jnat p.cp.sseq, jnat p.cp.cseq]), ("typ", Json.str (dtName p.typ)),
              ("ops", listJ Op.toJson p.ops)]

def handlerJ : HandlerCall → Json
  | .stateChange o n => Json.mkObj [("h", "state"), ("old", Json.str (stateName o)), ("new", Json.str (stateName n))]
  | .errors cs => Json.mkObj [("h", "errors"), ("codes", listJ jnat cs)]
  | .remoteOps _ => Json.mkObj [("h", "remote")]

def Sim.wdt (s : Sim) (r : Nat) : WDt :=
  ⟨s.reps[r]!, s.wkey[r]!, s.wduid[r]!, s.wstate[r]!⟩

def Sim.setWdt (s : Sim) (r : Nat) (w : WDt) : Sim :=
  { s with reps := s.reps.set! r w.rep, wduid := s.wduid.set! r w.duid, wstate := s.wstate.set! r w.dstate }

def Sim.spost (s : Sim) (r : Nat) : List (String × Json) :=
  let w := s.wdt r
  [("view", w.rep.state.view), ("size", w.rep.state.sizeJ), ("opid", w.rep.opId.toJson),
   ("dstate", Json.str (stateName w.dstate)), ("duid", Json.str w.duid),
   ("cp", Json.arr #[jnat w.rep.cp.sseq, jnat w.rep.cp.cseq]), ("npending", jnat w.rep.pending.length)]

def applyMutJ (m : Json) (p : Pack) : Pack :=
  let p := match (m.getObjValAs? Nat "opt").toOption with | some b => p.setBits b | none => p
  let p := match getA m "cp" with
    | [a, b] => { p with cp := ⟨(a.getNat?).toOption.getD 0, (b.getNat?).toOption.getD 0⟩ }
    | _ => p
  let p := if getN m "dropops" > 0 then { p with ops := p.ops.drop (getN m "dropops") } else p
  let p := if getB m "dupops" then { p with ops := p.ops ++ p.ops } else p
  let p := if getB m "noops" then { p with ops := [] } else p
  let p := if getS m "duid" ≠ "" then { p with duid := getS m "duid" } else p
  let p := if getS m "key" ≠ "" then { p with key := getS m "key" } else p
  let p := if getS m "typ" ≠ "" then { p with typ := dtOfName (getS m "typ") } else p
  p

def sortPacks (ps : List Pack) : List Pack :=
  ps.foldr (fun p acc =>
    let rec ins (p : Pack) : List Pack → List Pack
      | [] => [p]
      | x :: xs => if p.key ≤ x.key then p :: x :: xs else x :: ins p xs
    ins p acc) []

def storeJ (st : Store) : Json :=
  let subs (l : List (String × SubClient)) : Json :=
    Json.mkObj (l.map fun (c, s) => (c, Json.mkObj [("cp", Json.arr #[jnat s.cp.sseq, jnat s.cp.cseq]), ("t", jnat s.typ)]))
  Json.mkObj [
    ("collections", listJ (fun (c : CollectionDoc) => Json.mkObj [("name", Json.str c.name), ("num", jnat c.num)]) st.collections),
    ("counter", optJ jnat st.counter),
    ("clients", listJ (fun (c : ClientDoc) => Json.mkObj [("cuid", Json.str c.cuid), ("alias", Json.str c.alias),
        ("colNum", jnat c.colNum), ("typ", jnat c.typ)]) st.clients),
    ("datatypes", listJ (fun (d : DatatypeDoc) => Json.mkObj [("duid", Json.str d.duid), ("key", Json.str d.key),
        ("colNum", jnat d.colNum), ("typ", Json.str (dtName d.typ)), ("begin", jnat d.sseqBegin), ("end", jnat d.sseqEnd),
        ("visible", Json.bool d.visible), ("rw", subs d.rw), ("ro", subs d.ro)]) st.datatypes),
    ("operations", listJ (fun (o : OpDoc) => Json.mkObj [("_id", Json.str (o.duid ++ ":" ++ toString o.sseq)),
        ("duid", Json.str o.duid), ("colNum", jnat o.colNum), ("sseq", jnat o.sseq), ("op", o.op.toJson)]) st.operations),
    ("snapshots", listJ (fun (x : SnapDoc) => Json.mkObj [("_id", Json.str (x.duid ++ ":" ++ toString x.sseq)),
        ("duid", Json.str x.duid), ("colNum", jnat x.colNum), ("sseq", jnat x.sseq), ("key", Json.str x.key),
        ("opid", x.opId.toJson), ("snap", x.snap.toJson)]) st.snapshots),
    ("userDocs", listJ (fun (u : UserDoc) => Json.mkObj [("col", Json.str u.col), ("key", Json.str u.key),
        ("ver", jnat u.ver), ("value", u.value.view)]) st.userDocs)]

def rpcJ : Rpc α → Json
  | .ok _ => jnat 0
  | .rpcErr c => jnat c

/-- apply response packs to the datatypes `rs` of one client -/
def Sim.applyPacks (s : Sim) (rs : List Nat) (packs : List Pack) : Sim × Json :=
  let (s', posts) := rs.foldl (fun (acc : Sim × List Json) r =>
    let s := acc.1
    let w := s.wdt r
    match packs.find? (fun p => p.key = w.key) with
    | none => (s, acc.2 ++ [Json.mkObj ([("r", jnat r), ("handlers", Json.arr #[])] ++ s.spost r)])
    | some p =>
      let (w', hs, pan) := w.applyPack p
      let s1 := s.setWdt r w'
      let hj := (hs.map handlerJ).map (fun j => j.compress)
      let hj := hj.foldr (fun x acc =>
        let rec ins (x : String) : List String → List String
          | [] => [x]
          | y :: ys => if x ≤ y then x :: y :: ys else y :: ins x ys
        ins x acc) []
      let hjson := Json.arr (hj.filterMap (fun t => (Json.parse t).toOption)).toArray
      (s1, acc.2 ++ [Json.mkObj ([("r", jnat r), ("handlers", hjson)] ++
          (if pan.isSome then [("panic", Json.bool true)] else []) ++ s1.spost r)])) (s, [])
  (s', Json.arr posts.toArray)

def Sim.svcStep (s : Sim) (j : Json) : Option (Sim × Json) :=
  match getS j "k" with
  | "scase" => some ({}, Json.mkObj [])
  | "mkcol" =>
    let (st, _) := s.store.makeCollection (getS j "name")
    some ({ s with store := st }, Json.mkObj [("rpc", jnat 0)])
  | "reset" =>
    some ({ s with store := s.store.resetCollection (getS j "name") }, Json.mkObj [("rpc", jnat 0)])
  | "client" =>
    let cl : ClientDoc := ⟨getS j "cuid", getS j "alias", 0, getN j "typ", 0⟩
    let (st, r) := s.store.processClient false (getS j "reg") cl
    some ({ s with store := st, sclients := s.sclients.push (cl, getS j "col") }, Json.mkObj [("rpc", rpcJ r)])
  | "newdt" =>
    let c := getN j "c"
    let (cl, _) := s.sclients[c]!
    let mode := getS j "mode"
    let typ := parseDt (getS j "dt")
    let rep := Replica.new typ cl.cuid (mode ≠ "subscribe")
    let dst : DtState := if mode = "create" then .dueToCreate else if mode = "subscribe" then .dueToSubscribe else .dueToSubscribeCreate
    let s1 := { s with reps := s.reps.push rep, pubCur := s.pubCur.push 0, dlvCur := s.dlvCur.push 0,
                       emitCur := s.emitCur.push rep.buffer.length, aid := s.aid.push s.reps.size,
                       applied := s.applied.push [], handles := s.handles.push [("root", Ts.oldest)],
                       wkey := s.wkey.push (getS j "key"), wduid := s.wduid.push (getS j "duid"),
                       wstate := s.wstate.push dst, wowner := s.wowner.push c }
    some (s1, Json.mkObj (s1.spost (s1.reps.size - 1)))
  | "sync" =>
    let c := getN j "c"
    let (cl, boundCol) := s.sclients[c]!
    let rs := (getA j "rs").map (fun x => (x.getNat?).toOption.getD 0)
    let m := getJ j "mut"
    let packs := rs.map (fun r => applyMutJ m (s.wdt r).createPack)
    let cuid := if getS m "cuid" ≠ "" then getS m "cuid" else cl.cuid
    let col := if getS m "col" ≠ "" then getS m "col" else boundCol
    let fault := getS j "fault"
    let send (st0 : Store) : Store × Rpc (List Pack) × List Notification :=
      let (st, left) := st0.committedView
      let (st1, r, ns, jobs) := st.processPushPull col cuid packs
      let st2 := if fault = "nosnap" || fault = "holdsnap" || fault = "holdbg" || fault = "holdread" then st1 else jobs.foldl (fun acc (duid, colNum) =>
        match acc.collections.find? (fun c => c.num = colNum) with
        | some cd => acc.updateSnapshot duid cd.name
        | none => acc) st1
      (st2.withLeftovers left (jobs.map (·.1)), r, ns)
    -- a request that could not take the lock of its key (it waited behind a request in progress until its own deadline):
    -- every pack is answered with PushPullAbortionOfServer, nothing is read or written
    let lockRefused (p : Pack) : Pack := errorPack { p with ops := [] } 300
    let (st1, r1, ns1) := if getB j "lockfail" then (s.store, Rpc.ok (packs.map lockRefused), []) else send s.store
    let (st2, r, ns, extra) : Store × Rpc (List Pack) × List Notification × List (String × Json) :=
      if fault = "dup" then
        let (st2, r2, ns2) := send st1
        (st2, r2, ns1 ++ ns2, [("rpc2", rpcJ r2), ("resp1", match r1 with | .ok ps => listJ Pack.toJson (sortPacks ps) | _ => Json.null)])
      else if fault = "dup1" then
        let (st2, r2, ns2) := send st1
        (st2, r1, ns1 ++ ns2, [("rpc2", rpcJ r2), ("resp2", match r2 with | .ok ps => listJ Pack.toJson (sortPacks ps) | _ => Json.null)])
      else (st1, r1, ns1, [])
    let s1 := { s with store := st2 }
    let base : List (String × Json) :=
      [("req", listJ Pack.toJson packs), ("rpc", rpcJ r),
       ("resp", match r with | .ok ps => listJ Pack.toJson (sortPacks ps) | _ => Json.null),
       ("notifs", listJ (fun (n : Notification) => Json.mkObj [("topic", Json.str n.topic), ("cuid", Json.str n.cuid),
          ("duid", Json.str n.duid), ("sseq", jnat n.sseq)]) ns)] ++ extra
    match r with
    | .rpcErr _ => some (s1, Json.mkObj base)
    | .ok ps =>
      if fault = "drop" then some (s1, Json.mkObj base)
      else if fault = "late" then some ({ s1 with held := (getN j "hold", rs, ps) :: s1.held }, Json.mkObj base)
      else
        let (s2, posts) := s1.applyPacks rs ps
        some (s2, Json.mkObj (base ++ [("posts", posts)]))
  | "fsync" =>
    -- a single-pack sync with a storage fault at the named command
    let c := getN j "c"
    let (cl, boundCol) := s.sclients[c]!
    let r := getN j "r"
    let p := (s.wdt r).createPack
    let cls := getS j "cls"
    let f : FaultAt := match cls with
      | "find:-_-Collections" => .findCollections | "find:-_-Clients" => .findClients
      | "find:-_-Datatypes" => .findDatatypes | "find:-_-Operations" => .findOperations
      | "delete:-_-Operations" => .deleteLeftovers | "insert:-_-Operations" => .insertOperations | "update:-_-Datatypes" => .updateDatatypes
      | "bg:userdoc" => .bgUserDoc | _ => .background
    let (sview, left) := s.store.committedView
    let (st1, reply, ns) := sview.processPushPullFault boundCol cl.cuid p f
    -- background work: done unless it is the faulted part
    let pushedSomething := st1.operations.length > sview.operations.length && f ≠ .updateDatatypes
    let pushedDuids := if st1.operations.length > sview.operations.length then [p.duid, (s.wdt r).duid] else []
    let st2 := match f with
      | .background => st1
      | .bgUserDoc =>
        if pushedSomething then
          let st' := (match st1.collections.find? (fun (cd : CollectionDoc) => cd.name = boundCol) with
            | some cd => st1.updateSnapshot (s.wdt r).duid cd.name | none => st1)
          { st' with userDocs := st1.userDocs }
        else st1
      | _ =>
        if pushedSomething then
          (match st1.collections.find? (fun (cd : CollectionDoc) => cd.name = boundCol) with
            | some cd => st1.updateSnapshot (match reply with | .normal rp => rp.duid | _ => (s.wdt r).duid) cd.name | none => st1)
        else st1
    let s1 := { s with store := st2.withLeftovers left pushedDuids }
    let nj := listJ (fun (n : Notification) => Json.mkObj [("topic", Json.str n.topic), ("cuid", Json.str n.cuid),
          ("duid", Json.str n.duid), ("sseq", jnat n.sseq)]) ns
    match reply with
    | .rpcErr code => some (s1, Json.mkObj [("rpc", jnat code), ("resperr", Json.null), ("notifs", nj)])
    | .errPack code =>
      let (s2, posts) := s1.applyPacks [r] [errorPack p code]
      some (s2, Json.mkObj [("rpc", jnat 0), ("resperr", jnat code), ("notifs", nj), ("posts", posts)])
    | .normal rp =>
      let (s2, posts) := s1.applyPacks [r] [rp]
      let code : Nat := match rp.ops with | ⟨_, .error cde⟩ :: _ => (if rp.error then cde else 0) | _ => 0
      some (s2, Json.mkObj [("rpc", jnat 0), ("resperr", jnat code), ("notifs", nj), ("posts", posts)])
  | "applylate" =>
    let h := getN j "hold"
    match s.held.find? (fun x => x.1 = h) with
    | none => some (s, Json.mkObj [("posts", Json.arr #[])])
    | some (_, rs, ps) =>
      let (s2, posts) := { s with held := s.held.filter (fun x => x.1 ≠ h) }.applyPacks rs ps
      some (s2, Json.mkObj [("posts", posts)])
  | "patch" =>
    let (sview, left) := s.store.committedView
    let (st1, r, ns, jobs) := sview.patchDocument (getS j "col") (getS j "key") (JVal.ofJson (getJ j "json"))
                                (getS j "duid") (getS j "cuid")
    let st2 := jobs.foldl (fun acc (duid, colNum) =>
      match acc.collections.find? (fun c => c.num = colNum) with
      | some cd => acc.updateSnapshot duid cd.name
      | none => acc) st1
    some ({ s with store := st2.withLeftovers left (jobs.map (·.1)) }, Json.mkObj [("rpc", rpcJ r),
      ("json", match r with | .ok v => v.toJson | _ => Json.null),
      ("notifs", listJ (fun (n : Notification) => Json.mkObj [("topic", Json.str n.topic), ("cuid", Json.str n.cuid),
          ("duid", Json.str n.duid), ("sseq", jnat n.sseq)]) ns)])
  | "store" =>
    let st := if getB j "lite" then { s.store with snapshots := [], userDocs := [] } else s.store
    some (s, Json.mkObj [("store", storeJ st)])
  | _ => none

def Sim.step (s : Sim) (j : Json) : Sim × Json :=
  match s.svcStep j with
  | some r => r
  | none =>
  match getS j "k" with
  | "case" =>
    let typ := parseDt (getS j "dt")
    let cuids := (getA j "cuids").map (fun c => (c.getStr?).toOption.getD "")
    let reps := (cuids.zipIdx.map fun (c, i) => Replica.new typ c (i = 0)).toArray
    let z := reps.map (fun _ => 0)
    let s' : Sim := { reps, log := #[], pubCur := z, dlvCur := z, emitCur := z,
                      aid := (List.range reps.size).toArray, applied := reps.map (fun _ => []),
                      handles := reps.map (fun _ => [("root", Ts.oldest)]) }
    -- initial emitted operations (the creator's snapshot operation) are reported per replica
    let (s'', posts) := (List.range reps.size).foldl (fun (acc : Sim × List Json) i =>
      let (s1, p) := acc.1.post i; (s1, acc.2 ++ [Json.mkObj p])) (s', [])
    (s'', Json.mkObj [("init", Json.arr posts.toArray)])
  | "call" =>
    let i := getN j "r"
    match parseCall s.handles[i]! j with
    | none => (s, Json.mkObj [("bad", Json.bool true)])
    | some c =>
      let (r', o) := s.reps[i]!.call c
      let s1 := { s with reps := s.reps.set! i r' }
      let pl := plainDocJ s.reps[i]!.state c
      if s.wkey.size > 0 then (s1, Json.mkObj (outcomeJ Ret.toJson o ++ s1.spost i ++ pl))
      else
      let (s2, p) := s1.post i
      (s2, Json.mkObj (outcomeJ Ret.toJson o ++ p ++ pl))
  | "tx" =>
    let i := getN j "r"
    let calls := (getA j "calls").filterMap (parseCall s.handles[i]!)
    let (r', outs, o) := s.reps[i]!.txCalls (getS j "tag") calls (getB j "stop") (getB j "fail")
    let s1 := { s with reps := s.reps.set! i r' }
    let (s2, p) := s1.post i
    (s2, Json.mkObj ([("outs", listJ (fun o => Json.mkObj (outcomeJ Ret.toJson o)) outs)] ++ outcomeErr o ++ p))
  | "pub" =>
    let i := getN j "r"
    let r := s.reps[i]!
    let units := splitUnits (r.buffer.drop s.pubCur[i]!)
    let log := units.foldl (fun l u => l.push (s.aid[i]!, u)) s.log
    ({ s with log, pubCur := s.pubCur.set! i r.buffer.length }, Json.mkObj [("units", jnat units.length)])
  | "dlv" =>
    let i := getN j "r"
    let (cur, units) := s.nextUnits i (getN j "n") s.dlvCur[i]! []
    let mut_ := getS j "mut"
    let units := if mut_ = "" then units else units.map (mutateUnit mut_)
    let (r', o) := s.reps[i]!.receive units.flatten
    let okApplied : Bool := match o with | .ok _ => mut_ == "" | _ => false
    let s1 := { s with reps := s.reps.set! i r', dlvCur := s.dlvCur.set! i cur,
                       applied := if okApplied then s.applied.set! i (s.applied[i]! ++ units.flatten) else s.applied }
    let (s2, p) := s1.post i
    (s2, Json.mkObj ([("n", jnat units.length), ("ids", listJ (fun (o : Op) => o.id.toJson) units.flatten)] ++ outcomeErr o ++ p))
  | "snap" =>
    let i := getN j "r"
    let r' := Replica.importFrom s.reps[i]!
    let s1 := { s with reps := s.reps.push r', pubCur := s.pubCur.push 0,
                       dlvCur := s.dlvCur.push s.dlvCur[i]!, emitCur := s.emitCur.push 0,
                       aid := s.aid.push s.aid[i]!, applied := s.applied.push s.applied[i]!,
                       handles := s.handles.push [("root", Ts.oldest)] }
    let (s2, p) := s1.post (s1.reps.size - 1)
    (s2, Json.mkObj p)
  | "nav" =>
    -- GetFromObject(key) / GetFromArray(pos) on the handle `from`; a non-nil result is bound to `to`
    let i := getN j "r"
    let hs := s.handles[i]!
    let h : Ts := (alFind (getS j "from") hs).getD Ts.oldest
    match s.reps[i]!.state with
    | .doc d =>
      let viaKey := (j.getObjVal? "key").isOk
      let (errc, child) : Nat × Option Ts :=
        if viaKey then
          match d.assertLocal h .obj true with
          | some c => (c, none)
          | none =>
            match d.findObj h with
            | some (_, m, _) =>
              match alFind (getS j "key") m with
              | some c => if d.garbage c then (0, none) else (0, some c)
              | none => (0, none)
            | none => (0, none)
        else
          match d.assertLocal h .arr true with
          | some c => (c, none)
          | none =>
            match (d.arrRga h).validateRange (getI j "pos") 1 with
            | some c => (c, none)
            | none => (0, ((d.liveChildren h).drop (getN j "pos")).head?)
      match child with
      | some c =>
        let kind := match d.kindOf c with | .elem => "E" | .obj => "O" | .arr => "A"
        ({ s with handles := s.handles.set! i (alSet (getS j "to") c hs) },
         Json.mkObj [("err", jnat errc), ("kind", Json.str kind), ("value", (d.viewAt c).toJson)])
      | none => (s, Json.mkObj [("err", jnat errc), ("kind", Json.null), ("value", Json.null)])
    | _ => (s, Json.mkObj [("bad", Json.bool true)])
  | "pjson" =>
    let i := getN j "r"
    let (r', ops, o) := s.reps[i]!.patchByJSON (JVal.ofJson (getJ j "json"))
    let s1 := { s with reps := s.reps.set! i r' }
    let (s2, p) := s1.post i
    let pj (op : PatchOp) : Json := match op with
      | .add pth v => Json.mkObj [("op", "add"), ("path", listJ Json.str pth), ("value", v.toJson)]
      | .remove pth => Json.mkObj [("op", "remove"), ("path", listJ Json.str pth)]
      | .replace pth v => Json.mkObj [("op", "replace"), ("path", listJ Json.str pth), ("value", v.toJson)]
    (s2, Json.mkObj ([("patch", listJ pj ops)] ++ outcomeErr o ++ p))
  | "jdiff" =>
    let ops := jsonDiff (JVal.ofJson (getJ j "src")).canon (JVal.ofJson (getJ j "tgt")).canon
    let pj (op : PatchOp) : Json := match op with
      | .add pth v => Json.mkObj [("op", "add"), ("path", listJ Json.str pth), ("value", v.toJson)]
      | .remove pth => Json.mkObj [("op", "remove"), ("path", listJ Json.str pth)]
      | .replace pth v => Json.mkObj [("op", "replace"), ("path", listJ Json.str pth), ("value", v.toJson)]
    let applied := applyPatch ops (JVal.ofJson (getJ j "src")).canon
    (s, Json.mkObj [("patch", listJ pj ops), ("applied", optJ JVal.toJson applied)])
  | "hash" =>
    match getA j "ts" with
    | [e, l, c, d] =>
      let t : Ts := ⟨(e.getNat?).toOption.getD 0, (l.getNat?).toOption.getD 0, (c.getStr?).toOption.getD "", (d.getNat?).toOption.getD 0⟩
      (s, Json.mkObj [("hash", Json.str (String.ofList (hashKey t)))])
    | _ => (s, Json.mkObj [("bad", Json.bool true)])
  | "cmp" =>
    let ts (k : String) : Ts := match getA j k with
      | [e, l, c, d] => ⟨(e.getNat?).toOption.getD 0, (l.getNat?).toOption.getD 0, (c.getStr?).toOption.getD "", (d.getNat?).toOption.getD 0⟩
      | _ => Ts.oldest
    let r : Int := match (ts "a").cmp64 (ts "b") with | .lt => -1 | .eq => 0 | .gt => 1
    (s, Json.mkObj [("cmp", jint r)])
  | "obs" =>
    let i := getN j "r"
    let r := s.reps[i]!
    (s, Json.mkObj [("view", r.state.view), ("size", r.state.sizeJ), ("opid", r.opId.toJson),
                    ("dump", r.state.toJson)])
  | _ => (s, Json.mkObj [("skip", Json.bool true)])

partial def loop (h : IO.FS.Stream) (out : IO.FS.Stream) (s : Sim) : IO Unit := do
  let line ← h.getLine
  if line.isEmpty then return ()
  match Json.parse line with
  | .error _ => out.putStrLn "{\"bad\":true}"; loop h out s
  | .ok j =>
    let (s', o) := s.step j
    out.putStrLn o.compress
    loop h out s'

end Orda

def main : IO Unit := do
  let stdin ← IO.getStdin
  let stdout ← IO.getStdout
  Orda.loop stdin stdout {}
