/-
Line-protocol driver (lean_exe `ordamodel`): reads a trace (JSON lines), runs the executable model,
prints one observation line per step.  Imports Model + Spec + Lean.Data.Json only (no Mathlib).
-/
import Orda.Codec
import Orda.Model.Api
import Orda.Spec.Denote
open Lean
namespace Orda

structure Sim where
  reps : Array Replica := #[]
  log : Array (Nat × List Op) := #[]       -- (author replica, unit) in server-log order
  pubCur : Array Nat := #[]                -- per replica: number of buffer ops already published
  dlvCur : Array Nat := #[]                -- per replica: next log index to look at
  emitCur : Array Nat := #[]               -- per replica: buffer length already reported as emitted
  aid : Array Nat := #[]                   -- author identity (a snapshot twin carries its source's)
  applied : Array (List Op) := #[]         -- per replica: operations applied so far (own + delivered)
  handles : Array (List (String × Ts)) := #[]  -- per replica: Document handles (name ↦ node)
deriving Inhabited

def outcomeJ {α} (f : α → Json) : Outcome α → List (String × Json)
  | .ok a => [("ret", f a), ("err", jnat 0)]
  | .err c => [("ret", Json.null), ("err", jnat c)]
  | .panic _ => [("ret", Json.null), ("err", jnat 0), ("panic", Json.bool true)]

def outcomeErr {α} : Outcome α → List (String × Json)
  | .ok _ => [("err", jnat 0)]
  | .err c => [("err", jnat c)]
  | .panic _ => [("err", jnat 0), ("panic", Json.bool true)]

def specView (typ : DtType) (ops : List Op) : List (String × Json) :=
  match typ with
  | .counter => [("spec", Json.mkObj [("Counter", jint (Spec.counter ops))]), ("specSize", Json.null)]
  | .map =>
    let v := Spec.mapView ops
    [("spec", Json.mkObj (v.map fun (k, x) => (k, x.toJson))), ("specSize", jnat v.length)]
  | .list =>
    let v := Spec.listView ops
    [("spec", Json.mkObj [("List", listJ JVal.toJson v)]), ("specSize", jnat v.length)]
  | .document => []

def parseCall (hs : List (String × Ts)) (j : Json) : Option Call :=
  let a := getJ j "a"
  let h : Ts := (alFind (getS j "h") hs).getD Ts.oldest
  match getS j "m" with
  | "dput" => some (.dput h (getS a "k") (JVal.ofJson (getJ a "v")))
  | "dremove" => some (.dremove h (getS a "k"))
  | "dinsert" => some (.dinsert h (getI a "pos") (getVals a "vs"))
  | "ddelete" => some (.ddelete h (getI a "pos"))
  | "ddeleteMany" => some (.ddeleteMany h (getI a "pos") (getI a "n"))
  | "dupdate" => some (.dupdate h (getI a "pos") (getVals a "vs"))
  | "dgetObj" => some (.dgetObj h (getS a "k"))
  | "dgetArr" => some (.dgetArr h (getI a "pos") (getI a "n"))
  | "dvalue" => some (.dvalue h)
  | "inc" => some (.inc (getI a "d"))
  | "mput" => some (.mput (getS a "k") (JVal.ofJson (getJ a "v")))
  | "mremove" => some (.mremove (getS a "k"))
  | "mget" => some (.mget (getS a "k"))
  | "msize" => some .msize
  | "linsert" => some (.linsert (getI a "pos") (getVals a "vs"))
  | "ldelete" => some (.ldelete (getI a "pos"))
  | "ldeleteMany" => some (.ldeleteMany (getI a "pos") (getI a "n"))
  | "lupdate" => some (.lupdate (getI a "pos") (getVals a "vs"))
  | "lget" => some (.lget (getI a "pos"))
  | "lgetMany" => some (.lgetMany (getI a "pos") (getI a "n"))
  | "lsize" => some .lsize
  | _ => none

def parseDt : String → DtType
  | "counter" => .counter
  | "map" => .map
  | "list" => .list
  | _ => .document

/-- post-state summary of replica `i`, and the operations it emitted since the last summary -/
def Sim.post (s : Sim) (i : Nat) : Sim × List (String × Json) :=
  let r := s.reps[i]!
  let from_ := s.emitCur[i]!
  let emitted := r.buffer.drop from_
  let app := s.applied[i]! ++ emitted
  ({ s with emitCur := s.emitCur.set! i r.buffer.length, applied := s.applied.set! i app },
   [("view", r.state.view), ("size", r.state.sizeJ),
    ("opid", r.opId.toJson), ("emitted", listJ Op.toJson emitted)] ++ specView r.typ app)

/-- split a replica's unpublished buffer suffix into units (a transaction header announces its length) -/
partial def splitUnits : List Op → List (List Op)
  | [] => []
  | o :: rest =>
    match o.body with
    | .transaction _ n =>
      let k := if n < 1 then 1 else n.toNat
      ((o :: rest).take k) :: splitUnits ((o :: rest).drop k)
    | _ => [o] :: splitUnits rest

/-- mutate a unit as the harness does for C09 -/
def mutateUnit (mu : String) (u : List Op) : List Op :=
  match mu, u with
  | "truncate", _ => u.dropLast
  | "countplus", hd :: tl =>
    match hd.body with
    | .transaction tag n => { hd with body := .transaction tag (n + 1) } :: tl
    | _ => u
  | "countminus", hd :: tl =>
    match hd.body with
    | .transaction tag n => { hd with body := .transaction tag (n - 1) } :: tl
    | _ => u
  | "countzero", hd :: tl =>
    match hd.body with
    | .transaction tag _ => { hd with body := .transaction tag 0 } :: tl
    | _ => u
  | "countneg", hd :: tl =>
    match hd.body with
    | .transaction tag _ => { hd with body := .transaction tag (-1) } :: tl
    | _ => u
  | _, _ => u

/-- next `n` log units for replica `j` that it did not author -/
partial def Sim.nextUnits (s : Sim) (j n : Nat) (cur : Nat) (acc : List (List Op)) : Nat × List (List Op) :=
  if n = 0 || cur ≥ s.log.size then (cur, acc)
  else
    let (a, u) := s.log[cur]!
    if a = s.aid[j]! then s.nextUnits j n (cur + 1) acc else s.nextUnits j (n - 1) (cur + 1) (acc ++ [u])

def Sim.step (s : Sim) (j : Json) : Sim × Json :=
  match getS j "k" with
  | "case" =>
    let typ := parseDt (getS j "dt")
    let cuids := (getA j "cuids").map (fun c => (c.getStr?).toOption.getD "")
    let reps := (cuids.zipIdx.map fun (c, i) => Replica.new typ c (i = 0)).toArray
    let z := reps.map (fun _ => 0)
    let s' : Sim := { reps, log := #[], pubCur := z, dlvCur := z, emitCur := z,
                      aid := (List.range reps.size).toArray, applied := reps.map (fun _ => []),
                      handles := reps.map (fun _ => [("root", Ts.oldest)]) }
    -- initial emitted operations (the creator's snapshot operation) are reported per replica
    let (s'', posts) := (List.range reps.size).foldl (fun (acc : Sim × List Json) i =>
      let (s1, p) := acc.1.post i; (s1, acc.2 ++ [Json.mkObj p])) (s', [])
    (s'', Json.mkObj [("init", Json.arr posts.toArray)])
  | "call" =>
    let i := getN j "r"
    match parseCall s.handles[i]! j with
    | none => (s, Json.mkObj [("bad", Json.bool true)])
    | some c =>
      let (r', o) := s.reps[i]!.call c
      let s1 := { s with reps := s.reps.set! i r' }
      let (s2, p) := s1.post i
      (s2, Json.mkObj (outcomeJ Ret.toJson o ++ p))
  | "tx" =>
    let i := getN j "r"
    let calls := (getA j "calls").filterMap (parseCall s.handles[i]!)
    let (r', outs, o) := s.reps[i]!.txCalls (getS j "tag") calls (getB j "stop") (getB j "fail")
    let s1 := { s with reps := s.reps.set! i r' }
    let (s2, p) := s1.post i
    (s2, Json.mkObj ([("outs", listJ (fun o => Json.mkObj (outcomeJ Ret.toJson o)) outs)] ++ outcomeErr o ++ p))
  | "pub" =>
    let i := getN j "r"
    let r := s.reps[i]!
    let units := splitUnits (r.buffer.drop s.pubCur[i]!)
    let log := units.foldl (fun l u => l.push (s.aid[i]!, u)) s.log
    ({ s with log, pubCur := s.pubCur.set! i r.buffer.length }, Json.mkObj [("units", jnat units.length)])
  | "dlv" =>
    let i := getN j "r"
    let (cur, units) := s.nextUnits i (getN j "n") s.dlvCur[i]! []
    let mut_ := getS j "mut"
    let units := if mut_ = "" then units else units.map (mutateUnit mut_)
    let (r', o) := s.reps[i]!.receive units.flatten
    let okApplied : Bool := match o with | .ok _ => mut_ == "" | _ => false
    let s1 := { s with reps := s.reps.set! i r', dlvCur := s.dlvCur.set! i cur,
                       applied := if okApplied then s.applied.set! i (s.applied[i]! ++ units.flatten) else s.applied }
    let (s2, p) := s1.post i
    (s2, Json.mkObj ([("n", jnat units.length), ("ids", listJ (fun (o : Op) => o.id.toJson) units.flatten)] ++ outcomeErr o ++ p))
  | "snap" =>
    let i := getN j "r"
    let r' := Replica.importFrom s.reps[i]!
    let s1 := { s with reps := s.reps.push r', pubCur := s.pubCur.push 0,
                       dlvCur := s.dlvCur.push s.dlvCur[i]!, emitCur := s.emitCur.push 0,
                       aid := s.aid.push s.aid[i]!, applied := s.applied.push s.applied[i]!,
                       handles := s.handles.push [("root", Ts.oldest)] }
    let (s2, p) := s1.post (s1.reps.size - 1)
    (s2, Json.mkObj p)
  | "nav" =>
    -- GetFromObject(key) / GetFromArray(pos) on the handle `from`; a non-nil result is bound to `to`
    let i := getN j "r"
    let hs := s.handles[i]!
    let h : Ts := (alFind (getS j "from") hs).getD Ts.oldest
    match s.reps[i]!.state with
    | .doc d =>
      let viaKey := (j.getObjVal? "key").isOk
      let (errc, child) : Nat × Option Ts :=
        if viaKey then
          match d.assertLocal h .obj true with
          | some c => (c, none)
          | none =>
            match d.findObj h with
            | some (_, m, _) =>
              match alFind (getS j "key") m with
              | some c => if d.garbage c then (0, none) else (0, some c)
              | none => (0, none)
            | none => (0, none)
        else
          match d.assertLocal h .arr true with
          | some c => (c, none)
          | none =>
            match (d.arrRga h).validateRange (getI j "pos") 1 with
            | some c => (c, none)
            | none => (0, ((d.liveChildren h).drop (getN j "pos")).head?)
      match child with
      | some c =>
        let kind := match d.kindOf c with | .elem => "E" | .obj => "O" | .arr => "A"
        ({ s with handles := s.handles.set! i (alSet (getS j "to") c hs) },
         Json.mkObj [("err", jnat errc), ("kind", Json.str kind), ("value", (d.viewAt c).toJson)])
      | none => (s, Json.mkObj [("err", jnat errc), ("kind", Json.null), ("value", Json.null)])
    | _ => (s, Json.mkObj [("bad", Json.bool true)])
  | "hash" =>
    match getA j "ts" with
    | [e, l, c, d] =>
      let t : Ts := ⟨(e.getNat?).toOption.getD 0, (l.getNat?).toOption.getD 0, (c.getStr?).toOption.getD "", (d.getNat?).toOption.getD 0⟩
      (s, Json.mkObj [("hash", Json.str (String.ofList (hashKey t)))])
    | _ => (s, Json.mkObj [("bad", Json.bool true)])
  | "cmp" =>
    let ts (k : String) : Ts := match getA j k with
      | [e, l, c, d] => ⟨(e.getNat?).toOption.getD 0, (l.getNat?).toOption.getD 0, (c.getStr?).toOption.getD "", (d.getNat?).toOption.getD 0⟩
      | _ => Ts.oldest
    let r : Int := match (ts "a").cmp64 (ts "b") with | .lt => -1 | .eq => 0 | .gt => 1
    (s, Json.mkObj [("cmp", jint r)])
  | "obs" =>
    let i := getN j "r"
    let r := s.reps[i]!
    (s, Json.mkObj [("view", r.state.view), ("size", r.state.sizeJ), ("opid", r.opId.toJson),
                    ("dump", r.state.toJson)])
  | _ => (s, Json.mkObj [("skip", Json.bool true)])

partial def loop (h : IO.FS.Stream) (out : IO.FS.Stream) (s : Sim) : IO Unit := do
  let line ← h.getLine
  if line.isEmpty then return ()
  match Json.parse line with
  | .error _ => out.putStrLn "{\"bad\":true}"; loop h out s
  | .ok j =>
    let (s', o) := s.step j
    out.putStrLn o.compress
    loop h out s'

end Orda

def main : IO Unit := do
  let stdin ← IO.getStdin
  let stdout ← IO.getStdout
  Orda.loop stdin stdout {}
