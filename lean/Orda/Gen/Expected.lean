/- Source shape the model was written against (hashes of the normalised functions of the anchored files).
   Written by `tools/gofacts -write-expected` from a tree on which all checks pass; committed; compared with the
   REGENERATED `Orda.Gen.Shape` by the theorems of Orda/Shape/Cxx.lean. -/
namespace Orda.Gen
namespace Expected
/-- client/pkg/errors/rpc.go (4 declarations) -/
def client_pkg_errors_rpc_go : Nat := 0x54724b0e6321f45a
/-- client/pkg/internal/datatypes/base.go (23 declarations) -/
def client_pkg_internal_datatypes_base_go : Nat := 0xa9ed19a09f684f84
/-- client/pkg/internal/datatypes/snapshot.go (8 declarations) -/
def client_pkg_internal_datatypes_snapshot_go : Nat := 0x605473dde7ab2be7
/-- client/pkg/internal/datatypes/transaction.go (16 declarations) -/
def client_pkg_internal_datatypes_transaction_go : Nat := 0xe49121e6d6c155a1
/-- client/pkg/internal/datatypes/wired.go (19 declarations) -/
def client_pkg_internal_datatypes_wired_go : Nat := 0x0d2c7c41fa51fdcf
/-- client/pkg/internal/managers/datatype.go (13 declarations) -/
def client_pkg_internal_managers_datatype_go : Nat := 0xaeeed76605a07197
/-- client/pkg/internal/managers/notify.go (12 declarations) -/
def client_pkg_internal_managers_notify_go : Nat := 0x9c688a780bc91c8d
/-- client/pkg/internal/managers/sync.go (9 declarations) -/
def client_pkg_internal_managers_sync_go : Nat := 0x8f29db0ac3d2546d
/-- client/pkg/model/checkpoint.go (7 declarations) -/
def client_pkg_model_checkpoint_go : Nat := 0xe5c2885f5535790e
/-- client/pkg/model/operation_id.go (11 declarations) -/
def client_pkg_model_operation_id_go : Nat := 0x7b6eb5067d42b17b
/-- client/pkg/model/push_pull_pack.go (22 declarations) -/
def client_pkg_model_push_pull_pack_go : Nat := 0x041fc285a8baa060
/-- client/pkg/model/timestamp.go (8 declarations) -/
def client_pkg_model_timestamp_go : Nat := 0x1e6999e44274f6a1
/-- client/pkg/operations/base.go (9 declarations) -/
def client_pkg_operations_base_go : Nat := 0x42aff4dae3911d6c
/-- client/pkg/operations/converter.go (3 declarations) -/
def client_pkg_operations_converter_go : Nat := 0x4c25cf313c3af088
/-- client/pkg/operations/document.go (20 declarations) -/
def client_pkg_operations_document_go : Nat := 0xf2a7654a0d22f753
/-- client/pkg/operations/list.go (12 declarations) -/
def client_pkg_operations_list_go : Nat := 0xbb8906f26155a19a
/-- client/pkg/operations/map.go (8 declarations) -/
def client_pkg_operations_map_go : Nat := 0x1bf75cf4a58b01d8
/-- client/pkg/operations/meta.go (17 declarations) -/
def client_pkg_operations_meta_go : Nat := 0x68f3c75c4221e696
/-- client/pkg/orda/client.go (28 declarations) -/
def client_pkg_orda_client_go : Nat := 0xc1bce73a03663bb9
/-- client/pkg/orda/counter.go (20 declarations) -/
def client_pkg_orda_counter_go : Nat := 0x76fceb8d9179e784
/-- client/pkg/orda/datatype.go (10 declarations) -/
def client_pkg_orda_datatype_go : Nat := 0xb25df23a1a1154f9
/-- client/pkg/orda/document.go (33 declarations) -/
def client_pkg_orda_document_go : Nat := 0x1bd3d21ce599e4f3
/-- client/pkg/orda/document_marshal.go (11 declarations) -/
def client_pkg_orda_document_marshal_go : Nat := 0x2851ec7655f50d68
/-- client/pkg/orda/json_array.go (17 declarations) -/
def client_pkg_orda_json_array_go : Nat := 0xcb300268f67985e9
/-- client/pkg/orda/json_object.go (18 declarations) -/
def client_pkg_orda_json_object_go : Nat := 0xf63b9a53839f82fc
/-- client/pkg/orda/json_primitive.go (55 declarations) -/
def client_pkg_orda_json_primitive_go : Nat := 0x1fecdce253e630b0
/-- client/pkg/orda/list.go (49 declarations) -/
def client_pkg_orda_list_go : Nat := 0x03e73e1ba72210ff
/-- client/pkg/orda/map.go (28 declarations) -/
def client_pkg_orda_map_go : Nat := 0x8ce6d9954e483a65
/-- client/pkg/orda/ordered.go (14 declarations) -/
def client_pkg_orda_ordered_go : Nat := 0xc91344a7c33b50eb
/-- client/pkg/orda/timed.go (10 declarations) -/
def client_pkg_orda_timed_go : Nat := 0x5736c45877b53746
/-- client/pkg/types/json_values.go (8 declarations) -/
def client_pkg_types_json_values_go : Nat := 0x67d361d0a90ce369
/-- client/pkg/types/uid.go (5 declarations) -/
def client_pkg_types_uid_go : Nat := 0xfb05fb5191909511
/-- server/admin/admin.go (4 declarations) -/
def server_admin_admin_go : Nat := 0x00e86711a745af2e
/-- server/managers/managers.go (4 declarations) -/
def server_managers_managers_go : Nat := 0x6684d58bb76537dd
/-- server/mongodb/collection_clients.go (4 declarations) -/
def server_mongodb_collection_clients_go : Nat := 0x899f905293fcacc7
/-- server/mongodb/collection_col_num_generator.go (2 declarations) -/
def server_mongodb_collection_col_num_generator_go : Nat := 0xc3c5157dfa49d150
/-- server/mongodb/collection_collections.go (5 declarations) -/
def server_mongodb_collection_collections_go : Nat := 0xcc3919f98925b5d4
/-- server/mongodb/collection_datatypes.go (5 declarations) -/
def server_mongodb_collection_datatypes_go : Nat := 0x3f28e9289d254e75
/-- server/mongodb/collection_operations.go (5 declarations) -/
def server_mongodb_collection_operations_go : Nat := 0x67be26975c2c28cb
/-- server/mongodb/collection_real_collection.go (3 declarations) -/
def server_mongodb_collection_real_collection_go : Nat := 0xbf6041caa3b43037
/-- server/mongodb/collection_snapshots.go (2 declarations) -/
def server_mongodb_collection_snapshots_go : Nat := 0x48ffc9b96ef529c8
/-- server/mongodb/repository_mongo.go (8 declarations) -/
def server_mongodb_repository_mongo_go : Nat := 0xdf5073ba5e897345
/-- server/notification/notifier.go (3 declarations) -/
def server_notification_notifier_go : Nat := 0x0a3793c953e0ab7f
/-- server/redis/client.go (4 declarations) -/
def server_redis_client_go : Nat := 0xb264ea5c03841774
/-- server/schema/datatypes.go (16 declarations) -/
def server_schema_datatypes_go : Nat := 0xefbe846c143e443c
/-- server/schema/operations.go (6 declarations) -/
def server_schema_operations_go : Nat := 0xa890114086f5e477
/-- server/service/service_client.go (1 declarations) -/
def server_service_service_client_go : Nat := 0x485d38ea39e33792
/-- server/service/service_collections.go (2 declarations) -/
def server_service_service_collections_go : Nat := 0x9d220f52f8cb9e20
/-- server/service/service_patch_document.go (1 declarations) -/
def server_service_service_patch_document_go : Nat := 0xb215d622d54f3e6c
/-- server/service/service_pushpull_client.go (1 declarations) -/
def server_service_service_pushpull_client_go : Nat := 0xa6eecb298f63eb44
/-- server/service/service_pushpull_datatype.go (23 declarations) -/
def server_service_service_pushpull_datatype_go : Nat := 0x3981145d16048efa
/-- server/service/service_test_encoding_operations.go (3 declarations) -/
def server_service_service_test_encoding_operations_go : Nat := 0x5a29d578134d8245
/-- server/snapshot/manager.go (5 declarations) -/
def server_snapshot_manager_go : Nat := 0xd8419a18aab44b22
/-- server/utils/local_lock.go (5 declarations) -/
def server_utils_local_lock_go : Nat := 0xe71bd17786a6e95e
/-- server/utils/redis_lock.go (4 declarations) -/
def server_utils_redis_lock_go : Nat := 0x333d1ed6b4f23144
end Expected

end Orda.Gen
