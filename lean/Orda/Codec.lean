/-
JSON boundary of the line protocol (driver only; no theorem mentions Lean.Json).
Canonical forms:  ts = [era, lamport, "cuid", delim];  op id = [era, lamport, "cuid", seq].
-/
import Lean.Data.Json
import Orda.Model.Replica
open Lean
namespace Orda

partial def JVal.toJson : JVal → Json
  | .null => Json.null
  | .bool b => Json.bool b
  | .num n => Json.num (JsonNumber.fromInt n)
  | .str s => Json.str s
  | .arr l => Json.arr (l.map JVal.toJson).toArray
  | .obj kvs => Json.mkObj (kvs.map fun (k, v) => (k, v.toJson))

partial def JVal.ofJson : Json → JVal
  | .null => .null
  | .bool b => .bool b
  | .num n => .num (if n.exponent = 0 then n.mantissa else n.mantissa / (10 ^ n.exponent))
  | .str s => .str s
  | .arr a => .arr (a.toList.map JVal.ofJson)
  | .obj kvs => .obj (kvs.toList.map fun (k, v) => (k, JVal.ofJson v))

def jnat (n : Nat) : Json := Json.num (JsonNumber.fromNat n)
def jint (n : Int) : Json := Json.num (JsonNumber.fromInt n)

def Ts.toJson (t : Ts) : Json := Json.arr #[jnat t.era, jnat t.lamport, Json.str t.cuid, jnat t.delim]
def OpId.toJson (t : OpId) : Json := Json.arr #[jnat t.era, jnat t.lamport, Json.str t.cuid, jnat t.seq]
def optJ {α} (f : α → Json) : Option α → Json
  | none => Json.null
  | some a => f a
def listJ {α} (f : α → Json) (l : List α) : Json := Json.arr (l.map f).toArray

def DNode.toJson (n : DNode) : Json :=
  let base : List (String × Json) := [("c", n.c.toJson), ("d", optJ Ts.toJson n.d), ("p", optJ Ts.toJson n.parent)]
  match n.kind with
  | .elem v => Json.mkObj (base ++ [("t", Json.str "E"), ("e", v.toJson)])
  | .obj m sz => Json.mkObj (base ++ [("t", Json.str "O"), ("m", Json.mkObj (m.map fun (k, c) => (k, c.toJson))), ("s", jint sz)])
  | .arr sl sz => Json.mkObj (base ++ [("t", Json.str "A"),
      ("n", listJ (fun (s : Ts × Ts) => Json.arr #[s.1.toJson, s.2.toJson]) sl), ("s", jint sz)])

def DState.toJson : DState → Json
  | .counter v => Json.mkObj [("c", jint v)]
  | .map m => Json.mkObj [
      ("m", Json.mkObj (m.entries.map fun (k, e) =>
        (k, Json.mkObj [("v", optJ JVal.toJson e.v), ("t", e.t.toJson)]))),
      ("size", jint m.size)]
  | .list l => Json.mkObj [
      ("n", listJ (fun (n : RNode) =>
        Json.mkObj [("o", n.o.toJson), ("t", n.t.toJson), ("v", optJ JVal.toJson n.v)]) l.nodes),
      ("size", jint l.size)]
  | .doc d => Json.mkObj [("nodes", listJ DNode.toJson d.table)]

def DState.view : DState → Json
  | .counter v => Json.mkObj [("Counter", jint v)]
  | .map m => Json.mkObj (m.live.map fun (k, v) => (k, v.toJson))
  | .list l => Json.mkObj [("List", listJ JVal.toJson l.live)]
  | .doc d => d.view.toJson

def DState.sizeJ : DState → Json
  | .counter _ => Json.null
  | .map m => jint m.size
  | .list l => jint l.size
  | .doc _ => Json.null

def Op.toJson (o : Op) : Json :=
  let idj := ("id", o.id.toJson)
  match o.body with
  | .snapshot s => Json.mkObj [idj, ("t", "snap"), ("S", s.toJson)]
  | .error c => Json.mkObj [idj, ("t", "err"), ("code", jnat c)]
  | .transaction tag n => Json.mkObj [idj, ("t", "tx"), ("tag", Json.str tag), ("n", jint n)]
  | .increase d => Json.mkObj [idj, ("t", "inc"), ("d", jint d)]
  | .put k v => Json.mkObj [idj, ("t", "put"), ("K", Json.str k), ("V", v.toJson)]
  | .remove k => Json.mkObj [idj, ("t", "rm"), ("K", Json.str k)]
  | .insert _ t vs => Json.mkObj [idj, ("t", "ins"), ("T", optJ Ts.toJson t), ("V", listJ JVal.toJson vs)]
  | .delete _ _ tg => Json.mkObj [idj, ("t", "del"), ("T", listJ Ts.toJson tg)]
  | .update _ tg vs => Json.mkObj [idj, ("t", "upd"), ("T", listJ Ts.toJson tg), ("V", listJ JVal.toJson vs)]
  | .docPut p k v => Json.mkObj [idj, ("t", "dput"), ("P", p.toJson), ("K", Json.str k), ("V", v.toJson)]
  | .docRemove p k => Json.mkObj [idj, ("t", "drm"), ("P", p.toJson), ("K", Json.str k)]
  | .docInsert p _ t vs => Json.mkObj [idj, ("t", "dins"), ("P", p.toJson), ("T", optJ Ts.toJson t), ("V", listJ JVal.toJson vs)]
  | .docDelete p _ _ tg => Json.mkObj [idj, ("t", "ddel"), ("P", p.toJson), ("T", listJ Ts.toJson tg)]
  | .docUpdate p _ tg vs => Json.mkObj [idj, ("t", "dupd"), ("P", p.toJson), ("T", listJ Ts.toJson tg), ("V", listJ JVal.toJson vs)]

def Ret.toJson : Ret → Json
  | .none => Json.null
  | .int i => jint i
  | .val v => optJ JVal.toJson v
  | .vals vs => listJ JVal.toJson vs
  | .nodes ids => listJ Ts.toJson ids

def getS (j : Json) (k : String) : String := (j.getObjValAs? String k).toOption.getD ""
def getI (j : Json) (k : String) : Int := (j.getObjValAs? Int k).toOption.getD 0
def getN (j : Json) (k : String) : Nat := (getI j k).toNat
def getB (j : Json) (k : String) : Bool := (j.getObjValAs? Bool k).toOption.getD false
def getJ (j : Json) (k : String) : Json := (j.getObjVal? k).toOption.getD Json.null
def getA (j : Json) (k : String) : List Json :=
  match getJ j k with
  | .arr a => a.toList
  | _ => []
def getVals (j : Json) (k : String) : List JVal := (getA j k).map JVal.ofJson

end Orda
