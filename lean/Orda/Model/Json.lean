/-
JSON values as the model sees them (types/json_values.go after ConvertToJSONSupportedValue and a
JSON round trip): null, booleans, integers (the harness only uses integers exactly representable
as float64), strings, arrays, objects (association list, key order irrelevant: compared after sorting).
-/
namespace Orda

inductive JVal where
  | null
  | bool (b : Bool)
  | num (n : Int)
  | str (s : String)
  | arr (l : List JVal)
  | obj (kvs : List (String × JVal))
deriving Repr, Inhabited

mutual
def JVal.beq : JVal → JVal → Bool
  | .null, .null => true
  | .bool a, .bool b => a == b
  | .num a, .num b => a == b
  | .str a, .str b => a == b
  | .arr a, .arr b => JVal.beqList a b
  | .obj a, .obj b => JVal.beqKvs a b
  | _, _ => false
def JVal.beqList : List JVal → List JVal → Bool
  | [], [] => true
  | x :: xs, y :: ys => JVal.beq x y && JVal.beqList xs ys
  | _, _ => false
def JVal.beqKvs : List (String × JVal) → List (String × JVal) → Bool
  | [], [] => true
  | (k, x) :: xs, (k', y) :: ys => k == k' && JVal.beq x y && JVal.beqKvs xs ys
  | _, _ => false
end

instance : BEq JVal := ⟨JVal.beq⟩

def JVal.isNull : JVal → Bool
  | .null => true
  | _ => false

end Orda
