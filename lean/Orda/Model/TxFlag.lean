/-
Small-step model of the SUCCESS FLAG of TransactionDatatype (transaction.go): one shared boolean `success` decides in
EndTransaction whether the operations executed since BeginTransaction are committed (appended to the rollback log and
queued for push) or rolled back.  SetTransactionFail (a user transaction whose function returns an error, or an
operation that fails inside one) writes `false`; `unlock()` writes `true` again.  The mutex protocol itself is
Model/TxLock (mutual exclusion is a theorem there and a premise here: `lock` needs a free mutex).
Where the flag is reset is read from the source on every run (`Gen.txFacts`, tools/gofacts): the model is parametric in it.
Goroutine `i` performs one unit of work (a call, a transaction, or the delivery of remote operations); `fails i` says
whether its body reports a failure.
-/
import Orda.Model.TxFlagTypes
namespace Orda.TxFlag

inductive Pc where
  | idle      -- before BeginTransaction
  | waiting   -- in setTransactionContextAndLock, before mutex.Lock() returns
  | holding   -- holds the mutex, body running, no failure reported (yet)
  | failed    -- holds the mutex, SetTransactionFail was called
  | done
deriving DecidableEq, Repr, Inhabited

inductive Out where
  | pending | committed | rolledBack
deriving DecidableEq, Repr, Inhabited

structure St where
  mutex : Option Nat
  success : Bool
  pcs : List Pc
  outs : List Out
deriving DecidableEq, Repr, Inhabited

def init (n : Nat) : St := ⟨none, true, List.replicate n .idle, List.replicate n .pending⟩

def St.setPc (s : St) (i : Nat) (p : Pc) : St := { s with pcs := s.pcs.set i p }

/-- one step of goroutine `i`; `F` = where the source resets the flag -/
inductive Step (F : TxFacts) (fails : Nat → Bool) : St → St → Prop
  /-- setTransactionContextAndLock up to (not including) mutex.Lock() -/
  | arrive (s : St) (i : Nat) (h : s.pcs[i]? = some .idle) :
      Step F fails s ({ s with success := if F.resetBeforeLock then true else s.success }.setPc i .waiting)
  /-- mutex.Lock() returns -/
  | lock (s : St) (i : Nat) (h : s.pcs[i]? = some .waiting) (hm : s.mutex = none) :
      Step F fails s ({ s with mutex := some i }.setPc i .holding)
  /-- the body reports a failure: SetTransactionFail -/
  | bodyFails (s : St) (i : Nat) (h : s.pcs[i]? = some .holding) (hf : fails i = true) :
      Step F fails s ({ s with success := false }.setPc i .failed)
  /-- EndTransaction reads the flag (commit or roll back), then unlock() -/
  | finish (s : St) (i : Nat) (p : Pc) (h : s.pcs[i]? = some p)
      (hp : (p = .holding ∧ fails i = false) ∨ p = .failed) :
      Step F fails s ({ s with mutex := none,
                               success := if F.resetUnderLock then true else s.success,
                               outs := s.outs.set i (if s.success then .committed else .rolledBack) }.setPc i .done)

inductive Reach (F : TxFacts) (fails : Nat → Bool) (n : Nat) : St → Prop
  | init : Reach F fails n (init n)
  | step {s s'} : Reach F fails n s → Step F fails s s' → Reach F fails n s'

/-- the facts of the source the model was written against: reset inside unlock() while the mutex is held, nowhere else -/
def currentFacts : TxFacts := { resetUnderLock := true, resetBeforeLock := false, failWritesFalse := true, endReadsFlag := true }

end Orda.TxFlag
