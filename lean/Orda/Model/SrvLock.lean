/-
Small-step model of the server's per-key serialisation (service_pushpull_datatype.go:103-113, 186-190,
140; utils/local_lock.go): every handler of one (collection, key) first tries to take the key's
lock with ITS OWN request context; a handler that gets it runs its whole push-pull (one `processPack`)
and releases it; a handler that does not (its lease/context ran out while waiting) answers with an
error pack and touches nothing.  Only a holder unlocks.
-/
import Orda.Model.Server
namespace Orda.SrvLock

inductive HPc where
  | start | waiting | holding | served | refused
deriving DecidableEq, Repr, Inhabited

structure HSt where
  store : Store
  holder : Option Nat
  pcs : List HPc
  order : List Nat            -- handlers in the order in which they acquired the lock
  replies : List (Nat × Bool) -- (handler, error?) in the order the replies were sent
deriving Repr, Inhabited

/-- `reqs[i]` is the pack of handler i (all for the same client collection `col`; clients `cls[i]`) -/
structure Cfg where
  col : CollectionDoc
  cls : List ClientDoc
  packs : List Pack
deriving Repr, Inhabited

def Cfg.n (c : Cfg) : Nat := c.packs.length

def HSt.setPc (s : HSt) (i : Nat) (p : HPc) : HSt := { s with pcs := s.pcs.set i p }

def init (st : Store) (c : Cfg) : HSt := ⟨st, none, List.replicate c.n .start, [], []⟩

inductive Step (c : Cfg) : HSt → HSt → Prop
  | arrive (s : HSt) (i : Nat) (h : s.pcs[i]? = some .start) : Step c s (s.setPc i .waiting)
  /-- TryLock succeeds only when the mutex is free -/
  | acquire (s : HSt) (i : Nat) (h : s.pcs[i]? = some .waiting) (hf : s.holder = none) :
      Step c s ({ s with holder := some i, order := s.order ++ [i] }.setPc i .holding)
  /-- the lease or the request context runs out while waiting: error pack, nothing touched, no unlock -/
  | giveUp (s : HSt) (i : Nat) (h : s.pcs[i]? = some .waiting) :
      Step c s ({ s with replies := s.replies ++ [(i, true)] }.setPc i .refused)
  /-- the holder runs its whole push-pull and releases the lock -/
  | serve (s : HSt) (i : Nat) (h : s.pcs[i]? = some .holding) (cl : ClientDoc) (p : Pack)
      (hc : c.cls[i]? = some cl) (hp : c.packs[i]? = some p) :
      Step c s ({ s with store := (processPack s.store cl c.col p).store, holder := none,
                         replies := s.replies ++ [(i, (processPack s.store cl c.col p).resp.error)] }.setPc i .served)

inductive Reach (st : Store) (c : Cfg) : HSt → Prop
  | init : Reach st c (init st c)
  | step {s s'} : Reach st c s → Step c s s' → Reach st c s'

/-- serial execution of the handlers `is` in that order -/
def serial (c : Cfg) : Store → List Nat → Store
  | st, [] => st
  | st, i :: rest =>
    match c.cls[i]?, c.packs[i]? with
    | some cl, some p => serial c (processPack st cl c.col p).store rest
    | _, _ => serial c st rest

end Orda.SrvLock
