/-
Model of Document.PatchByJSON / Patch / patchEach (orda/document.go:66-190), of path resolution on
the live tree (json_primitive.go:211-249) and of the external library jsondiff (differ.go, default
options: no factorize / rationalize / invertible / equivalent), which is validated against this
model by the correspondence check.
Objects handed to `diff` have their keys sorted (the codec guarantees it), which is the order in which
compareObjects visits them.  A path is the list of its segments, already UNESCAPED (the repaired
getTargetFromPatch unescapes "~1" and "~0"; `escapeSeg` is what jsondiff renders).
-/
import Orda.Model.Api
namespace Orda

inductive PatchOp where
  | add (path : List String) (v : JVal)
  | remove (path : List String)
  | replace (path : List String) (v : JVal)
deriving Repr, Inhabited

def PatchOp.path : PatchOp → List String
  | .add p _ | .remove p | .replace p _ => p

/-- areComparable: same JSON kind -/
def JVal.kind : JVal → Nat
  | .null => 0 | .bool _ => 1 | .num _ => 2 | .str _ => 3 | .arr _ => 4 | .obj _ => 5

mutual
def JVal.nodes : JVal → Nat
  | .arr l => 1 + JVal.nodesList l
  | .obj kvs => 1 + JVal.nodesKvs kvs
  | _ => 1
def JVal.nodesList : List JVal → Nat
  | [] => 0
  | v :: vs => v.nodes + JVal.nodesList vs + 1
def JVal.nodesKvs : List (String × JVal) → Nat
  | [] => 0
  | (_, v) :: r => v.nodes + JVal.nodesKvs r + 1
end

mutual
/-- Differ.diff (fuel = an upper bound on the number of recursive calls; `jsonDiff` supplies enough) -/
def jdiff : Nat → List String → JVal → JVal → List PatchOp
  | 0, _, _, _ => []
  | fuel + 1, ptr, .arr a, .arr b =>
    if JVal.beq (.arr a) (.arr b) then []
    else
      let size := min a.length b.length
      (List.replicate (a.length - size) (PatchOp.remove (ptr ++ [toString size]))) ++
        jdiffArr fuel ptr 0 (a.take size) (b.take size) ++
        (b.drop size).map (fun t => PatchOp.add (ptr ++ ["-"]) t)
  | fuel + 1, ptr, .obj a, .obj b => if JVal.beq (.obj a) (.obj b) then [] else jdiffObj fuel ptr a b
  | _ + 1, ptr, s, t =>
    if s.kind ≠ t.kind then (if ptr.isEmpty then [.add [] t] else [.replace ptr t])
    else if JVal.beq s t then [] else [.replace ptr t]
/-- compareArrays, the index-wise part over the common prefix (removals at the fixed index `size`
    come before it, appends with "-" after it: see `jdiff`) -/
def jdiffArr : Nat → List String → Nat → List JVal → List JVal → List PatchOp
  | 0, _, _, _, _ => []
  | fuel + 1, ptr, i, s :: ss, t :: ts => jdiff fuel (ptr ++ [toString i]) s t ++ jdiffArr fuel ptr (i + 1) ss ts
  | _ + 1, _, _, _, _ => []
/-- compareObjects over two key-sorted association lists (merge) -/
def jdiffObj : Nat → List String → List (String × JVal) → List (String × JVal) → List PatchOp
  | 0, _, _, _ => []
  | _ + 1, _, [], [] => []
  | fuel + 1, ptr, [], (k, t) :: ts => .add (ptr ++ [k]) t :: jdiffObj fuel ptr [] ts
  | fuel + 1, ptr, (k, _) :: ss, [] => .remove (ptr ++ [k]) :: jdiffObj fuel ptr ss []
  | fuel + 1, ptr, (k, s) :: ss, (k', t) :: ts =>
    if k = k' then jdiff fuel (ptr ++ [k]) s t ++ jdiffObj fuel ptr ss ts
    else if k < k' then .remove (ptr ++ [k]) :: jdiffObj fuel ptr ss ((k', t) :: ts)
    else .add (ptr ++ [k']) t :: jdiffObj fuel ptr ((k, s) :: ss) ts
end

/-- jsondiff.CompareJSON with default options -/
def jsonDiff (src tgt : JVal) : List PatchOp := jdiff (src.nodes + tgt.nodes + 1) [] src tgt


/-! ### the plain-tree reading of a patch (specification side of C19) -/

def objPut (k : String) (v : JVal) : List (String × JVal) → List (String × JVal)
  | [] => [(k, v)]
  | (k', v') :: r => if k = k' then (k, v) :: r else if k < k' then (k, v) :: (k', v') :: r else (k', v') :: objPut k v r

def objDel (k : String) : List (String × JVal) → List (String × JVal)
  | [] => []
  | (k', v') :: r => if k = k' then r else (k', v') :: objDel k r

mutual
/-- keys sorted, recursively (what json.Marshal of a Go map followed by a parse gives jsondiff) -/
def JVal.canon : JVal → JVal
  | .arr l => .arr (JVal.canonList l)
  | .obj kvs => .obj (JVal.canonKvs kvs)
  | v => v
def JVal.canonList : List JVal → List JVal
  | [] => []
  | v :: vs => v.canon :: JVal.canonList vs
def JVal.canonKvs : List (String × JVal) → List (String × JVal)
  | [] => []
  | (k, v) :: r => objPut k v.canon (JVal.canonKvs r)
end

/-- apply one operation at a path below `t` (what patchEach does, read on plain trees):
    add/replace on an object key = put; add on an array = insert at the index ("-" = end);
    replace on an array = set; remove = delete -/
def applyAt (op : PatchOp) : List String → JVal → Option JVal
  | [], _ => none
  | [k], .obj kvs =>
    match op with
    | .add _ v | .replace _ v => some (.obj (objPut k v kvs))
    | .remove _ => if (alFind k kvs).isSome then some (.obj (objDel k kvs)) else none
  | [k], .arr l =>
    match op with
    | .add _ v =>
      if k = "-" then some (.arr (l ++ [v]))
      else match k.toNat? with
        | some i => if i ≤ l.length then some (.arr (l.take i ++ [v] ++ l.drop i)) else none
        | none => none
    | .replace _ v =>
      match k.toNat? with
      | some i => if i < l.length then some (.arr (l.take i ++ [v] ++ l.drop (i + 1))) else none
      | none => none
    | .remove _ =>
      match k.toNat? with
      | some i => if i < l.length then some (.arr (l.take i ++ l.drop (i + 1))) else none
      | none => none
  | k :: rest, .obj kvs =>
    match alFind k kvs with
    | some c => (applyAt op rest c).map (fun c' => .obj (objPut k c' kvs))
    | none => none
  | k :: rest, .arr l =>
    match k.toNat? with
    | some i =>
      match l[i]? with
      | some c => (applyAt op rest c).map (fun c' => .arr (l.take i ++ [c'] ++ l.drop (i + 1)))
      | none => none
    | none => none
  | _, _ => none

def applyPatch : List PatchOp → JVal → Option JVal
  | [], t => some t
  | op :: ops, t => (applyAt op op.path t).bind (applyPatch ops)

/-! ### the document-level patch (implementation side) -/

/-- getTargetByPaths (json_primitive.go:211): walk from the root; an object step takes the child under
    the key (also a tombstoned one), an array step the pos-th LIVE child; a missing or garbage node
    ends the walk with DatatypeNoTarget.  `panic` where findTimedType dereferences nil. -/
def Doc.resolve (d : Doc) : List String → Ts → Outcome Ts
  | [], cur => .ok cur
  | seg :: rest, cur =>
    match d.find cur with
    | none => .err Err.noTarget
    | some n =>
      match n.kind with
      | .elem _ => d.resolve rest cur          -- "invalid target" is only logged; the node stays
      | .obj m _ =>
        match alFind seg m with
        | some c => if d.garbage c then .err Err.noTarget else d.resolve rest c
        | none => .err Err.noTarget
      | .arr _ _ =>
        match seg.toInt? with
        | none => .err Err.noTarget
        | some i =>
          if i < 0 then .panic "getJSONType: negative position"
          else match (d.liveChildren cur)[i.toNat]? with
            | some c => if d.garbage c then .err Err.noTarget else d.resolve rest c
            | none => .panic "getJSONType: nil node"

/-- patchEach (document.go:121): the call that one patch operation turns into on the live tree -/
def Doc.patchCall (d : Doc) (op : PatchOp) : Outcome (Option Call) :=
  match op.path.reverse with
  | [] => .err Err.invalidPatch
  | key :: revParents =>
    match d.resolve revParents.reverse Ts.oldest with
    | .err c => .err c
    | .panic w => .panic w
    | .ok target =>
      let kind := d.kindOf target
      match op with
      | .add _ v =>
        if v.isNull then .err Err.invalidPatch
        else if kind = .obj then .ok (some (.dput target key v))
        else if kind = .arr then
          (if key = "-" then .ok (some (.dinsert target (d.arrRga target).size [v]))
           else match key.toInt? with
             | some i => .ok (some (.dinsert target i [v]))
             | none => .err Err.invalidPatch)
        else .ok none
      | .remove _ =>
        if kind = .obj then .ok (some (.dremove target key))
        else if kind = .arr then
          (match key.toInt? with
           | some i => .ok (some (.ddelete target i))
           | none => .err Err.invalidPatch)
        else .ok none
      | .replace _ v =>
        if v.isNull then .err Err.invalidPatch
        else if kind = .obj then .ok (some (.dput target key v))
        else if kind = .arr then
          (match key.toInt? with
           | some i => .ok (some (.dupdate target i [v]))
           | none => .err Err.invalidPatch)
        else .ok none

/-- Document.Patch: one operation directly, several inside one transaction (rolled back on the first error) -/
def Replica.patch (r : Replica) (ops : List PatchOp) : Replica × Outcome Unit :=
  match r.state, ops with
  | .doc _, [] => (r, .ok ())
  | .doc d, [op] =>
    match d.patchCall op with
    | .ok (some c) =>
      (match r.call c with
       | (r', .ok _) => (r', .ok ())
       | (r', .err e) => (r', .err e)
       | (r', .panic w) => (r', .panic w))
    | .ok none => (r, .ok ())
    | .err e => (r, .err e)
    | .panic w => (r, .panic w)
  | .doc _, _ =>
    let tag := toString ops.length ++ " patches"
    let txId := r.opId.next
    let r0 := { r with opId := txId }
    let rec body (r : Replica) (acc : List Op) : List PatchOp → Replica × List Op × Option (Outcome Unit)
      | [] => (r, acc, none)
      | op :: rest =>
        match r.state with
        | .doc d =>
          (match d.patchCall op with
           | .ok none => body r acc rest
           | .err e => (r, acc, some (.err e))
           | .panic w => (r, acc, some (.panic w))
           | .ok (some c) =>
             match c.prepare r.state with
             | .done (.ok _) => body r acc rest
             | .done (.err e) => (r, acc, some (.err e))
             | .done (.panic w) => (r, acc, some (.panic w))
             | .op b _ =>
               match r.execLocalBase b with
               | (r', .ok (o, _)) => body r' (acc ++ [o]) rest
               | (r', .err e) => (r', acc, some (.err e))
               | (r', .panic w) => (r', acc, some (.panic w)))
        | _ => (r, acc, some (.err Err.illegalOperation))
    match body r0 [] ops with
    | (r1, _, some (.panic w)) => (r1, .panic w)
    | (r1, _, some _) =>
      (match r1.rollback with
       | (r2, .ok ()) => (r2, .err Err.transaction)
       | (r2, .err c) => (r2, .err c)
       | (r2, .panic w) => (r2, .panic w))
    | (r1, acc, none) =>
      let txOp : Op := ⟨txId, .transaction tag (acc.length + 1)⟩
      let unit := txOp :: acc
      ({ r1 with rbOps := r1.rbOps ++ unit, buffer := r1.buffer ++ unit.map Op.wire }, .ok ())
  | _, _ => (r, .err Err.illegalOperation)

/-- Document.PatchByJSON -/
def Replica.patchByJSON (r : Replica) (target : JVal) : Replica × List PatchOp × Outcome Unit :=
  match r.state with
  | .doc d =>
    let ops := jsonDiff d.view.canon target.canon
    let (r', o) := r.patch ops
    (r', ops, o)
  | _ => (r, [], .err Err.illegalOperation)

end Orda
