/-
Model of the JSON document: orda/json_primitive.go, json_object.go, json_array.go, json_element.go,
document_marshal.go (snapshot level).  The node table is `jsonCommon.NodeMap` (keyed by creation
timestamp; lookup by identifier is justified by hashKey_injective).  Children are referenced by
creation id: every child linked from an object key or an array slot is in the table (superseded
elements are unlinked before they leave it).  The cemetery is omitted: it is write-only in this
code base (marshal does not export it, unmarshal rebuilds it, nothing reads it but `equal`).
Object values handed to the model have their keys sorted (the codec guarantees it), which is the
order in which the repaired createJSONObject visits a Go map.
-/
import Orda.Model.Datatypes
namespace Orda

inductive DKind where
  | elem (v : JVal)
  | obj (m : List (String × Ts)) (size : Int)     -- key ↦ creation id of the current occupant
  | arr (slots : List (Ts × Ts)) (size : Int)     -- (order id, creation id of the current child)
deriving Repr, Inhabited

/-- jsonPrimitive + its concrete kind -/
structure DNode where
  c : Ts
  d : Option Ts
  parent : Option Ts
  kind : DKind
deriving Repr, Inhabited

structure Doc where
  table : List DNode
deriving Repr, Inhabited

/-- newJSONObject(base, nil, OldestTimestamp) -/
def Doc.empty : Doc := ⟨[⟨Ts.oldest, none, none, .obj [] 0⟩]⟩

def Doc.find (d : Doc) (c : Ts) : Option DNode := d.table.find? (fun n => n.c = c)

def tableSet (n : DNode) : List DNode → List DNode
  | [] => [n]
  | x :: xs => if x.c = n.c then n :: xs else x :: tableSet n xs

/-- addToNodeMap / overwrite -/
def Doc.set (d : Doc) (n : DNode) : Doc := ⟨tableSet n d.table⟩
/-- removeFromNodeMap -/
def Doc.remove (d : Doc) (c : Ts) : Doc := ⟨d.table.filter (fun n => n.c ≠ c)⟩
def Doc.addAll (d : Doc) (ns : List DNode) : Doc := ns.foldl Doc.set d

/-- isTomb of a child reference -/
def Doc.isTomb (d : Doc) (c : Ts) : Bool :=
  match d.find c with
  | some n => n.d.isSome
  | none => false
/-- getTime of a child reference: D if tombstone else C -/
def Doc.timeOf (d : Doc) (c : Ts) : Ts :=
  match d.find c with
  | some n => n.d.getD n.c
  | none => c

/-- jsonPrimitive.isGarbage: the node or one of its ancestors is a tombstone -/
def Doc.isGarbage (d : Doc) : Nat → Ts → Bool
  | 0, _ => false
  | fuel + 1, c =>
    match d.find c with
    | none => false
    | some n => n.d.isSome || (match n.parent with | some p => d.isGarbage fuel p | none => false)

def Doc.garbage (d : Doc) (c : Ts) : Bool := d.isGarbage (d.table.length + 1) c

/-- funeral (json_primitive.go:249): tombstone; a jsonElement leaves the node table -/
def Doc.funeral (d : Doc) (c : Ts) (ts : Ts) : Doc :=
  match d.find c with
  | none => d
  | some n =>
    match n.kind with
    | .elem _ => d.remove c
    | _ => d.set { n with d := some ts }

/-- makeTomb on a linked child -/
def Doc.makeTomb (d : Doc) (c : Ts) (ts : Ts) : Doc :=
  match d.find c with
  | none => d
  | some n => d.set { n with d := some ts }

/-! ### createJSONType: identifiers are handed out along a depth-first traversal (delimiter counter) -/

mutual
/-- returns (new nodes, id of the created node, next timestamp); `panic` on a nil value (reflect on an invalid Value) -/
def createNode (parent : Ts) (ts : Ts) : JVal → Outcome (List DNode × Ts × Ts)
  | .null => .panic "createJSONType: nil value"
  | .obj kvs =>
    match createObjItems ts ts.nextDelim kvs with
    | .ok (ns, m, ts') => .ok (⟨ts, none, some parent, .obj m m.length⟩ :: ns, ts, ts')
    | .err c => .err c
    | .panic w => .panic w
  | .arr vs =>
    match createArrItems ts ts.nextDelim vs with
    | .ok (ns, cs, ts') => .ok (⟨ts, none, some parent, .arr (cs.map fun c => (c, c)) cs.length⟩ :: ns, ts, ts')
    | .err c => .err c
    | .panic w => .panic w
  | v => .ok ([⟨ts, none, some parent, .elem v⟩], ts, ts.nextDelim)
def createArrItems (parent : Ts) (ts : Ts) : List JVal → Outcome (List DNode × List Ts × Ts)
  | [] => .ok ([], [], ts)
  | v :: vs =>
    match createNode parent ts v with
    | .ok (ns, c, ts1) =>
      match createArrItems parent ts1 vs with
      | .ok (ns2, cs, ts2) => .ok (ns ++ ns2, c :: cs, ts2)
      | .err e => .err e
      | .panic w => .panic w
    | .err e => .err e
    | .panic w => .panic w
def createObjItems (parent : Ts) (ts : Ts) : List (String × JVal) → Outcome (List DNode × List (String × Ts) × Ts)
  | [] => .ok ([], [], ts)
  | (k, v) :: kvs =>
    match createNode parent ts v with
    | .ok (ns, c, ts1) =>
      match createObjItems parent ts1 kvs with
      | .ok (ns2, m, ts2) => .ok (ns ++ ns2, (k, c) :: m, ts2)
      | .err e => .err e
      | .panic w => .panic w
    | .err e => .err e
    | .panic w => .panic w
end

/-- several values created with one shared delimiter counter (insertCommon / updateLocal) -/
def createMany (parent : Ts) (ts : Ts) (vs : List JVal) : Outcome (List DNode × List Ts × Ts) :=
  createArrItems parent ts vs

def Doc.findObj (d : Doc) (c : Ts) : Option (DNode × List (String × Ts) × Int) :=
  match d.find c with
  | some n => match n.kind with
    | .obj m s => some (n, m, s)
    | _ => none
  | none => none

def Doc.findArr (d : Doc) (c : Ts) : Option (DNode × List (Ts × Ts) × Int) :=
  match d.find c with
  | some n => match n.kind with
    | .arr sl s => some (n, sl, s)
    | _ => none
  | none => none

/-- jsonObject.putCommon (json_object.go:47) via PutCommonInObject; returns the displaced node's id -/
def Doc.putInObject (d : Doc) (parent : Ts) (key : String) (v : JVal) (ts : Ts) : Outcome (Doc × Option Ts) :=
  match d.findObj parent with
  | none => .err Err.invalidParent
  | some (pn, m, size) =>
    match createNode parent ts v with
    | .err c => .err c
    | .panic w => .panic w
    | .ok (ns, newC, _) =>
      let d1 := d.addAll ns
      match alFind key m with
      | none =>
        .ok (d1.set { pn with kind := .obj (alSet key newC m) (size + 1) }, none)
      | some oldC =>
        if (d1.timeOf oldC).cmp newC == .lt then
          let size' := if d1.isTomb oldC then size + 1 else size
          let d2 := d1.set { pn with kind := .obj (alSet key newC m) size' }
          -- the displaced occupant is reported unless it was deleted before (then the key was empty)
          .ok (d2.funeral oldC newC, if d1.isTomb oldC then none else some oldC)
        else
          .ok (d1.funeral newC oldC, some newC)

/-- deleteCommonInObject (json_object.go:77) -/
def Doc.deleteInObject (d : Doc) (parent : Ts) (key : String) (ts : Ts) (isLocal : Bool) :
    Outcome (Doc × Option Ts) :=
  match d.findObj parent with
  | none => .err Err.invalidParent
  | some (pn, m, size) =>
    match alFind key m with
    | none => .err (if isLocal then Err.noOp else Err.noTarget)
    | some c =>
      let tomb := d.isTomb c
      if isLocal then
        if !tomb && (d.timeOf c).cmp ts == .lt then
          .ok ((d.set { pn with kind := .obj m (size - 1) }).makeTomb c ts, some c)
        else .err Err.noOp
      else
        if (d.timeOf c).cmp ts == .lt then
          let d1 := d.set { pn with kind := .obj m (if tomb then size else size - 1) }
          .ok (d1.makeTomb c ts, some c)
        else .ok (d, none)

def slotLive (d : Doc) (s : Ts × Ts) : Bool := !d.isTomb s.2

/-- jsonArray.insertCommon, local (pos) — children first enter the node table -/
def Doc.insertLocalInArray (d : Doc) (parent : Ts) (pos : Nat) (ts : Ts) (vs : List JVal) :
    Outcome (Doc × Ts) :=
  match d.findArr parent with
  | none => .err Err.invalidParent
  | some (pn, slots, size) =>
    match createMany parent ts vs with
    | .err c => .err c
    | .panic w => .panic w
    | .ok (ns, cs, _) =>
      let d1 := d.addAll ns
      let anchor := if pos = 0 then some Ts.oldest else (nthLive (slotLive d1) (pos - 1) slots).map (·.1)
      match anchor, insertAtLive (slotLive d1) (cs.map fun c => (c, c)) pos slots with
      | some a, some sl => .ok (d1.set { pn with kind := .arr sl (size + cs.length) }, a)
      | _, _ => .panic "insertLocalInArray: nil target"

/-- jsonArray.insertCommon, remote (target); the children stay in the node table even when the
    anchor is unknown (DatatypeNoTarget) -/
def Doc.insertRemoteInArray (d : Doc) (parent : Ts) (target : Ts) (ts : Ts) (vs : List JVal) :
    Outcome Doc :=
  match d.findArr parent with
  | none => .err Err.invalidParent
  | some (pn, slots, size) =>
    match createMany parent ts vs with
    | .err c => .err c
    | .panic w => .panic w
    | .ok (ns, cs, _) =>
      let d1 := d.addAll ns
      match insertAfterId (fun (s : Ts × Ts) => s.1) target (cs.map fun c => (c, c)) slots with
      | some sl => .ok (d1.set { pn with kind := .arr sl (size + cs.length) })
      | none => .ok d1

/-- jsonArray.deleteLocal: `num` consecutive live slots from the `pos`-th live one -/
def Doc.deleteLocalInArray (d : Doc) (parent : Ts) (pos num : Nat) (ts : Ts) :
    Outcome (Doc × List Ts × List Ts) :=
  match d.findArr parent with
  | none => .err Err.invalidParent
  | some (pn, slots, size) =>
    let live := (slots.filter (slotLive d)).drop pos |>.take num
    if live.length < num then .panic "deleteLocalInArray: nil target"
    else
      let stamps := delimSeq ts num
      let d1 := (live.zip stamps).foldl (fun acc (s, t) => acc.makeTomb s.2 t) d
      match d1.find parent with
      | some pn' => .ok (d1.set { pn' with kind := .arr slots (size - num) }, live.map (·.1), live.map (·.2))
      | none => .ok (d1.set { pn with kind := .arr slots (size - num) }, live.map (·.1), live.map (·.2))

/-- jsonArray.deleteRemote -/
def Doc.deleteRemoteInArray (d : Doc) (parent : Ts) (targets : List Ts) (ts : Ts) : Outcome Doc :=
  match d.findArr parent with
  | none => .err Err.invalidParent
  | some (_, slots, _) =>
    let rec go : List Ts → Ts → Doc → Int → Doc × Int
      | [], _, d, k => (d, k)
      | tg :: tgs, t, d, k =>
        match slots.find? (fun s => s.1 = tg) with
        | none => go tgs t.nextDelim d k
        | some s =>
          if !d.isTomb s.2 then go tgs t.nextDelim (d.makeTomb s.2 t) (k + 1)
          else if (d.timeOf s.2).cmp t == .lt then go tgs t.nextDelim (d.makeTomb s.2 t) k
          else go tgs t.nextDelim d k
    let (d1, k) := go targets ts d 0
    match d1.findArr parent with
    | some (pn', sl', size') => .ok (d1.set { pn' with kind := .arr sl' (size' - k) })
    | none => .ok d1

def setSlotChild (o : Ts) (c : Ts) : List (Ts × Ts) → List (Ts × Ts)
  | [] => []
  | s :: ss => if s.1 = o then (o, c) :: ss else s :: setSlotChild o c ss

/-- jsonArray.updateLocal: each value replaces the child of the next live slot; the old child gets a funeral -/
def Doc.updateLocalInArray (d : Doc) (parent : Ts) (pos : Nat) (ts : Ts) (vs : List JVal) :
    Outcome (Doc × List Ts × List Ts) :=
  match d.findArr parent with
  | none => .err Err.invalidParent
  | some (_, slots, _) =>
    let live := (slots.filter (slotLive d)).drop pos |>.take vs.length
    if live.length < vs.length then .panic "updateLocalInArray: nil target"
    else
      let rec go : List (Ts × Ts) → List JVal → Ts → Doc → Outcome Doc
        | [], _, _, d => .ok d
        | _, [], _, d => .ok d
        | s :: ss, v :: vs, t, d =>
          match createNode parent t v with
          | .err c => .err c
          | .panic w => .panic w
          | .ok (ns, newC, t') =>
            let d1 := d.addAll ns
            match d1.findArr parent with
            | none => .panic "updateLocalInArray: parent vanished"
            | some (pn, sl, size) =>
              let d2 := d1.set { pn with kind := .arr (setSlotChild s.1 newC sl) size }
              go ss vs t' (d2.funeral s.2 newC)
      match go live vs ts d with
      | .ok d' => .ok (d', live.map (·.1), live.map (·.2))
      | .err c => .err c
      | .panic w => .panic w

/-- jsonArray.updateRemote: LWW on the child's creation time; a tombstoned slot is not revived;
    the loser gets a funeral; `panic` when `values[i]` is out of range -/
def Doc.updateRemoteInArray (d : Doc) (parent : Ts) (ts : Ts) (targets : List Ts) (vs : List JVal) :
    Outcome Doc :=
  match d.findArr parent with
  | none => .err Err.invalidParent
  | some _ =>
    let rec go : List Ts → List JVal → Ts → Doc → Outcome Doc
      | [], _, _, d => .ok d
      | _ :: _, [], _, _ => .panic "updateRemoteInArray: index out of range"
      | tg :: tgs, v :: vs, t, d =>
        match createNode parent t v with
        | .err c => .err c
        | .panic w => .panic w
        | .ok (ns, newC, t') =>
          let d1 := d.addAll ns
          match d1.findArr parent with
          | none => .panic "updateRemoteInArray: parent vanished"
          | some (pn, sl, size) =>
            match sl.find? (fun s => s.1 = tg) with
            | none => go tgs vs t' d1
            | some s =>
              let oldC := s.2
              if !d1.isTomb oldC && (d1.timeOf oldC).cmp newC == .lt then
                let d2 := d1.set { pn with kind := .arr (setSlotChild tg newC sl) size }
                go tgs vs t' (d2.funeral oldC newC)
              else go tgs vs t' (d1.funeral newC oldC)
    go targets vs ts d

/-! ### views -/

/-- ToJSON of the node `c`: live children only -/
def Doc.viewOf (d : Doc) : Nat → Ts → JVal
  | 0, _ => .null
  | fuel + 1, c =>
    match d.find c with
    | none => .null
    | some n =>
      match n.kind with
      | .elem v => v
      | .obj m _ =>
        .obj (m.filterMap fun (k, ch) => if d.isTomb ch then none else some (k, d.viewOf fuel ch))
      | .arr sl _ =>
        .arr (sl.filterMap fun (_, ch) => if d.isTomb ch then none else some (d.viewOf fuel ch))

def Doc.view (d : Doc) : JVal := d.viewOf (d.table.length + 1) Ts.oldest
def Doc.viewAt (d : Doc) (c : Ts) : JVal := d.viewOf (d.table.length + 1) c

mutual
/-- null anywhere inside a value (the repaired public calls refuse such values) -/
def JVal.hasNull : JVal → Bool
  | .null => true
  | .arr l => JVal.hasNullList l
  | .obj kvs => JVal.hasNullKvs kvs
  | _ => false
def JVal.hasNullList : List JVal → Bool
  | [] => false
  | v :: vs => v.hasNull || JVal.hasNullList vs
def JVal.hasNullKvs : List (String × JVal) → Bool
  | [] => false
  | (_, v) :: r => v.hasNull || JVal.hasNullKvs r
end

end Orda
