/-
Model of the client's synchronisation side: internal/datatypes/wired.go (CreatePushPullPack,
ApplyPushPullPack and its helpers) on top of Model/Replica.
Natural numbers are used for checkpoints; the uint64 arithmetic of calculatePullingOperations is
modelled by an integer difference (no wrap below 2^63 operations) with the clamp of the repaired code.
-/
import Orda.Model.Api
namespace Orda

/-- model.StateOfDatatype -/
inductive DtState where
  | dueToCreate | dueToSubscribe | dueToSubscribeCreate | subscribed | dueToUnsubscribe | closed | deleted
deriving DecidableEq, Repr, Inhabited

/-- model.PushPullPack (option bits as booleans) -/
structure Pack where
  key : String
  duid : String
  create : Bool := false
  subscribe : Bool := false
  unsubscribe : Bool := false
  delete : Bool := false
  snapshot : Bool := false
  error : Bool := false
  readOnly : Bool := false
  cp : CheckPoint
  era : Nat := 0
  typ : DtType
  ops : List Op
deriving Repr, Inhabited

/-- handler calls made by ApplyPushPullPack (dispatched in a goroutine; observed as a multiset) -/
inductive HandlerCall where
  | stateChange (old new : DtState)
  | errors (codes : List Nat)
  | remoteOps (n : Nat)
deriving Repr, Inhabited

/-- a datatype as the client holds it: the replica plus the wired fields -/
structure WDt where
  rep : Replica
  key : String
  duid : String
  dstate : DtState
deriving Repr, Inhabited

/-- CreatePushPullPack (wired.go:69) -/
def WDt.createPack (w : WDt) : Pack :=
  let ops := w.rep.pending
  { key := w.key, duid := w.duid,
    create := w.dstate = .dueToCreate || w.dstate = .dueToSubscribeCreate,
    subscribe := w.dstate = .dueToSubscribe || w.dstate = .dueToSubscribeCreate,
    cp := ⟨w.rep.cp.sseq, w.rep.cp.cseq + ops.length⟩, era := w.rep.opId.era, typ := w.rep.typ, ops := ops }

/-- error codes of push-pull error packs that the client reports through its error handler -/
def clientErrOfPushPull (code : Nat) : Nat :=
  if code = 302 then Err.create          -- PushPullDuplicateKey → DatatypeCreate
  else if code = 304 then Err.subscribe  -- PushPullNoDatatypeToSubscribe → DatatypeSubscribe
  else code                              -- abort of server / client, missing ops: reported as they are

/-- calculatePullingOperations + excludeDuplicatedOperations (repaired: operations of this client are
    not counted as foreign ones, and a negative count is clamped): the operations of OTHER clients
    among `ops` that lie beyond the client's current checkpoint -/
def newForeignOps (own : String) (cur new : CheckPoint) (ops : List Op) : List Op :=
  let foreign := ops.filter (fun o => o.id.cuid ≠ own)
  let k : Int := ((new.sseq : Int) - cur.sseq) - ((new.cseq : Int) - cur.cseq)
  let k := if k < 0 then 0 else k.toNat
  foreign.drop (foreign.length - k)

/-- ApplyPushPullPack (wired.go:211) -/
def WDt.applyPack (w : WDt) (p : Pack) : WDt × List HandlerCall × Option String :=
  if p.error then
    match p.ops with
    | ⟨_, .error code⟩ :: _ => (w, [.errors [clientErrOfPushPull code]], none)
    | _ => (w, [.errors [300]], none)   -- error pack without ErrorOperation: reported as an abort of the server
  else if p.subscribe && !(w.dstate = .dueToSubscribe || w.dstate = .dueToSubscribeCreate) then
    -- isStaleSubscribeResponse: the (delayed or duplicated) answer to an earlier subscribe request of a
    -- datatype that is subscribed already is ignored as a whole
    (w, [], none)
  else
    -- subscribe pack: the first operation has to be the snapshot operation
    let sub : Option (Option WDt) :=
      if p.subscribe then
        match p.ops with
        | ⟨_, .snapshot _⟩ :: _ =>
          let r := w.rep
          let r' : Replica := { r with buffer := [], opId := { r.opId with seq := 0 },
                                       state := DState.fresh r.typ,
                                       rbOpId := { r.opId with seq := 0 }, rbSnap := DState.fresh r.typ, rbOps := [],
                                       cp := ⟨p.cp.sseq - p.ops.length, p.cp.cseq⟩ }
          some (some { w with rep := r' })
        | _ => some none
      else none
    match sub with
    | some none => (w, [.errors [Err.subscribe]], none)
    | _ =>
      let w1 := match sub with | some (some w') => w' | _ => w
      let ops := newForeignOps w1.rep.opId.cuid w1.rep.cp p.cp p.ops
      let ops := if p.subscribe then
                   -- a subscriber takes the log as it is (its own earlier operations included)
                   p.ops.drop (p.ops.length - (((p.cp.sseq : Int) - w1.rep.cp.sseq) - ((p.cp.cseq : Int) - w1.rep.cp.cseq)).toNat)
                 else ops
      let cp' : CheckPoint := ⟨max w1.rep.cp.sseq p.cp.sseq, max w1.rep.cp.cseq p.cp.cseq⟩
      let pending := w1.dstate = .dueToCreate || w1.dstate = .dueToSubscribe || w1.dstate = .dueToSubscribeCreate
      let r1 := { w1.rep with cp := cp' }
      let r2 : Replica :=
        if w1.dstate = .dueToSubscribeCreate && p.subscribe then
          { r1 with buffer := [], opId := ⟨r1.opId.era, 1, r1.opId.cuid, 0⟩ }
        else r1
      let (dstate', duid', hs) :=
        if pending then (DtState.subscribed, p.duid, [HandlerCall.stateChange w1.dstate .subscribed])
        else (w1.dstate, w1.duid, [])
      match r2.receive ops with
      | (r3, .ok ()) =>
        ({ w1 with rep := r3, dstate := dstate', duid := duid' },
         hs ++ (if ops.isEmpty then [] else [.remoteOps ops.length]), none)
      | (r3, .err c) => ({ w1 with rep := r3, dstate := dstate', duid := duid' }, hs ++ [.errors [c]], none)
      | (r3, .panic why) => ({ w1 with rep := r3, dstate := dstate', duid := duid' }, hs, some why)

end Orda
