/-
Storage faults during a push-pull (C08).  One request issues a short, fixed sequence of database
commands; a fault plan names the command that fails (everything after it in that request is not
executed) by its identity (command name, collection), as the in-memory MongoDB reports it:

  find -_-Collections, find -_-Clients                       (ProcessPushPull, before the handlers)
  find -_-Datatypes (by key and/or by id), find -_-Operations (evaluate / pull)
  delete -_-Operations (leftovers beyond the end of log), insert -_-Operations, update -_-Datatypes
                                                              (commitToMongoDB: the datatype document is the commit point)
  then, after the response: find -_-Snapshots, find -_-Operations, insert -_-Snapshots, update <user collection>

Only single-pack requests are modelled here (that is what the fault slices send).
-/
import Orda.Model.Server
namespace Orda

/-- The datatype document is the commit point of a push: operation documents beyond its recorded end of
    log (or without a datatype document) are leftovers of a push whose second write failed.  They are
    never handed out, and the next push to that datatype removes them first.
    Returns the committed view of the store and the leftovers. -/
def Store.committedView (st : Store) : Store × List OpDoc :=
  let isLeft (o : OpDoc) : Bool :=
    match st.getDatatype o.duid with
    | some d => decide (d.sseqEnd < o.sseq)
    | none => true
  ({ st with operations := st.operations.filter (fun o => !isLeft o) }, st.operations.filter isLeft)

/-- leftovers survive a request unless it pushed operations to their datatype -/
def Store.withLeftovers (st : Store) (left : List OpDoc) (pushedDuids : List String) : Store :=
  { st with operations := st.operations ++ left.filter (fun o => !pushedDuids.contains o.duid) }

inductive FaultAt where
  | findCollections | findClients | findDatatypes | findOperations
  | deleteLeftovers | insertOperations | updateDatatypes
  | background          -- a command of the post-response snapshot update before the snapshot is inserted
  | bgUserDoc           -- the final replace of the user-visible document
deriving DecidableEq, Repr, Inhabited

/-- outcome of a faulted single-pack request: RPC error, or an error pack with this code -/
inductive FaultReply where
  | rpcErr (code : Nat)
  | errPack (code : Nat)
  | normal (p : Pack)
deriving Repr, Inhabited

/-- the request `p` of client `cuid` with the command `f` failing.
    Returns the store afterwards, the reply, the notification (none unless the commit completed) and
    whether the snapshot update still has to be considered done. -/
def Store.processPushPullFault (st : Store) (colName cuid : String) (p : Pack) (f : FaultAt) :
    Store × FaultReply × List Notification :=
  match f with
  | .findCollections | .findClients => (st, .rpcErr 14, [])
  | _ =>
    match st.getCollection colName with
    | none => (st, .rpcErr 5, [])
    | some col =>
      match st.getClient cuid with
      | none => (st, .rpcErr 5, [])
      | some cl =>
        if cl.colNum ≠ col.num then (st, .rpcErr 16, [])
        else
          let r := processPack st cl col p
          if f = .findDatatypes then (st, .errPack 300, [])
          else if r.resp.error then (r.store, .normal r.resp, [])     -- refused before any further command
          else
            match f with
            | .findOperations => (st, .errPack 300, [])
            | .deleteLeftovers | .insertOperations =>
              -- the insert is only issued when there is something to insert
              if r.pushed = 0 then
                (r.store, .normal r.resp, r.notif.toList)
              else (st, .errPack 300, [])
            | .updateDatatypes =>
              -- the operations are in, the datatype document (end of log, checkpoints) is not
              ({ st with operations := r.store.operations }, .errPack 300, [])
            | _ => (r.store, .normal r.resp, r.notif.toList)

end Orda
