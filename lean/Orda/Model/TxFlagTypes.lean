/- Types of the regenerated facts about the success flag of TransactionDatatype (kept apart from GenTypes so that
   regenerating them rebuilds only the modules about the flag). -/
namespace Orda

/-- where client/pkg/internal/datatypes/transaction.go touches `its.success` (each read off the AST) -/
structure TxFacts where
  resetUnderLock : Bool    -- unlock(): `its.success = true` BEFORE `its.mutex.Unlock()` (in the same block)
  resetBeforeLock : Bool   -- setTransactionContextAndLock(): some assignment to `its.success` before `its.mutex.Lock()`
  failWritesFalse : Bool   -- SetTransactionFail is exactly `its.success = false`
  endReadsFlag : Bool      -- EndTransaction branches on `its.success` (commit) / else Rollback
deriving DecidableEq, Repr

end Orda
