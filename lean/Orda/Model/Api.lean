/-
Public API layer of orda/{counter,map,list}.go: argument validation before an operation is built,
reads, and the single/many variants.  `Call.prepare` is what happens before SentenceInTx.
-/
import Orda.Model.Replica
namespace Orda

inductive Call where
  | inc (d : Int)
  | mput (k : String) (v : JVal)
  | mremove (k : String)
  | mget (k : String)
  | msize
  | linsert (pos : Int) (vs : List JVal)
  | ldelete (pos : Int)
  | ldeleteMany (pos n : Int)
  | lupdate (pos : Int) (vs : List JVal)
  | lget (pos : Int)
  | lgetMany (pos n : Int)
  | lsize
deriving Repr, Inhabited

/-- what a call does before any operation exists: a finished result (read or refusal) or an op body -/
inductive Prep where
  | done (o : Outcome Ret)
  | op (b : OpBody) (post : Ret → Ret)

def firstVal : Ret → Ret
  | .vals (v :: _) => .val (some v)
  | .vals [] => .val none
  | r => r

def liveSlice (l : Rga) (pos n : Nat) : List JVal := (l.live.drop pos).take n

def Call.prepare (s : DState) : Call → Prep
  | .inc d => .op (.increase d) id
  | .mput k v =>
    if k = "" || v.isNull then .done (.err Err.illegalParameters) else .op (.put k v) id
  | .mremove k => if k = "" then .done (.err Err.illegalParameters) else .op (.remove k) id
  | .mget k =>
    match s with
    | .map m => .done (.ok (.val (m.get k)))
    | _ => .done (.err Err.illegalOperation)
  | .msize =>
    match s with
    | .map m => .done (.ok (.int m.size))
    | _ => .done (.err Err.illegalOperation)
  | .linsert pos vs =>
    match s with
    | .list l =>
      match l.validateInsert pos with
      | some c => .done (.err c)
      | none =>
        if vs.any JVal.isNull then .done (.err Err.illegalParameters)
        else .op (.insert pos.toNat none vs) id
    | _ => .done (.err Err.illegalOperation)
  | .ldelete pos =>
    match s with
    | .list l =>
      match l.validateRange pos 1 with
      | some c => .done (.err c)
      | none => .op (.delete pos.toNat 1 []) firstVal
    | _ => .done (.err Err.illegalOperation)
  | .ldeleteMany pos n =>
    match s with
    | .list l =>
      match l.validateRange pos n with
      | some c => .done (.err c)
      | none => .op (.delete pos.toNat n.toNat []) id
    | _ => .done (.err Err.illegalOperation)
  | .lupdate pos vs =>
    match s with
    | .list l =>
      match l.validateRange pos vs.length with
      | some c => .done (.err c)
      | none =>
        if vs.any JVal.isNull then .done (.err Err.illegalParameters)
        else .op (.update pos.toNat [] vs) id
    | _ => .done (.err Err.illegalOperation)
  | .lget pos =>
    match s with
    | .list l =>
      match l.validateGet pos with
      | some c => .done (.err c)
      | none => .done (.ok (.val (liveSlice l pos.toNat 1).head?))
    | _ => .done (.err Err.illegalOperation)
  | .lgetMany pos n =>
    match s with
    | .list l =>
      match l.validateRange pos n with
      | some c => .done (.err c)
      | none => .done (.ok (.vals (liveSlice l pos.toNat n.toNat)))
    | _ => .done (.err Err.illegalOperation)
  | .lsize =>
    match s with
    | .list l => .done (.ok (.int l.size))
    | _ => .done (.err Err.illegalOperation)

def mapOut {α β} (f : α → β) : Outcome α → Outcome β
  | .ok a => .ok (f a)
  | .err c => .err c
  | .panic w => .panic w

/-- a public call outside a user transaction -/
def Replica.call (r : Replica) (c : Call) : Replica × Outcome Ret :=
  match c.prepare r.state with
  | .done o => (r, o)
  | .op b post => let (r', o) := r.callLocal b; (r', mapOut post o)

/-- Transaction(tag, body): the body issues `calls` in order (each through the same validation) -/
def Replica.txCalls (r : Replica) (tag : String) (calls : List Call) (stopOnErr failAtEnd : Bool) :
    Replica × List (Outcome Ret) × Outcome Unit :=
  let txId := r.opId.next
  let r0 := { r with opId := txId }
  let rec body (r : Replica) (acc : List Op) (outs : List (Outcome Ret)) :
      List Call → Replica × List Op × List (Outcome Ret) × Bool × Option String
    | [] => (r, acc, outs, false, none)
    | c :: cs =>
      match c.prepare r.state with
      | .done (.ok v) => body r acc (outs ++ [.ok v]) cs
      | .done (.err e) =>
        if stopOnErr then (r, acc, outs ++ [.err e], true, none) else body r acc (outs ++ [.err e]) cs
      | .done (.panic w) => (r, acc, outs ++ [.panic w], true, some w)
      | .op b post =>
        match r.execLocalBase b with
        | (r', .ok (op, ret)) => body r' (acc ++ [op]) (outs ++ [.ok (post ret)]) cs
        | (r', .err e) =>
          if stopOnErr then (r', acc, outs ++ [.err e], true, none)
          else body r' acc (outs ++ [.err e]) cs
        | (r', .panic w) => (r', acc, outs ++ [.panic w], true, some w)
  let (r1, ops, outs, stopped, pan) := body r0 [] [] calls
  match pan with
  | some w => (r1, outs, .panic w)
  | none =>
    if stopped || failAtEnd then
      match r1.rollback with
      | (r2, .ok ()) => (r2, outs, .err Err.transaction)
      | (r2, .err c) => (r2, outs, .err c)
      | (r2, .panic w) => (r2, outs, .panic w)
    else
      let txOp : Op := ⟨txId, .transaction tag (ops.length + 1)⟩
      let unit := txOp :: ops
      ({ r1 with rbOps := r1.rbOps ++ unit, buffer := r1.buffer ++ unit.map Op.wire }, outs, .ok ())

end Orda
