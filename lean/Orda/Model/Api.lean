/-
Public API layer of orda/{counter,map,list}.go: argument validation before an operation is built,
reads, and the single/many variants.  `Call.prepare` is what happens before SentenceInTx.
-/
import Orda.Model.Replica
namespace Orda

inductive Call where
  | inc (d : Int)
  | mput (k : String) (v : JVal)
  | mremove (k : String)
  | mget (k : String)
  | msize
  | linsert (pos : Int) (vs : List JVal)
  | ldelete (pos : Int)
  | ldeleteMany (pos n : Int)
  | lupdate (pos : Int) (vs : List JVal)
  | lget (pos : Int)
  | lgetMany (pos n : Int)
  | lsize
  -- documents: `h` is the node a Document handle points at
  | dput (h : Ts) (k : String) (v : JVal)
  | dremove (h : Ts) (k : String)
  | dinsert (h : Ts) (pos : Int) (vs : List JVal)
  | ddelete (h : Ts) (pos : Int)
  | ddeleteMany (h : Ts) (pos n : Int)
  | dupdate (h : Ts) (pos : Int) (vs : List JVal)
  | dgetObj (h : Ts) (k : String)
  | dgetArr (h : Ts) (pos n : Int)
  | dvalue (h : Ts)
deriving Repr, Inhabited

/-- what a call does before any operation exists: a finished result (read or refusal) or an op body -/
inductive Prep where
  | done (o : Outcome Ret)
  | op (b : OpBody) (post : Ret → Ret)

def firstVal : Ret → Ret
  | .vals (v :: _) => .val (some v)
  | .vals [] => .val none
  | r => r

def liveSlice (l : Rga) (pos n : Nat) : List JVal := (l.live.drop pos).take n

inductive NKind where
  | elem | obj | arr
deriving DecidableEq, Repr

def Doc.kindOf (d : Doc) (h : Ts) : NKind :=
  match d.find h with
  | some ⟨_, _, _, .obj _ _⟩ => .obj
  | some ⟨_, _, _, .arr _ _⟩ => .arr
  | _ => .elem

/-- document.assertLocalOp (document.go:435) -/
def Doc.assertLocal (d : Doc) (h : Ts) (k : NKind) (workOnGarbage : Bool) : Option Nat :=
  if d.kindOf h ≠ k then some Err.invalidParent
  else if !workOnGarbage && d.garbage h then some Err.noOp else none

def Doc.arrRga (d : Doc) (h : Ts) : Rga :=
  match d.findArr h with
  | some (_, _, size) => ⟨[], size⟩
  | none => ⟨[], 0⟩

def Doc.liveChildren (d : Doc) (h : Ts) : List Ts :=
  match d.findArr h with
  | some (_, sl, _) => (sl.filter (slotLive d)).map (·.2)
  | none => []

/-- the values a call returns for displaced / deleted nodes, read in the state before the call -/
def docRet (pre : Doc) (single : Bool) : Ret → Ret
  | .nodes ids =>
    if single then .val (ids.head?.map pre.viewAt) else .vals (ids.map pre.viewAt)
  | r => r

def Call.prepareDoc (d : Doc) : Call → Prep
  | .dput h k v =>
    match d.assertLocal h .obj false with
    | some c => .done (.err c)
    | none => if v.hasNull then .done (.err Err.illegalParameters) else .op (.docPut h k v) (docRet d true)
  | .dremove h k =>
    match d.assertLocal h .obj false with
    | some c => .done (.err c)
    | none => .op (.docRemove h k) (docRet d true)
  | .dinsert h pos vs =>
    match d.assertLocal h .arr false with
    | some c => .done (.err c)
    | none =>
      match (d.arrRga h).validateInsert pos with
      | some c => .done (.err c)
      | none =>
        if vs.any JVal.hasNull then .done (.err Err.illegalParameters)
        else .op (.docInsert h pos.toNat none vs) id
  | .ddelete h pos =>
    match d.assertLocal h .arr false with
    | some c => .done (.err c)
    | none =>
      match (d.arrRga h).validateRange pos 1 with
      | some c => .done (.err c)
      | none => .op (.docDelete h pos.toNat 1 []) (docRet d true)
  | .ddeleteMany h pos n =>
    match d.assertLocal h .arr false with
    | some c => .done (.err c)
    | none =>
      match (d.arrRga h).validateRange pos n with
      | some c => .done (.err c)
      | none => .op (.docDelete h pos.toNat n.toNat []) (docRet d false)
  | .dupdate h pos vs =>
    match d.assertLocal h .arr false with
    | some c => .done (.err c)
    | none =>
      match (d.arrRga h).validateRange pos vs.length with
      | some c => .done (.err c)
      | none =>
        if vs.any JVal.hasNull then .done (.err Err.illegalParameters)
        else .op (.docUpdate h pos.toNat [] vs) (docRet d false)
  | .dgetObj h k =>
    match d.assertLocal h .obj true with
    | some c => .done (.err c)
    | none =>
      match d.findObj h with
      | some (_, m, _) =>
        match alFind k m with
        | some c => if d.garbage c then .done (.ok (.val none)) else .done (.ok (.val (some (d.viewAt c))))
        | none => .done (.ok (.val none))
      | none => .done (.ok (.val none))
  | .dgetArr h pos n =>
    match d.assertLocal h .arr true with
    | some c => .done (.err c)
    | none =>
      match (d.arrRga h).validateRange pos n with
      | some c => .done (.err c)
      | none => .done (.ok (.vals ((((d.liveChildren h).drop pos.toNat).take n.toNat).map d.viewAt)))
  | .dvalue h => .done (.ok (.val (some (d.viewAt h))))
  | _ => .done (.err Err.illegalOperation)

def Call.prepare (s : DState) : Call → Prep
  | .inc d => .op (.increase d) id
  | .mput k v =>
    if k = "" || v.isNull then .done (.err Err.illegalParameters) else .op (.put k v) id
  | .mremove k => if k = "" then .done (.err Err.illegalParameters) else .op (.remove k) id
  | .mget k =>
    match s with
    | .map m => .done (.ok (.val (m.get k)))
    | _ => .done (.err Err.illegalOperation)
  | .msize =>
    match s with
    | .map m => .done (.ok (.int m.size))
    | _ => .done (.err Err.illegalOperation)
  | .linsert pos vs =>
    match s with
    | .list l =>
      match l.validateInsert pos with
      | some c => .done (.err c)
      | none =>
        if vs.any JVal.isNull then .done (.err Err.illegalParameters)
        else .op (.insert pos.toNat none vs) id
    | _ => .done (.err Err.illegalOperation)
  | .ldelete pos =>
    match s with
    | .list l =>
      match l.validateRange pos 1 with
      | some c => .done (.err c)
      | none => .op (.delete pos.toNat 1 []) firstVal
    | _ => .done (.err Err.illegalOperation)
  | .ldeleteMany pos n =>
    match s with
    | .list l =>
      match l.validateRange pos n with
      | some c => .done (.err c)
      | none => .op (.delete pos.toNat n.toNat []) id
    | _ => .done (.err Err.illegalOperation)
  | .lupdate pos vs =>
    match s with
    | .list l =>
      match l.validateRange pos vs.length with
      | some c => .done (.err c)
      | none =>
        if vs.any JVal.isNull then .done (.err Err.illegalParameters)
        else .op (.update pos.toNat [] vs) id
    | _ => .done (.err Err.illegalOperation)
  | .lget pos =>
    match s with
    | .list l =>
      match l.validateGet pos with
      | some c => .done (.err c)
      | none => .done (.ok (.val (liveSlice l pos.toNat 1).head?))
    | _ => .done (.err Err.illegalOperation)
  | .lgetMany pos n =>
    match s with
    | .list l =>
      match l.validateRange pos n with
      | some c => .done (.err c)
      | none => .done (.ok (.vals (liveSlice l pos.toNat n.toNat)))
    | _ => .done (.err Err.illegalOperation)
  | .lsize =>
    match s with
    | .list l => .done (.ok (.int l.size))
    | _ => .done (.err Err.illegalOperation)
  | c =>
    match s with
    | .doc d => c.prepareDoc d
    | _ => .done (.err Err.illegalOperation)

def mapOut {α β} (f : α → β) : Outcome α → Outcome β
  | .ok a => .ok (f a)
  | .err c => .err c
  | .panic w => .panic w

/-- a public call outside a user transaction -/
def Replica.call (r : Replica) (c : Call) : Replica × Outcome Ret :=
  match c.prepare r.state with
  | .done o => (r, o)
  | .op b post => let (r', o) := r.callLocal b; (r', mapOut post o)

/-- Transaction(tag, body): the body issues `calls` in order (each through the same validation) -/
def Replica.txCalls (r : Replica) (tag : String) (calls : List Call) (stopOnErr failAtEnd : Bool) :
    Replica × List (Outcome Ret) × Outcome Unit :=
  let txId := r.opId.next
  let r0 := { r with opId := txId }
  let rec body (r : Replica) (acc : List Op) (outs : List (Outcome Ret)) :
      List Call → Replica × List Op × List (Outcome Ret) × Bool × Option String
    | [] => (r, acc, outs, false, none)
    | c :: cs =>
      match c.prepare r.state with
      | .done (.ok v) => body r acc (outs ++ [.ok v]) cs
      | .done (.err e) =>
        if stopOnErr then (r, acc, outs ++ [.err e], true, none) else body r acc (outs ++ [.err e]) cs
      | .done (.panic w) => (r, acc, outs ++ [.panic w], true, some w)
      | .op b post =>
        match r.execLocalBase b with
        | (r', .ok (op, ret)) => body r' (acc ++ [op]) (outs ++ [.ok (post ret)]) cs
        | (r', .err e) =>
          if stopOnErr then (r', acc, outs ++ [.err e], true, none)
          else body r' acc (outs ++ [.err e]) cs
        | (r', .panic w) => (r', acc, outs ++ [.panic w], true, some w)
  let (r1, ops, outs, stopped, pan) := body r0 [] [] calls
  match pan with
  | some w => (r1, outs, .panic w)
  | none =>
    if stopped || failAtEnd then
      match r1.rollback with
      | (r2, .ok ()) => (r2, outs, .err Err.transaction)
      | (r2, .err c) => (r2, outs, .err c)
      | (r2, .panic w) => (r2, outs, .panic w)
    else
      let txOp : Op := ⟨txId, .transaction tag (ops.length + 1)⟩
      let unit := txOp :: ops
      ({ r1 with rbOps := r1.rbOps ++ unit, buffer := r1.buffer ++ unit.map Op.wire }, outs, .ok ())

end Orda
