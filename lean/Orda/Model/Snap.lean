/-
Stored snapshots and the user-visible document (C11): server/snapshot/manager.go over the abstract store.
`Store.latest` / `Store.updateSnapshot` are in Model/Server.lean; here: the reference they are measured
against (replay of the log from the empty datatype) and the updater as it runs in the background —
possibly AFTER later pushes, and bounded by the end of log it was started for.
-/
import Orda.Model.Server
namespace Orda

/-- the log of a datatype, in server order -/
def Store.logOf (st : Store) (duid : String) : List Op := (st.getOperations duid 1).map (·.op)

/-- the state obtained by replaying operations from the empty datatype (none: the list is malformed) -/
def replayState (typ : DtType) (ops : List Op) : Option DState :=
  match (Replica.new typ "server" false).receive ops with
  | (r, .ok ()) => some r.state
  | _ => none

/-- every stored snapshot at version v IS the replay of log operations 1..v -/
def Store.SnapInv (st : Store) : Prop :=
  ∀ s ∈ st.snapshots, ∀ d ∈ st.datatypes, d.duid = s.duid →
    s.sseq ≤ d.sseqEnd ∧ replayState d.typ ((st.logOf s.duid).take s.sseq) = some s.snap

/-- the user-visible document is the state of a stored snapshot, with that snapshot's version recorded -/
def Store.UserInv (st : Store) : Prop :=
  ∀ u ∈ st.userDocs, ∃ s ∈ st.snapshots, s.key = u.key ∧ s.sseq = u.ver ∧ u.value = s.snap

/-- the background updater started for end-of-log `e` (it may run after later pushes): latest stored
    snapshot + the operations after it up to `e`; nothing is written when a snapshot of the version it
    reaches exists already (duplicate `_id`) -/
def Store.updateSnapshotUpTo (st : Store) (duid colName : String) (e : Nat) : Store :=
  match st.getDatatype duid with
  | none => st
  | some doc =>
    let snaps := st.snapshots.filter (fun s => s.colNum = doc.colNum ∧ s.duid = doc.duid)
    let best := snaps.foldl (fun (acc : Option SnapDoc) s =>
      match acc with | none => some s | some b => if b.sseq < s.sseq then some s else some b) none
    let r0 := Replica.new doc.typ "server" false
    let base : Replica × Nat :=
      match best with
      | some s => ({ r0 with opId := { s.opId with seq := 0 }, state := s.snap, rbOpId := s.opId, rbSnap := s.snap }, s.sseq)
      | none => ({ r0 with opId := ⟨0, 1, "server", 0⟩ }, 0)
    let ops := (st.getOperations duid (base.2 + 1)).filter (fun o => o.sseq ≤ e)
    match base.1.receive (ops.map (·.op)) with
    | (r, .ok ()) =>
      let ver := (ops.getLast?.map (·.sseq)).getD base.2
      if st.snapshots.any (fun s => s.duid = duid ∧ s.sseq = ver) then st
      else
        { st with snapshots := st.snapshots ++ [⟨doc.colNum, duid, ver, r.opId, doc.key, r.state⟩],
                  userDocs := (st.userDocs.filter (fun u => !(u.col = colName ∧ u.key = doc.key))) ++
                              [⟨colName, doc.key, ver, r.state⟩] }
    | _ => st

end Orda
