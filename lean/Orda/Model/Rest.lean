/-
Model of the REST patch endpoint: server/service/service_patch_document.go on top of
SnapshotManager.GetLatestDatatype (Store.latest), Document.PatchByJSON (Model/Patch) and the
push-pull handler run for the administrative VOLATILE client.
The temporary replica's client id and (when the document is created) datatype id are random in the
implementation; the trace tells them to the model.
-/
import Orda.Model.Server
import Orda.Model.Patch
namespace Orda

def patchApiCuid : String := "!@#$OrdaPatchAPI"

/-- PatchDocument: rebuild the latest state (or start a new document), patch it to `target`, push the
    emitted unit as the volatile admin client; returns the document's JSON -/
def Store.patchDocument (st : Store) (colName key : String) (target : JVal) (tmpDuid tmpCuid : String) :
    Store × Rpc JVal × List Notification × List (String × Nat) :=
  match st.getCollection colName with
  | none => (st, .rpcErr 5, [], [])
  | some col =>
    let admin : ClientDoc := ⟨patchApiCuid, "ordaPatchAPI", col.num, 2, 0⟩
    let existing := st.getDatatypeByKey col.num key
    match existing with
    | some d =>
      if d.typ ≠ .document then (st, .rpcErr 3, [], [])
      else
        match st.latest d with
        | none => (st, .rpcErr 13, [], [])
        | some (r0, ver) =>
          let r1 : Replica := { r0 with opId := { r0.opId with cuid := tmpCuid }, cp := ⟨ver, 0⟩ }
          let w : WDt := ⟨r1, key, d.duid, if ver > 0 then .subscribed else .dueToCreate⟩
          match w.rep.patchByJSON target with
          | (_, _, .err _) => (st, .rpcErr 3, [], [])
          | (_, _, .panic _) => (st, .rpcErr 13, [], [])
          | (r2, ops, .ok ()) =>
            let view := match r2.state with | .doc dd => dd.view | _ => .null
            if ops.isEmpty then (st, .ok view, [], [])
            else
              let res := processPack st admin col ({ w with rep := r2 }).createPack
              (res.store, .ok view, res.notif.toList, if res.pushed > 0 then [(res.resp.duid, col.num)] else [])
    | none =>
      let r1 := Replica.new .document tmpCuid true
      let w : WDt := ⟨r1, key, tmpDuid, .dueToCreate⟩
      match w.rep.patchByJSON target with
      | (_, _, .err _) => (st, .rpcErr 3, [], [])
      | (_, _, .panic _) => (st, .rpcErr 13, [], [])
      | (r2, ops, .ok ()) =>
        let view := match r2.state with | .doc dd => dd.view | _ => .null
        if ops.isEmpty then (st, .ok view, [], [])
        else
          let res := processPack st admin col ({ w with rep := r2 }).createPack
          (res.store, .ok view, res.notif.toList, if res.pushed > 0 then [(res.resp.duid, col.num)] else [])

end Orda
