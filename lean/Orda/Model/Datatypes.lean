/-
Model of client/pkg/orda/counter.go, map.go + timed.go, list.go + ordered.go (snapshot level).
Pointers become returned values; the linked list becomes `List RNode` (head implicit);
the Go identity index `Map[hash]` is modelled as lookup by identifier, justified by
`Props/C15: hashKey_injective` over the generated format (see Gen/Generated.lean).
-/
import Orda.Model.Basic
import Orda.Model.Json
namespace Orda

/-- result of a model step: Go `return v, nil` / `return nil, err` / a Go panic -/
inductive Outcome (α : Type) where
  | ok (a : α)
  | err (code : Nat)
  | panic (why : String)
deriving Repr, Inhabited

namespace Err
def transaction : Nat := 202
def snapshot : Nat := 203
def illegalParameters : Nat := 204
def illegalOperation : Nat := 205
def invalidParent : Nat := 206
def noOp : Nat := 207
def marshal : Nat := 208
def noTarget : Nat := 209
def invalidPatch : Nat := 210
def create : Nat := 200
def subscribe : Nat := 201
end Err

/-! ## Counter (counter.go) -/

/-- two's-complement wrap of int32 addition (`its.Value += delta`) -/
def wrap32 (x : Int) : Int := (x + 2147483648) % 4294967296 - 2147483648

/-- counterSnapshot.increaseCommon -/
def counterIncrease (v delta : Int) : Int := wrap32 (v + delta)

/-! ## LWW map (map.go, timed.go) -/

/-- timedNode: `v = none` ⇔ tombstone (`V == nil`) -/
structure MEntry where
  v : Option JVal
  t : Ts
deriving Repr, Inhabited

/-- mapSnapshot: `Map` as an association list with at most one binding per key, and `Size` as stored -/
structure LwwMap where
  entries : List (String × MEntry)
  size : Int
deriving Repr, Inhabited

def LwwMap.empty : LwwMap := ⟨[], 0⟩

def alFind {α : Type} (k : String) : List (String × α) → Option α
  | [] => none
  | (k', e) :: r => if k' = k then some e else alFind k r

def alSet {α : Type} (k : String) (e : α) : List (String × α) → List (String × α)
  | [] => [(k, e)]
  | (k', e') :: r => if k' = k then (k, e) :: r else (k', e') :: alSet k e r

def LwwMap.find (m : LwwMap) (k : String) : Option MEntry := alFind k m.entries

/-- mapSnapshot.putCommonWithTimedType (map.go:169) followed by putCommon's result:
    returns the value of the displaced entry (the new one when it loses). -/
def LwwMap.putCommon (m : LwwMap) (k : String) (v : JVal) (ts : Ts) : LwwMap × Option JVal :=
  match m.find k with
  | none => ({ entries := alSet k ⟨some v, ts⟩ m.entries, size := m.size + 1 }, none)
  | some old =>
    if old.t.cmp ts == .lt then
      ({ entries := alSet k ⟨some v, ts⟩ m.entries,
         size := if old.v.isNone then m.size + 1 else m.size }, old.v)
    else (m, some v)

/-- mapSnapshot.removeLocalWithTimedType -/
def LwwMap.removeLocal (m : LwwMap) (k : String) (ts : Ts) : LwwMap × Outcome (Option JVal) :=
  match m.find k with
  | some old =>
    if old.v.isSome && old.t.cmp ts == .lt then
      ({ entries := alSet k ⟨none, ts⟩ m.entries, size := m.size - 1 }, .ok old.v)
    else (m, .err Err.noOp)
  | none => (m, .err Err.noOp)

/-- mapSnapshot.removeRemoteWithTimedType -/
def LwwMap.removeRemote (m : LwwMap) (k : String) (ts : Ts) : LwwMap × Outcome (Option JVal) :=
  match m.find k with
  | some old =>
    if old.t.cmp ts == .lt then
      ({ entries := alSet k ⟨none, ts⟩ m.entries,
         size := if old.v.isSome then m.size - 1 else m.size }, .ok old.v)
    else (m, .ok none)
  | none => (m, .err Err.noTarget)

/-- mapSnapshot.get -/
def LwwMap.get (m : LwwMap) (k : String) : Option JVal :=
  match m.find k with
  | some e => e.v
  | none => none

/-- mapSnapshot.ToJSON: live bindings (order irrelevant; the driver sorts) -/
def LwwMap.live (m : LwwMap) : List (String × JVal) :=
  m.entries.filterMap (fun (k, e) => e.v.map (fun v => (k, v)))

/-! ## RGA list (list.go, ordered.go) -/

/-- orderedNode + timedNode: `o` order/identity timestamp, `v = none` ⇔ tombstone, `t` value timestamp -/
structure RNode where
  o : Ts
  v : Option JVal
  t : Ts
deriving Repr, Inhabited

/-- listSnapshot: nodes after the head, and `size` as stored -/
structure Rga where
  nodes : List RNode
  size : Int
deriving Repr, Inhabited

def Rga.empty : Rga := ⟨[], 0⟩

section generic
variable {β : Type} (oOf : β → Ts)

/-- the loop of insertRemoteWithTimedTypes (list.go:227-231) for one new node `n`:
    skip while the next node's order timestamp is newer, insert, continue with `rest` from there -/
def skipIns1 (n : β) (rest : List β → List β) : List β → List β
  | [] => n :: rest []
  | x :: xs => if (oOf x).cmp (oOf n) == .gt then x :: skipIns1 n rest xs else n :: rest (x :: xs)

/-- the whole batch: each further node is inserted after the previous new node -/
def skipInsMany : List β → List β → List β
  | [] => fun l => l
  | n :: ns => skipIns1 oOf n (skipInsMany ns)

/-- find the anchor by identity and insert the batch after it; `none` ⇔ DatatypeNoTarget.
    `Ts.oldest` is the head. -/
def insertAfterId (anchor : Ts) (ns : List β) (l : List β) : Option (List β) :=
  if anchor = Ts.oldest then some (skipInsMany oOf ns l)
  else
    let rec go : List β → Option (List β)
      | [] => none
      | x :: xs => if oOf x = anchor then some (x :: skipInsMany oOf ns xs)
                   else (go xs).map (x :: ·)
    go l

/-- insertLocalWithTimedTypes: plain insertion after the `pos`-th live node (0 = head), no skipping -/
def insertAtLive (isLive : β → Bool) (ns : List β) : Nat → List β → Option (List β)
  | 0, l => some (ns ++ l)
  | _ + 1, [] => none
  | p + 1, x :: xs =>
    if isLive x then
      (if p = 0 then some (x :: (ns ++ xs)) else (insertAtLive isLive ns p xs).map (x :: ·))
    else (insertAtLive isLive ns (p + 1) xs).map (x :: ·)

/-- identity of the `pos`-th live node (1-based); `retrieve` of list.go:382 for pos ≥ 1 -/
def nthLive (isLive : β → Bool) : Nat → List β → Option β
  | _, [] => none
  | p, x :: xs =>
    if isLive x then (if p = 0 then some x else nthLive isLive (p - 1) xs)
    else nthLive isLive p xs

end generic

def RNode.isLive (n : RNode) : Bool := n.v.isSome

/-- timestamps handed out by repeated `ts.GetAndNextDelimiter()` -/
def delimSeq (ts : Ts) : Nat → List Ts
  | 0 => []
  | n + 1 => ts :: delimSeq ts.nextDelim n

def mkNodes (ts : Ts) (vs : List JVal) : List RNode :=
  (vs.zip (delimSeq ts vs.length)).map (fun (v, t) => ⟨t, some v, t⟩)

/-- listSnapshot.retrieve(pos) as the anchor identity for insertLocal: 0 = head -/
def Rga.anchorAt (s : Rga) (pos : Nat) : Option Ts :=
  if pos = 0 then some Ts.oldest else (nthLive RNode.isLive (pos - 1) s.nodes).map (·.o)

/-- listSnapshot.insertLocal: returns the new state and the anchor's identity (op body `T`).
    `panic` where Go would dereference the nil result of `retrieve`. -/
def Rga.insertLocal (s : Rga) (pos : Nat) (ts : Ts) (vs : List JVal) : Outcome (Rga × Ts) :=
  match s.anchorAt pos, insertAtLive RNode.isLive (mkNodes ts vs) pos s.nodes with
  | some a, some l => .ok ({ nodes := l, size := s.size + vs.length }, a)
  | _, _ => .panic "insertLocal: nil target"

/-- listSnapshot.insertRemote -/
def Rga.insertRemote (s : Rga) (anchor : Ts) (ts : Ts) (vs : List JVal) : Outcome Rga :=
  match insertAfterId RNode.o anchor (mkNodes ts vs) s.nodes with
  | some l => .ok { nodes := l, size := s.size + vs.length }
  | none => .err Err.noTarget

/-- walk used by updateLocal / deleteLocal / findManyValues: apply `f` to `n` consecutive live nodes
    starting at the `pos`-th live node (0-based); returns the touched nodes (before `f`). -/
def mapLiveFrom (f : RNode → Ts → RNode) : Nat → List Ts → List RNode → Option (List RNode × List RNode)
  | _, [], l => some (l, [])
  | _, _ :: _, [] => none
  | p, t :: ts, x :: xs =>
    if x.isLive then
      if p = 0 then
        (mapLiveFrom f 0 ts xs).map (fun (l, touched) => (f x t :: l, x :: touched))
      else (mapLiveFrom f (p - 1) (t :: ts) xs).map (fun (l, touched) => (x :: l, touched))
    else (mapLiveFrom f p (t :: ts) xs).map (fun (l, touched) => (x :: l, touched))

/-- listSnapshot.updateLocal: returns targets (order ids) and previous values -/
def Rga.updateLocal (s : Rga) (pos : Nat) (ts : Ts) (vs : List JVal) :
    Outcome (Rga × List Ts × List JVal) :=
  let stamps := (delimSeq ts vs.length).zip vs
  -- thread the value with its stamp: encode the value choice by position
  let rec go : Nat → List (Ts × JVal) → List RNode → Option (List RNode × List RNode)
    | _, [], l => some (l, [])
    | _, _ :: _, [] => none
    | p, (t, v) :: r, x :: xs =>
      if x.isLive then
        if p = 0 then (go 0 r xs).map (fun (l, tc) => ({ x with v := some v, t := t } :: l, x :: tc))
        else (go (p - 1) ((t, v) :: r) xs).map (fun (l, tc) => (x :: l, tc))
      else (go p ((t, v) :: r) xs).map (fun (l, tc) => (x :: l, tc))
  match go pos stamps s.nodes with
  | some (l, touched) => .ok ({ s with nodes := l }, touched.map (·.o), touched.filterMap (·.v))
  | none => .panic "updateLocal: nil target"

/-- listSnapshot.deleteLocal -/
def Rga.deleteLocal (s : Rga) (pos num : Nat) (ts : Ts) : Outcome (Rga × List Ts × List JVal) :=
  match mapLiveFrom (fun x t => { x with v := none, t := t }) pos (delimSeq ts num) s.nodes with
  | some (l, touched) =>
    .ok ({ nodes := l, size := s.size - num }, touched.map (·.o), touched.filterMap (·.v))
  | none => .panic "deleteLocal: nil target"

def updNode (target : Ts) (f : RNode → RNode) : List RNode → List RNode
  | [] => []
  | x :: xs => if x.o = target then f x :: xs else x :: updNode target f xs

def hasNode (target : Ts) (l : List RNode) : Bool := l.any (fun x => x.o = target)

/-- listSnapshot.updateRemote: per target, a fresh delimiter; tombstones are not revived;
    LWW on the value timestamp.  Unknown targets are skipped (the collected error is dropped by
    list.ExecuteRemote).  `panic` when `values[i]` is out of range. -/
def Rga.updateRemote (s : Rga) (targets : List Ts) (vs : List JVal) (ts : Ts) : Outcome Rga :=
  let rec go : List Ts → List JVal → Ts → List RNode → Option (List RNode)
    | [], _, _, l => some l
    | _ :: _, [], _, _ => none
    | tg :: tgs, v :: vs, t, l =>
      let l' := updNode tg (fun x =>
        if x.v.isNone then x else if x.t.cmp t == .lt then { x with v := some v, t := t } else x) l
      go tgs vs t.nextDelim l'
  match go targets vs ts s.nodes with
  | some l => .ok { s with nodes := l }
  | none => .panic "updateRemote: index out of range"

/-- listSnapshot.deleteRemote: a live node is always deleted; a tombstone keeps the newest delete time -/
def Rga.deleteRemote (s : Rga) (targets : List Ts) (ts : Ts) : Rga :=
  let rec go : List Ts → Ts → List RNode → Int → List RNode × Int
    | [], _, l, sz => (l, sz)
    | tg :: tgs, t, l, sz =>
      let wasLive := l.any (fun x => x.o = tg && x.isLive)
      let l' := updNode tg (fun x =>
        if x.isLive then { x with v := none, t := t }
        else if x.t.cmp t == .lt then { x with t := t } else x) l
      go tgs t.nextDelim l' (if wasLive then sz - 1 else sz)
  let (l, sz) := go targets ts s.nodes s.size
  { nodes := l, size := sz }

/-- listSnapshot.ToJSON -/
def Rga.live (s : Rga) : List JVal := s.nodes.filterMap (·.v)

/-- validateInsertPosition / validateGetPosition / validateGetRange (list.go:393-426); `none` = valid -/
def Rga.validateInsert (s : Rga) (pos : Int) : Option Nat :=
  if pos < 0 then some Err.illegalParameters
  else if pos > s.size then some Err.illegalParameters else none
def Rga.validateGet (s : Rga) (pos : Int) : Option Nat :=
  if pos < 0 then some Err.illegalParameters
  else if pos ≥ s.size then some Err.illegalParameters else none
def Rga.validateRange (s : Rga) (pos num : Int) : Option Nat :=
  if pos < 0 then some Err.illegalParameters
  else if num < 1 then some Err.illegalParameters
  else if s.size - 1 < pos || pos + num > s.size then some Err.illegalParameters else none

end Orda
