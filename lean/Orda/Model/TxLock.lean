/-
Small-step model of the client-side lock protocol of TransactionDatatype (transaction.go:94-186):
BeginTransaction's re-entrancy test, setTransactionContextAndLock, EndTransaction/unlock.
Threads are goroutines issuing one non-transactional call each (SentenceInTx with a nil context);
`fixed = true` is the protocol of the current source (flags cleared while the mutex is held,
re-entrant path only for a non-nil context), `fixed = false` the earlier one (mutex released BEFORE
`isLocked := false`; re-entrant path taken whenever `isLocked ∧ its.txCtx == txCtx`).
-/
namespace Orda.TxLock

/-- program counter of a goroutine -/
inductive Pc where
  | idle          -- before BeginTransaction
  | wantLock      -- re-entrancy test failed: about to mutex.Lock()
  | critLocked    -- inside the critical section, holding the mutex
  | critUnlocked  -- inside the "critical section" WITHOUT the mutex (re-entrant path taken by mistake)
  | released      -- (old protocol only) mutex released, `isLocked := false` still to be written
  | done
deriving DecidableEq, Repr, Inhabited

structure St where
  mutex : Option Nat        -- holder of the sync.RWMutex
  isLocked : Bool
  txCtx : Option Nat        -- identity of its.txCtx (none = nil), named after the goroutine that created it
  pcs : List Pc
  queued : List Nat         -- operations appended to the transaction buffer / local buffer, by goroutine
  crashed : Bool            -- nil dereference of its.txCtx, or Unlock of a mutex not held
deriving DecidableEq, Repr, Inhabited

def init (n : Nat) : St := ⟨none, false, none, List.replicate n .idle, [], false⟩

def St.setPc (s : St) (i : Nat) (p : Pc) : St := { s with pcs := s.pcs.set i p }

/-- one step of goroutine `i` -/
inductive Step (fixed : Bool) : St → St → Prop
  /-- BeginTransaction, the test `isLocked && its.txCtx == txCtx` with txCtx = nil (a call outside any
      user transaction).  Fixed protocol: a nil context never takes the re-entrant path. -/
  | beginReentrant (s : St) (i : Nat) (h : s.pcs[i]? = some .idle) (hf : fixed = false)
      (hl : s.isLocked = true) (hc : s.txCtx = none) :
      Step fixed s (s.setPc i .critUnlocked)
  | beginWant (s : St) (i : Nat) (h : s.pcs[i]? = some .idle)
      (hn : fixed = true ∨ ¬ (s.isLocked = true ∧ s.txCtx = none)) :
      Step fixed s (s.setPc i .wantLock)
  /-- setTransactionContextAndLock: mutex.Lock() (enabled only when free), isLocked := true, txCtx := new -/
  | lock (s : St) (i : Nat) (h : s.pcs[i]? = some .wantLock) (hm : s.mutex = none) :
      Step fixed s ({ s with mutex := some i, isLocked := true, txCtx := some i }.setPc i .critLocked)
  /-- the body: executeLocalBase + its.txCtx.appendOperation(op); then EndTransaction → unlock.
      Holding the lock: fixed protocol clears txCtx and isLocked and releases in one go (all under the mutex). -/
  | finishLockedFixed (s : St) (i : Nat) (h : s.pcs[i]? = some .critLocked) (hf : fixed = true) :
      Step fixed s ({ s with mutex := none, isLocked := false, txCtx := none, queued := s.queued ++ [i] }.setPc i .done)
  /-- old protocol: txCtx := nil; mutex.Unlock(); — and only later isLocked := false -/
  | finishLockedOld (s : St) (i : Nat) (h : s.pcs[i]? = some .critLocked) (hf : fixed = false) :
      Step fixed s ({ s with mutex := none, txCtx := none, queued := s.queued ++ [i] }.setPc i .released)
  | clearFlagOld (s : St) (i : Nat) (h : s.pcs[i]? = some .released) :
      Step fixed s ({ s with isLocked := false }.setPc i .done)
  /-- a goroutine that skipped the lock: appendOperation on a nil its.txCtx dereferences nil; otherwise its
      EndTransaction (txCtx nil == its.txCtx?) unlocks a mutex it does not hold -/
  | finishUnlocked (s : St) (i : Nat) (h : s.pcs[i]? = some .critUnlocked) :
      Step fixed s ({ s with crashed := true }.setPc i .done)

inductive Reach (fixed : Bool) (n : Nat) : St → Prop
  | init : Reach fixed n (init n)
  | step {s s'} : Reach fixed n s → Step fixed s s' → Reach fixed n s'

def inCrit (p : Pc) : Bool := p = .critLocked || p = .critUnlocked

end Orda.TxLock
