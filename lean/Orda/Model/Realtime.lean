/-
Small-step model of REALTIME clients (C18, second clause): client/pkg/internal/managers/datatype.go
(DeliverTransaction, ReceiveNotification, syncIfNeedPull, sync) + the server's publish-after-commit, at
the level of COUNTERS: how many local operations a client has issued / had acknowledged, its checkpoint
in the server log, the end of the log.  (That equal checkpoints + nothing pending means equal states
is the protocol invariant of Proofs/Protocol.lean; here the question is only whether every client gets
there BY ITSELF — no lost wake-up.)  The guards of the manager are parameters (`RtFacts`) whose actual
values are regenerated from the source (`Gen.rtFacts`).
Messages are neither lost nor duplicated here (gRPC / MQTT QoS as deployed), but every message and
every goroutine may be delayed arbitrarily: steps interleave in any order.
-/
import Orda.Model.GenTypes
namespace Orda.Rt

inductive Kind where
  | deliver      -- started by DeliverTransaction (holds the semaphore)
  | notify       -- started by a notification (no semaphore in the current source)
  | notifySema   -- started by a notification while holding the semaphore (only if `notifySyncTakesSema`)
deriving DecidableEq, Repr

structure Client where
  issued : Nat := 0        -- local operations issued so far
  acked : Nat := 0         -- checkPoint.Cseq
  sseq : Nat := 0          -- checkPoint.Sseq
  sema : Bool := false     -- DatatypeManager.sema is taken
  spawned : Nat := 0       -- delivery goroutines started that have not reached TryAcquire yet
  notifs : List (Nat × Nat) := []   -- notifications queued for this client: (index of the pusher, end of log)
deriving DecidableEq, Repr

structure Req where
  c : Nat
  kind : Kind
  upto : Nat               -- the request carries the operations acked+1 .. upto
deriving DecidableEq, Repr

structure Resp where
  c : Nat
  kind : Kind
  sseq : Nat               -- end of the log when the request was served
  cseq : Nat               -- the server's record of the client's sequence number after the push
deriving DecidableEq, Repr

structure Sys where
  clients : List Client
  logEnd : Nat := 0
  srvCseq : List Nat       -- per client: operations of that client stored
  reqs : List Req := []
  resps : List Resp := []
deriving DecidableEq, Repr

def Sys.init (n : Nat) : Sys := { clients := List.replicate n {}, srvCseq := List.replicate n 0 }

def setC (S : Sys) (i : Nat) (cl : Client) : Sys := { S with clients := S.clients.set i cl }

/-- publish to every subscriber of the topic (the pusher included: the broker does not know better) -/
def publish (cls : List Client) (src : Nat) (e : Nat) : List Client :=
  cls.map fun cl => { cl with notifs := cl.notifs ++ [(src, e)] }

inductive Step (f : RtFacts) : Sys → Sys → Prop
  /-- a local operation in realtime mode: DeliverTransaction starts a goroutine -/
  | localOp (S : Sys) (i : Nat) (cl : Client) : S.clients[i]? = some cl →
      Step f S (setC S i { cl with issued := cl.issued + 1, spawned := cl.spawned + 1 })
  /-- the goroutine reaches TryAcquire: busy → it returns; free → take it and send the request -/
  | deliverBusy (S : Sys) (i : Nat) (cl : Client) : S.clients[i]? = some cl → 0 < cl.spawned →
      f.deliverTryAcquire = true → cl.sema = true →
      Step f S (setC S i { cl with spawned := cl.spawned - 1 })
  | deliverGo (S : Sys) (i : Nat) (cl : Client) : S.clients[i]? = some cl → 0 < cl.spawned → cl.sema = false →
      Step f S { (setC S i { cl with spawned := cl.spawned - 1, sema := true }) with
                          reqs := S.reqs ++ [⟨i, .deliver, cl.issued⟩] }
  /-- the server serves a request: stores what it does not have yet, publishes if something was stored -/
  | serve (S : Sys) (r : Req) (pre post : List Req) (have_ : Nat) : S.reqs = pre ++ r :: post →
      S.srvCseq[r.c]? = some have_ →
      Step f S
        (let new := r.upto - have_
         let e := S.logEnd + new
         { S with reqs := pre ++ post, logEnd := e,
                  srvCseq := S.srvCseq.set r.c (max have_ r.upto),
                  clients := if new = 0 then S.clients else publish S.clients r.c e,
                  resps := S.resps ++ [⟨r.c, r.kind, e, max have_ r.upto⟩] })
  /-- the response reaches the client; a delivery releases the semaphore and re-checks NeedPush -/
  | respond (S : Sys) (p : Resp) (pre post : List Resp) (cl : Client) : S.resps = pre ++ p :: post →
      S.clients[p.c]? = some cl →
      Step f S
        (let acked := max cl.acked p.cseq
         let cl1 := { cl with acked := acked, sseq := max cl.sseq p.sseq }
         let cl2 := if p.kind = .notify then cl1
                    else { cl1 with sema := false,
                                    spawned := if p.kind = .deliver ∧ f.deliverRechecks = true ∧ acked < cl.issued
                                               then cl1.spawned + 1 else cl1.spawned }
         { (setC S p.c cl2) with resps := pre ++ post })
  /-- a queued notification is handed to ReceiveNotification -/
  | notified (S : Sys) (i : Nat) (cl : Client) (n : Nat × Nat) (pre post : List (Nat × Nat)) :
      S.clients[i]? = some cl → cl.notifs = pre ++ n :: post →
      Step f S
        (let cl0 := { cl with notifs := pre ++ post }
         if f.ownFilter = true ∧ n.1 = i then setC S i cl0
         else if f.needPullGuard = true ∧ ¬ (cl.sseq < n.2) then setC S i cl0
         else if f.notifySyncTakesSema = true then
           (if cl.sema = true then setC S i cl0
            else { (setC S i { cl0 with sema := true }) with reqs := S.reqs ++ [⟨i, .notifySema, cl.issued⟩] })
         else { (setC S i cl0) with reqs := S.reqs ++ [⟨i, .notify, cl.issued⟩] })

inductive Reach (f : RtFacts) (n : Nat) : Sys → Prop
  | init : Reach f n (Sys.init n)
  | step {S S' : Sys} : Reach f n S → Step f S S' → Reach f n S'

/-- nothing in flight: no request, no response, no queued notification, no goroutine about to run -/
def Quiescent (S : Sys) : Prop :=
  S.reqs = [] ∧ S.resps = [] ∧ ∀ cl ∈ S.clients, cl.notifs = [] ∧ cl.spawned = 0

/-- every client has pushed everything and has pulled up to the end of the log -/
def Converged (S : Sys) : Prop :=
  ∀ (i : Nat) (cl : Client), S.clients[i]? = some cl → cl.acked = cl.issued ∧ cl.sseq = S.logEnd ∧ S.srvCseq[i]? = some cl.issued

/-- the guards of the current source -/
def currentFacts : RtFacts :=
  { ownFilter := true, needPullGuard := true, notifySyncTakesSema := false, deliverTryAcquire := true,
    deliverRechecks := true, deliverAsync := true }

end Orda.Rt
