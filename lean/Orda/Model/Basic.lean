/-
Model of client/pkg/model/timestamp.go, operation_id.go, checkpoint.go (core-only imports).
Each definition names the Go function it follows.  Clocks are unbounded naturals here; the
wrap-faithful 32/64-bit comparison is `Ts.cmp64` and is related to `Ts.cmp` in Proofs/Basic.
-/
import Orda.Gen.Generated
namespace Orda

/-- types.NewNilUID : sixteen '0' -/
def nilUID : String := "0000000000000000"

/-- model.OldestTimestamp -/
def Ts.oldest : Ts := ⟨0, 0, nilUID, 0⟩

/-- strings.Compare on the model side: lexicographic order of the code points
    (= byte order of the UTF-8 encodings). -/
def strCmp (a b : String) : Ordering := compare a b

/-- Timestamp.Compare (timestamp.go:30) over unbounded clocks: era, lamport, cuid; delimiter ignored -/
def Ts.cmp (a b : Ts) : Ordering :=
  if b.era < a.era then .gt
  else if a.era < b.era then .lt
  else if b.lamport < a.lamport then .gt
  else if a.lamport < b.lamport then .lt
  else strCmp a.cuid b.cuid

def Ts.numField (t : Ts) : TsField → Nat
  | .era => t.era | .lamport => t.lamport | .delim => t.delim | _ => 0
def Ts.strField (t : Ts) : TsField → String
  | .cuid => t.cuid | _ => ""

def intOrd (r : Int) : Ordering := if 0 < r then .gt else if r < 0 then .lt else .eq

/-- evaluator of a generated comparison: signed difference at the stated width, as Go computes it -/
def evalCmpSteps (num : TsField → Nat × Nat) : List CmpStep → Option Int
  | [] => none
  | st :: rest =>
    let (x, y) := num st.field
    let d : Int := if st.bits = 32 then ((BitVec.ofNat 32 x) - (BitVec.ofNat 32 y)).toInt
                   else ((BitVec.ofNat 64 x) - (BitVec.ofNat 64 y)).toInt
    if 0 < d then some st.pos else if d < 0 then some st.neg else evalCmpSteps num rest

/-- Timestamp.Compare exactly as written in the source (wrap-faithful), through the generated shape -/
def Ts.cmp64 (a b : Ts) : Ordering :=
  match evalCmpSteps (fun f => (a.numField f, b.numField f)) Gen.tsCompare.steps with
  | some r => intOrd r
  | none => strCmp (a.strField Gen.tsCompare.final) (b.strField Gen.tsCompare.final)

/-- Timestamp.Hash: the identifier key, rendered from the generated format -/
def hashKey (t : Ts) : List Char := renderHash Gen.hashFormat t

def Ts.lt (a b : Ts) : Bool := a.cmp b == .lt
def Ts.gt (a b : Ts) : Bool := a.cmp b == .gt

/-- Timestamp.GetAndNextDelimiter: returns the current value; the caller keeps the incremented one -/
def Ts.nextDelim (t : Ts) : Ts := { t with delim := t.delim + 1 }

/-- model.OperationID -/
structure OpId where
  era : Nat
  lamport : Nat
  cuid : String
  seq : Nat
deriving DecidableEq, Repr, Inhabited, BEq

/-- NewOperationIDWithCUID -/
def OpId.new (cuid : String) : OpId := ⟨0, 0, cuid, 0⟩
/-- NewOperationID (nil cuid) -/
def OpId.nil : OpId := ⟨0, 0, nilUID, 0⟩

/-- OperationID.GetTimestamp -/
def OpId.ts (o : OpId) : Ts := ⟨o.era, o.lamport, o.cuid, 0⟩
/-- OperationID.Next -/
def OpId.next (o : OpId) : OpId := { o with lamport := o.lamport + 1, seq := o.seq + 1 }
/-- OperationID.RollBack (uint64 decrement; never called at 0 in reachable states) -/
def OpId.rollBack (o : OpId) : OpId := { o with lamport := o.lamport - 1, seq := o.seq - 1 }
/-- OperationID.SyncLamport -/
def OpId.syncLamport (o : OpId) (other : Nat) : OpId :=
  if o.lamport < other then { o with lamport := other } else { o with lamport := o.lamport + 1 }

/-- model.CheckPoint -/
structure CheckPoint where
  sseq : Nat
  cseq : Nat
deriving DecidableEq, Repr, Inhabited, BEq

/-- CheckPoint.SyncCseq -/
def CheckPoint.syncCseq (c : CheckPoint) (cseq : Nat) : CheckPoint :=
  if c.cseq < cseq then { c with cseq := cseq } else c

end Orda
