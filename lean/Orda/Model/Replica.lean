/-
Model of client/pkg/internal/datatypes/{base,transaction,snapshot,wired}.go and the dispatch of
orda/{counter,map,list}.go ExecuteLocal/ExecuteRemote: one replica of one datatype.
-/
import Orda.Model.Datatypes
import Orda.Model.Doc
namespace Orda

inductive DtType where
  | counter | map | list | document
deriving DecidableEq, Repr, Inhabited

/-- the snapshot of a datatype (iface.Snapshot); marshal∘unmarshal is the identity on these forms -/
inductive DState where
  | counter (v : Int)
  | map (m : LwwMap)
  | list (l : Rga)
  | doc (d : Doc)
deriving Repr, Inhabited

def DState.fresh : DtType → DState
  | .counter => .counter 0
  | .map => .map LwwMap.empty
  | .list => .list Rga.empty
  | .document => .doc Doc.empty

/-- operations/*.go: bodies.  `pos`, `num` are the local-only fields (not on the wire). -/
inductive OpBody where
  | snapshot (s : DState)
  | error (code : Nat)
  | transaction (tag : String) (numOps : Int)
  | increase (delta : Int)
  | put (key : String) (v : JVal)
  | remove (key : String)
  | insert (pos : Nat) (t : Option Ts) (vs : List JVal)
  | delete (pos num : Nat) (tg : List Ts)
  | update (pos : Nat) (tg : List Ts) (vs : List JVal)
  | docPut (p : Ts) (k : String) (v : JVal)
  | docRemove (p : Ts) (k : String)
  | docInsert (p : Ts) (pos : Nat) (t : Option Ts) (vs : List JVal)
  | docDelete (p : Ts) (pos num : Nat) (tg : List Ts)
  | docUpdate (p : Ts) (pos : Nat) (tg : List Ts) (vs : List JVal)
deriving Repr, Inhabited

structure Op where
  id : OpId
  body : OpBody
deriving Repr, Inhabited

/-- ToModelOperation ∘ ModelToOperation: what survives the wire (local-only fields are zeroed) -/
def OpBody.wire : OpBody → OpBody
  | .insert _ t vs => .insert 0 t vs
  | .delete _ _ tg => .delete 0 0 tg
  | .update _ tg vs => .update 0 tg vs
  | .docInsert p _ t vs => .docInsert p 0 t vs
  | .docDelete p _ _ tg => .docDelete p 0 0 tg
  | .docUpdate p _ tg vs => .docUpdate p 0 tg vs
  | b => b

def Op.wire (o : Op) : Op := { o with body := o.body.wire }

/-- `op.GetType() == TRANSACTION || ERROR || op.GetType()%10 == 0` (base.go:70) -/
def OpBody.isMeta : OpBody → Bool
  | .snapshot _ | .error _ | .transaction _ _ => true
  | _ => false

/-- return value of a local execution, as the public API exposes it -/
inductive Ret where
  | none
  | int (i : Int)
  | val (v : Option JVal)
  | vals (vs : List JVal)
  | nodes (ids : List Ts)      -- documents: the displaced / deleted nodes (rendered by the API layer)
deriving Repr, Inhabited

/-- ExecuteLocal of counter/map/list: new state, the op with its targets filled in, return value -/
def execLocal (s : DState) (ts : Ts) (b : OpBody) : Outcome (DState × OpBody × Ret) :=
  match s, b with
  | .counter v, .increase d => let v' := counterIncrease v d; .ok (.counter v', b, .int v')
  | .map m, .put k v => let (m', old) := m.putCommon k v ts; .ok (.map m', b, .val old)
  | .map m, .remove k =>
    match m.removeLocal k ts with
    | (m', .ok old) => .ok (.map m', b, .val old)
    | (_, .err c) => .err c
    | (_, .panic w) => .panic w
  | .list l, .insert pos _ vs =>
    match l.insertLocal pos ts vs with
    | .ok (l', a) => .ok (.list l', .insert pos (some a) vs, .vals vs)
    | .err c => .err c
    | .panic w => .panic w
  | .list l, .delete pos num _ =>
    match l.deleteLocal pos num ts with
    | .ok (l', tg, old) => .ok (.list l', .delete pos num tg, .vals old)
    | .err c => .err c
    | .panic w => .panic w
  | .list l, .update pos _ vs =>
    match l.updateLocal pos ts vs with
    | .ok (l', tg, old) => .ok (.list l', .update pos tg vs, .vals old)
    | .err c => .err c
    | .panic w => .panic w
  | .doc d, .docPut p k v =>
    match d.putInObject p k v ts with
    | .ok (d', old) => .ok (.doc d', b, .nodes old.toList)
    | .err c => .err c
    | .panic w => .panic w
  | .doc d, .docRemove p k =>
    match d.deleteInObject p k ts true with
    | .ok (d', old) => .ok (.doc d', b, .nodes old.toList)
    | .err c => .err c
    | .panic w => .panic w
  | .doc d, .docInsert p pos _ vs =>
    match d.insertLocalInArray p pos ts vs with
    | .ok (d', a) => .ok (.doc d', .docInsert p pos (some a) vs, .none)
    | .err c => .err c
    | .panic w => .panic w
  | .doc d, .docDelete p pos num _ =>
    match d.deleteLocalInArray p pos num ts with
    | .ok (d', tg, old) => .ok (.doc d', .docDelete p pos num tg, .nodes old)
    | .err c => .err c
    | .panic w => .panic w
  | .doc d, .docUpdate p pos _ vs =>
    match d.updateLocalInArray p pos ts vs with
    | .ok (d', tg, old) => .ok (.doc d', .docUpdate p pos tg vs, .nodes old)
    | .err c => .err c
    | .panic w => .panic w
  | _, _ => .err Err.illegalOperation

/-- ExecuteRemote of counter/map/list (errors are dropped by executeRemoteBase; a panic is not) -/
def execRemote (s : DState) (ts : Ts) (b : OpBody) : Outcome DState :=
  match s, b with
  -- ApplySnapshot: json.Unmarshal into the snapshot; a snapshot of another datatype type has none of
  -- the expected fields, which leaves the zero value (an empty datatype)
  | .counter _, .snapshot (.counter v) => .ok (.counter v)
  | .map _, .snapshot (.map m) => .ok (.map m)
  | .list _, .snapshot (.list l) => .ok (.list l)
  | .doc _, .snapshot (.doc d) => .ok (.doc d)
  | .counter _, .snapshot _ => .ok (.counter 0)
  | .map _, .snapshot _ => .ok (.map LwwMap.empty)
  | .list _, .snapshot _ => .ok (.list Rga.empty)
  | .doc _, .snapshot _ => .ok (.doc Doc.empty)
  | .counter v, .increase d => .ok (.counter (counterIncrease v d))
  | .map m, .put k v => .ok (.map (m.putCommon k v ts).1)
  | .map m, .remove k => .ok (.map (m.removeRemote k ts).1)
  | .list l, .insert _ (some a) vs =>
    match l.insertRemote a ts vs with
    | .ok l' => .ok (.list l')
    | .err _ => .ok s
    | .panic w => .panic w
  | .list _, .insert _ none _ => .panic "insertRemote: nil target timestamp"
  | .list l, .delete _ _ tg => .ok (.list (l.deleteRemote tg ts))
  | .list l, .update _ tg vs =>
    match l.updateRemote tg vs ts with
    | .ok l' => .ok (.list l')
    | .err _ => .ok s
    | .panic w => .panic w
  | .doc d, .docPut p k v =>
    match d.putInObject p k v ts with
    | .ok (d', _) => .ok (.doc d')
    | .err _ => .ok s
    | .panic w => .panic w
  | .doc d, .docRemove p k =>
    match d.deleteInObject p k ts false with
    | .ok (d', _) => .ok (.doc d')
    | .err _ => .ok s
    | .panic w => .panic w
  | .doc d, .docInsert p _ (some a) vs =>
    match d.insertRemoteInArray p a ts vs with
    | .ok d' => .ok (.doc d')
    | .err _ => .ok s
    | .panic w => .panic w
  | .doc _, .docInsert _ _ none _ => .panic "InsertRemoteInArray: nil target timestamp"
  | .doc d, .docDelete p _ _ tg =>
    match d.deleteRemoteInArray p tg ts with
    | .ok d' => .ok (.doc d')
    | .err _ => .ok s
    | .panic w => .panic w
  | .doc d, .docUpdate p _ tg vs =>
    match d.updateRemoteInArray p ts tg vs with
    | .ok d' => .ok (.doc d')
    | .err _ => .ok s
    | .panic w => .panic w
  | _, _ => .ok s                        -- DatatypeIllegalOperation, dropped

/-- one replica of one datatype: BaseDatatype + TransactionDatatype + WiredDatatype fields that matter -/
structure Replica where
  typ : DtType
  opId : OpId
  state : DState
  buffer : List Op            -- localBuffer (wire form), never trimmed
  cp : CheckPoint
  rbOpId : OpId               -- rollbackMeta (only the operation id varies)
  rbSnap : DState             -- rollbackSnapshot
  rbOps : List Op             -- rollbackOps (local form, as executed)
deriving Repr, Inhabited

/-- newX + init (+ SubscribeOrCreate for the creating states: a snapshot operation is issued) -/
def Replica.new (typ : DtType) (cuid : String) (create : Bool) : Replica :=
  let r : Replica :=
    { typ, opId := OpId.new cuid, state := DState.fresh typ, buffer := [], cp := ⟨0, 0⟩,
      rbOpId := OpId.new cuid, rbSnap := DState.fresh typ, rbOps := [] }
  if create then
    let id := r.opId.next
    let op : Op := ⟨id, .snapshot r.state⟩
    { r with opId := id, buffer := [op], rbOps := [op] }
  else r

/-- executeLocalBase (base.go:68): the id is consumed first; meta operations have no effect;
    on error the id is rolled back; on panic it is NOT (the Go panic propagates). -/
def Replica.execLocalBase (r : Replica) (b : OpBody) : Replica × Outcome (Op × Ret) :=
  let id := r.opId.next
  let r1 := { r with opId := id }
  if b.isMeta then (r1, .ok (⟨id, b⟩, .none))
  else
    match execLocal r.state id.ts b with
    | .ok (s', b', ret) => ({ r1 with state := s' }, .ok (⟨id, b'⟩, ret))
    | .err c => ({ r1 with opId := id.rollBack }, .err c)
    | .panic w => (r1, .panic w)

/-- executeRemoteBase (base.go:82) -/
def Replica.execRemoteBase (r : Replica) (o : Op) : Replica × Option String :=
  let r1 := { r with opId := r.opId.syncLamport o.id.lamport }
  match execRemote r.state o.id.ts o.body with
  | .ok s' => ({ r1 with state := s' }, none)
  | .err _ => (r1, none)
  | .panic w => (r1, some w)

/-- SentenceInTx(local) outside a user transaction: execute, then EndTransaction appends the
    operation to rollbackOps and DeliverTransaction appends its wire form to localBuffer -/
def Replica.callLocal (r : Replica) (b : OpBody) : Replica × Outcome Ret :=
  match r.execLocalBase b with
  | (r', .ok (op, ret)) =>
    ({ r' with rbOps := r'.rbOps ++ [op], buffer := r'.buffer ++ [op.wire] }, .ok ret)
  | (r', .err c) => (r', .err c)
  | (r', .panic w) => (r', .panic w)

/-- Replay (base.go:88) -/
def Replica.replay (r : Replica) (o : Op) : Replica × Outcome Unit :=
  if r.opId.cuid = o.id.cuid then
    match r.execLocalBase o.body with
    | (r', .ok _) => (r', .ok ())
    | (r', .err c) => (r', .err c)
    | (r', .panic w) => (r', .panic w)
  else
    match r.execRemoteBase o with
    | (r', none) => (r', .ok ())
    | (r', some w) => (r', .panic w)

def Replica.replayAll (r : Replica) : List Op → Replica × Outcome Unit
  | [] => (r, .ok ())
  | o :: os =>
    match r.replay o with
    | (r', .ok ()) => r'.replayAll os
    | (r', e) => (r', e)

/-- Rollback (transaction.go:128): restore meta+snapshot, replay rollbackOps, re-snapshot.
    A failing replay makes EndTransaction `panic(err)`. -/
def Replica.rollback (r : Replica) : Replica × Outcome Unit :=
  let r0 := { r with opId := r.rbOpId, state := r.rbSnap }
  match r0.replayAll r.rbOps with
  | (r1, .ok ()) => ({ r1 with rbOpId := r1.opId, rbSnap := r1.state, rbOps := [] }, .ok ())
  | (r1, .err _) => (r1, .panic "rollback failed")
  | (r1, .panic w) => (r1, .panic w)

/-- ExecuteRemoteTransactionWithCtx for one unit (already sliced) -/
def Replica.applyUnit (r : Replica) (unit : List Op) : Replica × Outcome Unit :=
  let run (r : Replica) (ops : List Op) : Replica × Outcome Unit :=
    let rec go (r : Replica) : List Op → Replica × Outcome Unit
      | [] => (r, .ok ())
      | o :: os =>
        match r.execRemoteBase o with
        | (r', none) => go { r' with rbOps := r'.rbOps ++ [o] } os
        | (r', some w) => (r', .panic w)
    go r ops
  match unit with
  | [] => (r, .ok ())
  | [o] => run r [o]
  | hd :: tl =>
    match hd.body with
    | .transaction _ n =>
      if n ≠ (unit.length : Int) then (r, .err Err.transaction) else run r tl
    | _ => (r, .err Err.transaction)

/-- ReceiveRemoteModelOperations (wired.go:43): slice by the announced length.
    After the repair of the slicing, a unit whose announced length is < 1 or exceeds what is left
    is refused with DatatypeTransaction and nothing of it is applied. -/
def Replica.receive (r : Replica) (ops : List Op) : Replica × Outcome Unit :=
  let rec go (fuel : Nat) (r : Replica) (ops : List Op) : Replica × Outcome Unit :=
    match fuel, ops with
    | _, [] => (r, .ok ())
    | 0, _ => (r, .panic "fuel")
    | fuel + 1, o :: rest =>
      match o.body with
      | .transaction _ n =>
        if n < 1 || (n.toNat > (o :: rest).length) then (r, .err Err.transaction)
        else
          match r.applyUnit ((o :: rest).take n.toNat) with
          | (r', .ok ()) => go fuel r' ((o :: rest).drop n.toNat)
          | (r', e) => (r', e)
      | _ =>
        match r.applyUnit [o] with
        | (r', .ok ()) => go fuel r' rest
        | (r', e) => (r', e)
  go ops.length r ops

/-- getModelOperations(cseq+1) of CreatePushPullPack: the operations with seq > cp.cseq -/
def Replica.pending (r : Replica) : List Op :=
  match r.buffer with
  | [] => []
  | first :: _ =>
    let start : Int := (r.cp.cseq + 1 : Int) - first.id.seq
    if 0 ≤ start && start.toNat < r.buffer.length then r.buffer.drop start.toNat else []

/-- GetMetaAndSnapshot / SetMetaAndSnapshot into a fresh instance created for the same client.
    The repaired SetMetaAndSnapshot also re-bases the rollback point. -/
def Replica.importFrom (src : Replica) : Replica :=
  { typ := src.typ, opId := src.opId, state := src.state, buffer := [], cp := ⟨0, 0⟩,
    rbOpId := src.opId, rbSnap := src.state, rbOps := [] }

end Orda
