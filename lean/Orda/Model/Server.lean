/-
Model of the sync server over an abstract MongoDB: server/service/*.go, server/schema/*.go,
server/mongodb/*.go, server/snapshot/manager.go, server/notification/notifier.go, server/admin.
The store is six system collections plus the user collections, as lists of typed documents.
Wall-clock fields (createdAt/updatedAt/at) are erased.  One request is modelled as an atomic
function of the store (the per-key lock; concurrency is the subject of Model/Lock).
-/
import Orda.Model.Wired
namespace Orda

structure SubClient where
  cp : CheckPoint
  typ : Nat
deriving Repr, Inhabited

structure DatatypeDoc where
  duid : String
  key : String
  colNum : Nat
  typ : DtType
  sseqBegin : Nat := 0
  sseqEnd : Nat := 0
  sseqSafe : Nat := 0
  visible : Bool := true
  rw : List (String × SubClient) := []
  ro : List (String × SubClient) := []
deriving Repr, Inhabited

structure OpDoc where
  duid : String
  colNum : Nat
  sseq : Nat
  op : Op
deriving Repr, Inhabited

structure ClientDoc where
  cuid : String
  alias : String
  colNum : Nat
  typ : Nat        -- 0 persistent, 1 ephemeral, 2 volatile
  syncType : Nat
deriving Repr, Inhabited

structure CollectionDoc where
  name : String
  num : Nat
deriving Repr, Inhabited

structure SnapDoc where
  colNum : Nat
  duid : String
  sseq : Nat
  opId : OpId           -- meta
  key : String
  snap : DState
deriving Repr, Inhabited

structure UserDoc where
  col : String
  key : String
  ver : Nat
  value : DState        -- rendered by the codec as the JSON view
deriving Repr, Inhabited

structure Store where
  collections : List CollectionDoc := []
  counter : Option Nat := none             -- -_-ColNumGenerator.num
  clients : List ClientDoc := []
  datatypes : List DatatypeDoc := []
  operations : List OpDoc := []
  snapshots : List SnapDoc := []
  userDocs : List UserDoc := []
deriving Repr, Inhabited

structure Notification where
  topic : String
  cuid : String
  duid : String
  sseq : Nat
deriving Repr, Inhabited

/-- RPC-level outcome of a request -/
inductive Rpc (α : Type) where
  | ok (a : α)
  | rpcErr (code : Nat)
deriving Repr, Inhabited

def Store.getCollection (st : Store) (name : String) : Option CollectionDoc :=
  st.collections.find? (fun c => c.name = name)
def Store.getClient (st : Store) (cuid : String) : Option ClientDoc :=
  st.clients.find? (fun c => c.cuid = cuid)
def Store.getDatatypeByKey (st : Store) (colNum : Nat) (key : String) : Option DatatypeDoc :=
  st.datatypes.find? (fun d => d.colNum = colNum ∧ d.key = key)
def Store.getDatatype (st : Store) (duid : String) : Option DatatypeDoc :=
  st.datatypes.find? (fun d => d.duid = duid)
/-- GetOperations(duid, from, ∞) sorted by sseq -/
def Store.getOperations (st : Store) (duid : String) (from_ : Nat) : List OpDoc :=
  let sel := st.operations.filter (fun o => o.duid = duid ∧ from_ ≤ o.sseq)
  sel.foldr (fun o acc =>
    let rec ins (o : OpDoc) : List OpDoc → List OpDoc
      | [] => [o]
      | x :: xs => if o.sseq ≤ x.sseq then o :: x :: xs else x :: ins o xs
    ins o acc) []

def upsertDatatype (d : DatatypeDoc) : List DatatypeDoc → List DatatypeDoc
  | [] => [d]
  | x :: xs => if x.duid = d.duid then d :: xs else x :: upsertDatatype d xs

/-- GetNextCollectionNum + InsertCollection (repaired: the counter's new value is the number) -/
def Store.makeCollection (st : Store) (name : String) : Store × Nat :=
  match st.getCollection name with
  | some c => (st, c.num)
  | none =>
    let n := (st.counter.getD 0) + 1
    ({ st with counter := some n, collections := st.collections ++ [⟨name, n⟩] }, n)

/-- ProcessClient (service_client.go) -/
def Store.processClient (st : Store) (admin : Bool) (colName : String) (cl : ClientDoc) : Store × Rpc Unit :=
  if admin then (st, .rpcErr 16)
  else match st.getCollection colName with
  | none => (st, .rpcErr 5)
  | some col =>
    let cl := { cl with colNum := col.num }
    match st.getClient cl.cuid with
    | some old =>
      if old.colNum ≠ col.num then (st, .rpcErr 16)
      else ({ st with clients := st.clients.map (fun c => if c.cuid = cl.cuid then cl else c) }, .ok ())
    | none => ({ st with clients := st.clients ++ [cl] }, .ok ())

inductive PPCase where
  | matchNothing | usedDUID | matchKeyNotType | allMatchedSubscribed | allMatchedNotSubscribed | allMatchedNotVisible
deriving DecidableEq, Repr, Inhabited

def DatatypeDoc.sub (d : DatatypeDoc) (cuid : String) (ro : Bool) : Option SubClient :=
  alFind cuid (if ro then d.ro else d.rw)

def DatatypeDoc.setSub (d : DatatypeDoc) (cuid : String) (ro : Bool) (s : SubClient) : DatatypeDoc :=
  if ro then { d with ro := alSet cuid s d.ro } else { d with rw := alSet cuid s d.rw }

/-- evaluatePushPullCase (service_pushpull_datatype.go:381); the lookup by id is confined to the
    client's collection (repaired) -/
def evalCase (st : Store) (col : CollectionDoc) (cuid : String) (p : Pack) : PPCase × Option DatatypeDoc :=
  let byKey := if p.create || p.subscribe then st.getDatatypeByKey col.num p.key else none
  match byKey with
  | none =>
    match st.getDatatype p.duid with
    | none => (.matchNothing, none)
    | some d =>
      -- an id that belongs to another collection or another key is neither visible nor free
      if d.colNum = col.num ∧ d.key = p.key then (.usedDUID, some d) else (.usedDUID, none)
  | some d =>
    if d.typ = p.typ then
      if d.visible then
        (if (d.sub cuid p.readOnly).isSome then (.allMatchedSubscribed, some d) else (.allMatchedNotSubscribed, some d))
      else (.allMatchedNotVisible, some d)
    else (.matchKeyNotType, some d)

/-- what processSubscribeOrCreate decides -/
inductive Dispatch where
  | create | subscribe | normal | refuse (code : Nat)
deriving DecidableEq, Repr, Inhabited

/-- processSubscribeOrCreate (service_pushpull_datatype.go:304), repaired: a key of another type is
    refused; a request for a datatype that does not exist is refused; a subscribe request of an
    already subscribed client for a datatype it did not create is served as a subscription again -/
def dispatch (c : PPCase) (create subscribe sameDuid : Bool) : Dispatch :=
  if c = .matchKeyNotType && (create || subscribe) then
    .refuse (if create then 302 else 304)
  else if c = .usedDUID && (create || subscribe) then .refuse 301
  else if subscribe && create then
    match c with
    | .matchNothing => .create
    | .allMatchedNotSubscribed => .subscribe
    | .allMatchedSubscribed => if sameDuid then .normal else .subscribe
    | _ => .normal
  else if subscribe then
    match c with
    | .matchNothing => .refuse 304
    | .allMatchedNotSubscribed => .subscribe
    | .allMatchedSubscribed => if sameDuid then .normal else .subscribe
    | _ => .normal
  else if create then
    match c with
    | .matchNothing => .create
    | .allMatchedNotSubscribed => .refuse 302
    | _ => .normal
  else
    match c with
    | .matchNothing => .refuse 301
    | _ => .normal

structure PPResult where
  store : Store
  resp : Pack
  notif : Option Notification
  pushed : Nat                      -- number of operations stored by this request
deriving Repr, Inhabited

def errorPack (p : Pack) (code : Nat) : Pack :=
  { p with create := false, subscribe := false, unsubscribe := false, delete := false, snapshot := false,
           readOnly := false, error := true, ops := [⟨OpId.nil, .error code⟩] }

/-- pushOperations (service_pushpull_datatype.go:281): accept exactly the next client sequence,
    skip duplicates, fail on a gap -/
def pushOps (duid : String) (colNum : Nat) : CheckPoint → List Op → List OpDoc → Except Nat (CheckPoint × List OpDoc)
  | cp, [], acc => .ok (cp, acc)
  | cp, o :: os, acc =>
    if cp.cseq + 1 = o.id.seq then
      pushOps duid colNum ⟨cp.sseq + 1, o.id.seq⟩ os (acc ++ [⟨duid, colNum, cp.sseq + 1, o⟩])
    else if o.id.seq ≤ cp.cseq then pushOps duid colNum cp os acc
    else .error 303

/-- one PushPullHandler.process for one pack, for a registered client of the collection -/
def processPack (st : Store) (cl : ClientDoc) (col : CollectionDoc) (p : Pack) : PPResult :=
  let resp0 : Pack := { p with create := false, subscribe := false, unsubscribe := false, delete := false,
                                snapshot := false, error := false, readOnly := false, ops := [] }
  let refuse (code : Nat) : PPResult := ⟨st, errorPack resp0 code, none, 0⟩
  -- validatePushPullPack
  if p.readOnly && p.create then refuse 301
  else if p.readOnly && !p.ops.isEmpty then refuse 301
  else
    let (c, doc?) := evalCase st col cl.cuid p
    let sameDuid := match doc? with | some d => d.duid = p.duid | none => true
    let dsp := dispatch c p.create p.subscribe sameDuid
    let dsp := if dsp ≠ .create && doc?.isNone then (match dsp with | .refuse x => .refuse x | _ => .refuse 301) else dsp
    -- a request is only served on the datatype its id names
    let dsp := if dsp = .normal && !sameDuid then (if p.create then .refuse 302 else .refuse 301) else dsp
    match dsp with
    | .refuse code => refuse code
    | d =>
      -- createDatatype / subscribeDatatype / normal
      let doc : DatatypeDoc := match d, doc? with
        | .create, _ => { duid := p.duid, key := p.key, colNum := col.num, typ := p.typ }
        | _, some x => x
        | _, none => { duid := p.duid, key := p.key, colNum := col.num, typ := p.typ }
      let duid := if d = .subscribe then doc.duid else p.duid
      let inOps := if d = .subscribe then [] else p.ops
      let resp1 : Pack := { resp0 with duid := (if d = .subscribe then doc.duid else resp0.duid),
                                       create := d = .create, subscribe := d = .subscribe }
      -- initClientInfoWithDatatypeDoc
      let volatile := cl.typ = 2
      let stored := doc.sub cl.cuid p.readOnly
      let cp0 : CheckPoint := match stored with | some s => s.cp | none => ⟨0, 0⟩
      -- pushOperations
      let cp1 : CheckPoint := if p.readOnly then cp0 else ⟨doc.sseqEnd, cp0.cseq⟩
      match (if p.readOnly then Except.ok (cp1, []) else pushOps duid col.num cp1 inOps []) with
      | .error code => ⟨st, { errorPack resp0 code with create := resp1.create, subscribe := resp1.subscribe,
                                                         duid := resp1.duid }, none, 0⟩
      | .ok (cp2, newDocs) =>
        -- pullOperations
        let pulled : List OpDoc :=
          if volatile then []
          else if doc.sseqBegin ≤ p.cp.sseq + 1 && !p.snapshot then st.getOperations duid (p.cp.sseq + 1) else []
        let cp3 : CheckPoint :=
          match pulled.getLast? with
          | some last => ⟨last.sseq + newDocs.length, cp2.cseq⟩
          | none => cp2
        -- commitToMongoDB (operations, then the datatype document with end-of-log and checkpoints)
        let endOfLog := if p.readOnly then doc.sseqEnd else cp3.sseq
        let doc' := { doc with sseqEnd := endOfLog }
        let doc'' := if volatile then doc' else doc'.setSub cl.cuid p.readOnly ⟨cp3, cl.typ⟩
        let st' := { st with operations := st.operations ++ newDocs, datatypes := upsertDatatype doc'' st.datatypes }
        let resp := { resp1 with cp := cp3, ops := pulled.map (·.op) }
        ⟨st', resp,
         if newDocs.isEmpty then none else some ⟨col.name ++ "/" ++ doc.key, cl.cuid, doc.duid, cp3.sseq⟩,
         newDocs.length⟩

/-- ProcessPushPull (service_pushpull_client.go): collection and client checks, then one handler per pack -/
def Store.processPushPull (st : Store) (colName cuid : String) (packs : List Pack) :
    Store × Rpc (List Pack) × List Notification × List (String × Nat) :=
  match st.getCollection colName with
  | none => (st, .rpcErr 5, [], [])
  | some col =>
    match st.getClient cuid with
    | none => (st, .rpcErr 5, [], [])
    | some cl =>
      if cl.colNum ≠ col.num then (st, .rpcErr 16, [], [])
      else
        let (st', resps, ns, jobs) := packs.foldl (fun (acc : Store × List Pack × List Notification × List (String × Nat)) p =>
          let r := processPack acc.1 cl col p
          (r.store, acc.2.1 ++ [r.resp], acc.2.2.1 ++ r.notif.toList,
           acc.2.2.2 ++ (if r.pushed > 0 then [(r.resp.duid, col.num)] else []))) (st, [], [], [])
        (st', .ok resps, ns, jobs)

/-- SnapshotManager.GetLatestDatatype: latest stored snapshot + the operations after it, applied as
    remote operations to the server's own replica -/
def Store.latest (st : Store) (doc : DatatypeDoc) : Option (Replica × Nat) :=
  let snaps := st.snapshots.filter (fun s => s.colNum = doc.colNum ∧ s.duid = doc.duid)
  let best := snaps.foldl (fun (acc : Option SnapDoc) s =>
    match acc with | none => some s | some b => if b.sseq < s.sseq then some s else some b) none
  let base : Replica × Nat :=
    match best with
    | some s =>
      let r0 := Replica.new doc.typ "server" false
      ({ r0 with opId := { s.opId with seq := 0 }, state := s.snap, rbOpId := s.opId, rbSnap := s.snap }, s.sseq)
    | none =>
      let r0 := Replica.new doc.typ "server" false
      ({ r0 with opId := ⟨0, 1, "server", 0⟩ }, 0)
  let ops := st.getOperations doc.duid (base.2 + 1)
  match base.1.receive (ops.map (·.op)) with
  | (r, .ok ()) => some (r, (ops.getLast?.map (·.sseq)).getD base.2)
  | _ => none

/-- SnapshotManager.UpdateSnapshot: insert the snapshot at the version reached (a snapshot with that
    id may exist already: duplicate `_id`, the insert fails and the user document is left alone),
    then replace the user document -/
def Store.updateSnapshot (st : Store) (duid : String) (colName : String) : Store :=
  match st.getDatatype duid with
  | none => st
  | some doc =>
    match st.latest doc with
    | none => st
    | some (r, ver) =>
      if st.snapshots.any (fun s => s.duid = duid ∧ s.sseq = ver) then st
      else
        let snap : SnapDoc := ⟨doc.colNum, duid, ver, r.opId, doc.key, r.state⟩
        let ud : UserDoc := ⟨colName, doc.key, ver, r.state⟩
        { st with snapshots := st.snapshots ++ [snap],
                  userDocs := (st.userDocs.filter (fun u => !(u.col = colName ∧ u.key = doc.key))) ++ [ud] }

/-- PurgeCollection + CreateCollection (ResetCollection): everything carrying the collection's number
    goes, the user collection is dropped, the collection document stays (its filter matches nothing) -/
def Store.resetCollection (st : Store) (name : String) : Store :=
  match st.getCollection name with
  | none => (st.makeCollection name).1
  | some c =>
    { st with operations := st.operations.filter (fun o => o.colNum ≠ c.num),
              snapshots := st.snapshots.filter (fun s => s.colNum ≠ c.num),
              datatypes := st.datatypes.filter (fun d => d.colNum ≠ c.num),
              clients := st.clients.filter (fun x => x.colNum ≠ c.num),
              userDocs := st.userDocs.filter (fun u => u.col ≠ name) }

end Orda
