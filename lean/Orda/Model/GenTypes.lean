/-
Types shared by the generated facts (Gen/Generated.lean) and the model.
-/
namespace Orda

/-- model.Timestamp -/
structure Ts where
  era : Nat
  lamport : Nat
  cuid : String
  delim : Nat
deriving DecidableEq, Repr, Inhabited, BEq

/-- a timestamp / operation-id field -/
inductive TsField where
  | era | lamport | cuid | delim | seq
deriving DecidableEq, Repr

/-- one step of a Compare function: `x := intN(a.f - b.f); if x > 0 {return pos} else if x < 0 {return neg}` -/
structure CmpStep where
  field : TsField
  bits : Nat
  pos : Int
  neg : Int
deriving DecidableEq, Repr

/-- the shape of Timestamp.Compare / OperationID.Compare as found in the source:
    numeric steps, then `strings.Compare` on a string field; `ok = false` when untranslatable -/
structure CmpSpec where
  steps : List CmpStep
  final : TsField
  ok : Bool
deriving DecidableEq, Repr

/-! ### identifier key (Timestamp.Hash) — rendered from a *generated* format description -/

/-- one segment of the `fmt.Fprintf` format of `Timestamp.Hash` -/
inductive HSeg where
  | lit (s : String)          -- literal text
  | era | lamport | delim     -- %d of that field
  | cuid                      -- %s of the client id
deriving DecidableEq, Repr

def natStr (n : Nat) : List Char := Nat.toDigits 10 n

def HSeg.render (t : Ts) : HSeg → List Char
  | .lit s => s.toList
  | .era => natStr t.era
  | .lamport => natStr t.lamport
  | .delim => natStr t.delim
  | .cuid => t.cuid.toList

def renderHash (fmt : List HSeg) (t : Ts) : List Char :=
  (fmt.map (HSeg.render t)).flatten

end Orda
