-- Root of the `Orda` library: the executable model, the specifications and every property module.
import Orda.Model.Basic
import Orda.Model.Json
import Orda.Model.Datatypes
import Orda.Model.Doc
import Orda.Model.Replica
import Orda.Model.Api
import Orda.Model.Wired
import Orda.Model.Server
import Orda.Spec.Denote
import Orda.Spec.Plain
import Orda.Props.C01
import Orda.Props.C02
import Orda.Props.C03
import Orda.Props.C04
import Orda.Props.C09
import Orda.Props.C10
import Orda.Props.C15
