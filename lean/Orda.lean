import Orda.Model.Basic
import Orda.Model.Json
import Orda.Model.Datatypes
import Orda.Model.Replica
import Orda.Model.Api
import Orda.Spec.Denote
import Orda.Spec.Plain
